// Thorough-tier instantiation witness: cross product of element types x container kinds x archives (parsed by bsfacts, never run).
#include <array>
#include <atomic>
#include <bitset>
#include <chrono>
#include <cstddef>
#include <ctime>
#include <deque>
#include <forward_list>
#include <list>
#include <map>
#include <memory>
#include <optional>
#include <queue>
#include <set>
#include <sstream>
#include <stack>
#include <string>
#include <tuple>
#include <unordered_map>
#include <unordered_set>
#include <valarray>
#include <vector>

#include "bitserializer/bit_serializer.h"
#include "bitserializer/msgpack_archive.h"
#include "bitserializer/pugixml_archive.h"
#include "bitserializer/rapidjson_archive.h"
#include "bitserializer/types/std/array.h"
#include "bitserializer/types/std/atomic.h"
#include "bitserializer/types/std/bitset.h"
#include "bitserializer/types/std/chrono.h"
#include "bitserializer/types/std/ctime.h"
#include "bitserializer/types/std/deque.h"
#include "bitserializer/types/std/filesystem.h"
#include "bitserializer/types/std/forward_list.h"
#include "bitserializer/types/std/list.h"
#include "bitserializer/types/std/map.h"
#include "bitserializer/types/std/memory.h"
#include "bitserializer/types/std/optional.h"
#include "bitserializer/types/std/pair.h"
#include "bitserializer/types/std/queue.h"
#include "bitserializer/types/std/set.h"
#include "bitserializer/types/std/stack.h"
#include "bitserializer/types/std/tuple.h"
#include "bitserializer/types/std/unordered_map.h"
#include "bitserializer/types/std/unordered_set.h"
#include "bitserializer/types/std/valarray.h"
#include "bitserializer/types/std/vector.h"

using namespace BitSerializer;
using JsonArchive = Json::RapidJson::JsonArchive;
using XmlArchive = Xml::PugiXml::XmlArchive;
using MsgPackArchive = MsgPack::MsgPackArchive;

namespace WS {

enum class Shade { Dark, Light };
REGISTER_ENUM(Shade, {{Shade::Dark, "Dark"}, {Shade::Light, "Light"}})

struct Leaf {
  short v = 0;
  std::u16string name;
  bool operator<(const Leaf& o) const { return v < o.v; }
  bool operator==(const Leaf& o) const { return v == o.v; }
  template <class TArchive> void Serialize(TArchive& archive) {
    archive << KeyValue("v", v, Required());
    archive << KeyValue("name", name, MaxSize(16));
  }
};

template <class T>
struct Holder {
  T& v;
  template <class TArchive> void Serialize(TArchive& archive) { archive << KeyValue("v", v); }
};

template <class TArchive, class T>
void Round(T& value, const SerializationOptions& opt) {
  Holder<T> v{value};
  std::string s;
  SaveObject<TArchive>(v, s, opt);
  LoadObject<TArchive>(v, s, opt);
  std::stringstream ss;
  SaveObject<TArchive>(v, ss, opt);
  LoadObject<TArchive>(v, ss, opt);
}

template <class TArchive, class TElem>
void Sequences(const SerializationOptions& opt) {
  std::vector<TElem> a; Round<TArchive>(a, opt);
  std::deque<TElem> b; Round<TArchive>(b, opt);
  std::list<TElem> c; Round<TArchive>(c, opt);
  std::forward_list<TElem> d; Round<TArchive>(d, opt);
  std::array<TElem, 3> e{}; Round<TArchive>(e, opt);
  std::vector<std::vector<TElem>> f; Round<TArchive>(f, opt);
  std::optional<TElem> g; Round<TArchive>(g, opt);
  std::unique_ptr<TElem> h; Round<TArchive>(h, opt);
  std::shared_ptr<TElem> i; Round<TArchive>(i, opt);
  std::map<std::string, TElem> j; Round<TArchive>(j, opt);
  std::unordered_map<std::string, TElem> k; Round<TArchive>(k, opt);
  std::pair<int, TElem> l; Round<TArchive>(l, opt);
  std::tuple<TElem, int> m; Round<TArchive>(m, opt);
  std::queue<TElem> n; Round<TArchive>(n, opt);
  std::stack<TElem> o; Round<TArchive>(o, opt);
  std::map<std::string, std::vector<TElem>> p; Round<TArchive>(p, opt);
  std::optional<std::vector<TElem>> q; Round<TArchive>(q, opt);
  TElem carr[2] = {}; Round<TArchive>(carr, opt);
}

template <class TArchive, class TElem>
void Ordered(const SerializationOptions& opt) {
  std::set<TElem> a; Round<TArchive>(a, opt);
  std::multiset<TElem> b; Round<TArchive>(b, opt);
  std::unordered_set<TElem> c; Round<TArchive>(c, opt);
  std::priority_queue<TElem> d; Round<TArchive>(d, opt);
  std::map<TElem, int> e; Round<TArchive>(e, opt);
  std::multimap<TElem, int> f; Round<TArchive>(f, opt);
  std::unordered_map<TElem, std::string> g; Round<TArchive>(g, opt);
}

template <class TArchive>
void Numeric(const SerializationOptions& opt) {
  std::valarray<int> a; Round<TArchive>(a, opt);
  std::valarray<double> b; Round<TArchive>(b, opt);
  std::bitset<12> c; Round<TArchive>(c, opt);
  std::vector<bool> d; Round<TArchive>(d, opt);
  std::atomic<long> e{0}; Round<TArchive>(e, opt);
  std::atomic<bool> f{false}; Round<TArchive>(f, opt);
}

template <class TArchive>
void Chrono(const SerializationOptions& opt) {
  using namespace std::chrono;
  { time_point<system_clock, nanoseconds> v; Round<TArchive>(v, opt); }
  { time_point<system_clock, microseconds> v; Round<TArchive>(v, opt); }
  { time_point<system_clock, milliseconds> v; Round<TArchive>(v, opt); }
  { time_point<system_clock, seconds> v; Round<TArchive>(v, opt); }
  { time_point<system_clock, minutes> v; Round<TArchive>(v, opt); }
  { time_point<system_clock, hours> v; Round<TArchive>(v, opt); }
  { nanoseconds v{}; Round<TArchive>(v, opt); }
  { microseconds v{}; Round<TArchive>(v, opt); }
  { milliseconds v{}; Round<TArchive>(v, opt); }
  { minutes v{}; Round<TArchive>(v, opt); }
  { hours v{}; Round<TArchive>(v, opt); }
  { duration<int32_t> v{}; Round<TArchive>(v, opt); }
  { duration<uint64_t> v{}; Round<TArchive>(v, opt); }
  { std::vector<seconds> v; Round<TArchive>(v, opt); }
  { std::map<std::string, system_clock::time_point> v; Round<TArchive>(v, opt); }
}

template <class TArchive>
void AllFor(const SerializationOptions& opt) {
  Sequences<TArchive, bool>(opt);
  Sequences<TArchive, signed char>(opt);
  Sequences<TArchive, unsigned short>(opt);
  Sequences<TArchive, int>(opt);
  Sequences<TArchive, unsigned long>(opt);
  Sequences<TArchive, float>(opt);
  Sequences<TArchive, double>(opt);
  Sequences<TArchive, std::string>(opt);
  Sequences<TArchive, std::wstring>(opt);
  Sequences<TArchive, std::u32string>(opt);
  Sequences<TArchive, Shade>(opt);
  Sequences<TArchive, Leaf>(opt);
  Ordered<TArchive, int>(opt);
  Ordered<TArchive, std::string>(opt);
  Ordered<TArchive, unsigned short>(opt);
  Numeric<TArchive>(opt);
  Chrono<TArchive>(opt);
}

void All() {
  SerializationOptions opt;
  AllFor<MsgPackArchive>(opt);
  AllFor<JsonArchive>(opt);
  AllFor<XmlArchive>(opt);
}

}  // namespace WS
