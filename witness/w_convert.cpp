// Instantiation driver (parsed only, never compiled to an object, never run): conversion API.
#include <chrono>
#include <cstdint>
#include <ctime>
#include <optional>
#include <sstream>
#include <string>
#include <string_view>

#include "bitserializer/convert.h"
#include "bitserializer/conversion_detail/convert_utf.h"
#include "bitserializer/serialization_detail/bin_timestamp.h"
#include "bitserializer/serialization_detail/archive_base.h"

using namespace BitSerializer;
namespace Utf = BitSerializer::Convert::Utf;

namespace WC {

enum class Fruit { Apple, Pear };
REGISTER_ENUM(Fruit, {{Fruit::Apple, "Apple"}, {Fruit::Pear, "Pear"}})

template <class TOut, class TIn> void One(TIn v) {
  auto r = Convert::To<TOut>(v);
  (void)r;
  auto o = Convert::TryTo<TOut>(v);
  (void)o;
}

template <class TOut> void FromArith() {
  One<TOut>(true); One<TOut>(char(1)); One<TOut>((signed char)1); One<TOut>((unsigned char)1);
  One<TOut>(short(1)); One<TOut>((unsigned short)1); One<TOut>(1); One<TOut>(1u); One<TOut>(1l); One<TOut>(1ul);
  One<TOut>(1ll); One<TOut>(1ull); One<TOut>(1.0f); One<TOut>(1.0);
}

template <class TOut> void FromStrings() {
  One<TOut>(std::string_view("1")); One<TOut>(std::string("1")); One<TOut>("1");
  One<TOut>(std::wstring_view(L"1")); One<TOut>(std::wstring(L"1")); One<TOut>(L"1");
  One<TOut>(std::u16string_view(u"1")); One<TOut>(std::u16string(u"1")); One<TOut>(u"1");
  One<TOut>(std::u32string_view(U"1")); One<TOut>(std::u32string(U"1")); One<TOut>(U"1");
}

template <class TStr> void ToStrings() {
  One<TStr>(true); One<TStr>(char(1)); One<TStr>((signed char)1); One<TStr>((unsigned char)1); One<TStr>(short(1)); One<TStr>((unsigned short)1);
  One<TStr>(1); One<TStr>(1u); One<TStr>(1l); One<TStr>(1ul); One<TStr>(1ll); One<TStr>(1ull); One<TStr>(1.0f); One<TStr>(1.0);
  One<TStr>(Fruit::Apple);
  One<TStr>(std::chrono::system_clock::time_point{});
  One<TStr>(std::chrono::time_point<std::chrono::system_clock, std::chrono::milliseconds>{});
  One<TStr>(std::chrono::time_point<std::chrono::system_clock, std::chrono::seconds>{});
  One<TStr>(std::chrono::time_point<std::chrono::system_clock, std::chrono::microseconds>{});
  One<TStr>(std::chrono::time_point<std::chrono::system_clock, std::chrono::minutes>{});
  One<TStr>(std::chrono::time_point<std::chrono::system_clock, std::chrono::hours>{});
  One<TStr>(std::chrono::time_point<std::chrono::system_clock, std::chrono::duration<int64_t, std::ratio<86400>>>{});
  One<TStr>(std::chrono::time_point<std::chrono::system_clock, std::chrono::duration<int32_t, std::ratio<86400>>>{});
  One<TStr>(std::chrono::time_point<std::chrono::system_clock, std::chrono::duration<int32_t>>{});
  One<TStr>(std::chrono::seconds{}); One<TStr>(std::chrono::nanoseconds{}); One<TStr>(std::chrono::hours{}); One<TStr>(std::chrono::milliseconds{});
  One<TStr>(std::chrono::duration<int64_t, std::ratio<86400>>{});
  One<TStr>(CRawTime(0));
  std::tm t{}; One<TStr>(t);
  One<TStr>(std::string("x")); One<TStr>(std::wstring(L"x")); One<TStr>(std::u16string(u"x")); One<TStr>(std::u32string(U"x"));
}

void All() {
  FromArith<bool>(); FromArith<char>(); FromArith<signed char>(); FromArith<unsigned char>(); FromArith<short>(); FromArith<unsigned short>();
  FromArith<int>(); FromArith<unsigned>(); FromArith<long>(); FromArith<unsigned long>(); FromArith<long long>(); FromArith<unsigned long long>();
  FromArith<float>(); FromArith<double>();
  FromStrings<bool>(); FromStrings<char>(); FromStrings<signed char>(); FromStrings<unsigned char>(); FromStrings<short>(); FromStrings<unsigned short>();
  FromStrings<int>(); FromStrings<unsigned>(); FromStrings<long>(); FromStrings<unsigned long>(); FromStrings<long long>(); FromStrings<unsigned long long>();
  FromStrings<float>(); FromStrings<double>();
  FromStrings<Fruit>();
  FromStrings<std::chrono::system_clock::time_point>();
  FromStrings<std::chrono::time_point<std::chrono::system_clock, std::chrono::milliseconds>>();
  FromStrings<std::chrono::time_point<std::chrono::system_clock, std::chrono::seconds>>();
  FromStrings<std::chrono::time_point<std::chrono::system_clock, std::chrono::duration<int32_t>>>();
  FromStrings<std::chrono::seconds>(); FromStrings<std::chrono::nanoseconds>(); FromStrings<std::chrono::milliseconds>(); FromStrings<std::chrono::hours>();
  FromStrings<std::chrono::duration<int8_t, std::ratio<3600>>>(); FromStrings<std::chrono::duration<uint64_t>>();
  // representations narrower than the number of their units in one second (R15.10)
  FromStrings<std::chrono::duration<int8_t, std::milli>>(); FromStrings<std::chrono::time_point<std::chrono::system_clock, std::chrono::duration<int16_t, std::micro>>>();
  FromStrings<CRawTime>(); FromStrings<std::tm>();
  ToStrings<std::string>(); ToStrings<std::wstring>(); ToStrings<std::u16string>(); ToStrings<std::u32string>();
  // binary timestamps
  { Detail::CBinTimestamp ts; One<Detail::CBinTimestamp>(std::chrono::system_clock::time_point{}); One<Detail::CBinTimestamp>(std::chrono::milliseconds{});
    One<Detail::CBinTimestamp>(std::chrono::seconds{}); One<std::chrono::system_clock::time_point>(ts); One<std::chrono::milliseconds>(ts); One<std::chrono::hours>(ts);
    One<std::chrono::time_point<std::chrono::system_clock, std::chrono::seconds>>(ts); One<std::string>(ts); }
  // ConvertByPolicy
  { int i = 0; double d = 0; Fruit f = Fruit::Apple; std::chrono::seconds s{};
    Detail::ConvertByPolicy(std::string_view("1"), i, MismatchedTypesPolicy::Skip, OverflowNumberPolicy::Skip);
    Detail::ConvertByPolicy(1.5, i, MismatchedTypesPolicy::Skip, OverflowNumberPolicy::Skip);
    Detail::ConvertByPolicy(1ull, d, MismatchedTypesPolicy::Skip, OverflowNumberPolicy::Skip);
    Detail::ConvertByPolicy(std::string_view("Apple"), f, MismatchedTypesPolicy::Skip, OverflowNumberPolicy::Skip);
    Detail::ConvertByPolicy(std::string_view("PT1S"), s, MismatchedTypesPolicy::Skip, OverflowNumberPolicy::Skip);
    Detail::ConvertByPolicy(f, i, MismatchedTypesPolicy::ThrowError, OverflowNumberPolicy::ThrowError); }
}

template <class TIn, class TOut> void Trans() {
  std::basic_string<TIn> in;
  std::basic_string<TOut> out;
  auto r1 = Utf::Transcode(std::basic_string_view<TIn>(in), out, Utf::UtfEncodingErrorPolicy::ThrowError);
  auto r2 = Utf::Transcode(in.cbegin(), in.cend(), out);
  auto r3 = Utf::Transcode(in.data(), in.data() + in.size(), out, Utf::UtfEncodingErrorPolicy::Skip, (const TOut*)nullptr);
  (void)r1; (void)r2; (void)r3;
}

template <class TTraits, class TOut> void DecodeWith() {
  std::basic_string<typename TTraits::char_type> in;
  std::basic_string<TOut> out;
  auto r = TTraits::Decode(in.cbegin(), in.cend(), out, Utf::UtfEncodingErrorPolicy::Skip);
  auto r2 = TTraits::Decode(in.data(), in.data() + in.size(), out, Utf::UtfEncodingErrorPolicy::ThrowError);
  (void)r; (void)r2;
}
template <class TTraits, class TIn> void EncodeWith() {
  std::basic_string<TIn> in;
  std::basic_string<typename TTraits::char_type> out;
  auto r = TTraits::Encode(in.cbegin(), in.cend(), out, Utf::UtfEncodingErrorPolicy::Skip);
  auto r2 = TTraits::Encode(in.data(), in.data() + in.size(), out, Utf::UtfEncodingErrorPolicy::ThrowError);
  (void)r; (void)r2;
}

void Utfs() {
  Trans<char, char>(); Trans<char, char16_t>(); Trans<char, char32_t>(); Trans<char, wchar_t>();
  Trans<char16_t, char>(); Trans<char16_t, char16_t>(); Trans<char16_t, char32_t>();
  Trans<char32_t, char>(); Trans<char32_t, char16_t>(); Trans<char32_t, char32_t>();
  Trans<wchar_t, char>(); Trans<wchar_t, char16_t>();
  DecodeWith<Utf::Utf8, char16_t>(); DecodeWith<Utf::Utf8, char32_t>(); DecodeWith<Utf::Utf8, wchar_t>();
  DecodeWith<Utf::Utf16, char>(); DecodeWith<Utf::Utf16, char16_t>(); DecodeWith<Utf::Utf16, char32_t>();
  DecodeWith<Utf::Utf16Le, char>(); DecodeWith<Utf::Utf16Le, char16_t>(); DecodeWith<Utf::Utf16Le, char32_t>();
  DecodeWith<Utf::Utf16Be, char>(); DecodeWith<Utf::Utf16Be, char16_t>(); DecodeWith<Utf::Utf16Be, char32_t>();
  DecodeWith<Utf::Utf32, char>(); DecodeWith<Utf::Utf32, char16_t>(); DecodeWith<Utf::Utf32, char32_t>();
  DecodeWith<Utf::Utf32Le, char>(); DecodeWith<Utf::Utf32Le, char16_t>(); DecodeWith<Utf::Utf32Le, char32_t>();
  DecodeWith<Utf::Utf32Be, char>(); DecodeWith<Utf::Utf32Be, char16_t>(); DecodeWith<Utf::Utf32Be, char32_t>();
  EncodeWith<Utf::Utf8, char16_t>(); EncodeWith<Utf::Utf8, char32_t>();
  EncodeWith<Utf::Utf16, char>(); EncodeWith<Utf::Utf16, char16_t>(); EncodeWith<Utf::Utf16, char32_t>();
  EncodeWith<Utf::Utf16Le, char>(); EncodeWith<Utf::Utf16Le, char16_t>(); EncodeWith<Utf::Utf16Le, char32_t>();
  EncodeWith<Utf::Utf16Be, char>(); EncodeWith<Utf::Utf16Be, char16_t>(); EncodeWith<Utf::Utf16Be, char32_t>();
  EncodeWith<Utf::Utf32, char>(); EncodeWith<Utf::Utf32, char16_t>(); EncodeWith<Utf::Utf32, char32_t>();
  EncodeWith<Utf::Utf32Le, char>(); EncodeWith<Utf::Utf32Le, char16_t>(); EncodeWith<Utf::Utf32Le, char32_t>();
  EncodeWith<Utf::Utf32Be, char>(); EncodeWith<Utf::Utf32Be, char16_t>(); EncodeWith<Utf::Utf32Be, char32_t>();
  std::string s;
  size_t off = 0;
  auto t = Utf::DetectEncoding(std::string_view(s), off);
  std::stringstream ss;
  auto t2 = Utf::DetectEncoding(ss, true);
  (void)t; (void)t2;
  bool b = Utf::StartsWithBom<Utf::Utf8>(s) || Utf::StartsWithBom<Utf::Utf16Le>(s) || Utf::StartsWithBom<Utf::Utf32Be>(s);
  (void)b;
  { Utf::CEncodedStreamReader<char> r(ss); std::string o; r.ReadChunk(o); (void)r.IsEnd(); (void)r.GetSourceUtfType(); }
  { Utf::CEncodedStreamReader<char16_t> r(ss, Utf::UtfEncodingErrorPolicy::ThrowError); std::u16string o; r.ReadChunk(o); }
  { Utf::CEncodedStreamReader<char32_t> r(ss); std::u32string o; r.ReadChunk(o); }
  { Utf::CEncodedStreamReader<wchar_t, 64> r(ss); std::wstring o; r.ReadChunk(o); }
  { Utf::CEncodedStreamWriter w(ss, Utf::UtfType::Utf16be, true, Utf::UtfEncodingErrorPolicy::ThrowError);
    w.Write(std::string_view("x")); w.Write(std::u16string_view(u"x")); w.Write(std::u32string_view(U"x")); w.Write(std::wstring(L"x")); w.Write("lit"); w.Write(u"lit"); }
  Utf::WriteBom(ss, Utf::UtfType::Utf8);
}

} // namespace WC

int main() {
  WC::All();
  WC::Utfs();
  return 0;
}

// positive example for the zero-expected rule C11 R11.3 (never called)
namespace W { inline std::string_view positive_example_cstr_view(const std::string& s) { return std::string_view(s.c_str()); } }

// positive example for the zero-expected rule C19 R19.4 (never called)
namespace W { inline int positive_example_gmtime(std::time_t t) { const std::tm* p = std::gmtime(&t); return p ? p->tm_year : 0; } }

// positive example for the zero-expected rule C01 R1.10 / C10 R10.16 (never called)
namespace W { inline unsigned positive_example_narrow_counter(const std::string& s) { unsigned char quotes = 0; for (const char c : s) { if (c == '"') { ++quotes; } } return quotes; } }

// positive example for the zero-expected rule C02 R2.13 (never called)
namespace W { inline unsigned positive_example_unaligned_load(const char* bytes) { return *reinterpret_cast<const unsigned*>(bytes + 1); } }
