// Instantiation driver (parsed only, never compiled to an object, never run).
// Forces the header-only templates of BitSerializer into existence for every archive and
// every scope method, so that the static checkers see the instantiated, type-checked code.
#include <array>
#include <atomic>
#include <bitset>
#include <chrono>
#include <cstddef>
#include <ctime>
#include <deque>
#include <forward_list>
#include <list>
#include <map>
#include <memory>
#include <optional>
#include <queue>
#include <set>
#include <sstream>
#include <stack>
#include <string>
#include <tuple>
#include <unordered_map>
#include <unordered_set>
#include <valarray>
#include <vector>

#include "bitserializer/bit_serializer.h"
#include "bitserializer/csv_archive.h"
#include "bitserializer/msgpack_archive.h"
#include "bitserializer/pugixml_archive.h"
#include "bitserializer/rapidjson_archive.h"
#include "bitserializer/types/std/array.h"
#include "bitserializer/types/std/atomic.h"
#include "bitserializer/types/std/bitset.h"
#include "bitserializer/types/std/chrono.h"
#include "bitserializer/types/std/ctime.h"
#include "bitserializer/types/std/deque.h"
#include "bitserializer/types/std/filesystem.h"
#include "bitserializer/types/std/forward_list.h"
#include "bitserializer/types/std/list.h"
#include "bitserializer/types/std/map.h"
#include "bitserializer/types/std/memory.h"
#include "bitserializer/types/std/optional.h"
#include "bitserializer/types/std/pair.h"
#include "bitserializer/types/std/queue.h"
#include "bitserializer/types/std/set.h"
#include "bitserializer/types/std/stack.h"
#include "bitserializer/types/std/tuple.h"
#include "bitserializer/types/std/unordered_map.h"
#include "bitserializer/types/std/unordered_set.h"
#include "bitserializer/types/std/valarray.h"
#include "bitserializer/types/std/vector.h"

using namespace BitSerializer;
using JsonArchive = Json::RapidJson::JsonArchive;
using XmlArchive = Xml::PugiXml::XmlArchive;
using CsvArchive = Csv::CsvArchive;
using MsgPackArchive = MsgPack::MsgPackArchive;

namespace W {

enum class Color { Red, Green, Blue };
REGISTER_ENUM(Color, {{Color::Red, "Red"}, {Color::Green, "Green"}, {Color::Blue, "Blue"}})

struct Base {
  int baseField = 0;
  template <class TArchive> void Serialize(TArchive& archive) { archive << KeyValue("BaseField", baseField, Required()); }
};

struct Inner {
  int x = 0;
  std::string s;
  template <class TArchive> void Serialize(TArchive& archive) {
    archive << KeyValue("x", x, Required(), Range(0, 10));
    archive << KeyValue("s", s, MinSize(1), MaxSize(8));
  }
};

struct External {
  int a = 0;
  double b = 0;
};
template <class TArchive> void SerializeObject(TArchive& archive, External& v) {
  archive << KeyValue("a", v.a);
  archive << KeyValue("b", v.b);
}

// a class with its own Serialize() whose base is serialized externally: both routes are viable for it (the internal one must win everywhere)
struct NamedExternal : External {
  std::string name;
  template <class TArchive> void Serialize(TArchive& archive) {
    archive << BaseObject<External>(*this);
    archive << KeyValue("name", name);
  }
};

// ---- flat scalars: valid in every archive (CSV rows are flat)
struct Flat : Base {
  bool b = false;
  char c = 0;
  signed char sc = 0;
  unsigned char uc = 0;
  short i16 = 0;
  unsigned short u16 = 0;
  int i32 = 0;
  unsigned u32 = 0;
  long i64 = 0;
  unsigned long u64 = 0;
  float f = 0;
  double d = 0;
  std::nullptr_t nul = nullptr;
  std::byte byt{};
  std::string s8;
  std::wstring sw;
  std::u16string s16;
  std::u32string s32;
  Color color = Color::Red;
  Color colorBin = Color::Red;
  std::optional<int> optInt;
  std::optional<std::string> optStr;
  std::unique_ptr<int> upInt;
  std::shared_ptr<std::string> spStr;
  std::chrono::system_clock::time_point tp;
  std::chrono::time_point<std::chrono::system_clock, std::chrono::milliseconds> tpMs;
  std::chrono::seconds dur{};
  std::chrono::nanoseconds durNs{};
  std::time_t rawTime = 0;

  template <class TArchive> void Serialize(TArchive& archive) {
    archive << BaseObject<Base>(*this);
    archive << KeyValue("b", b, Required());
    archive << KeyValue("c", c);
    archive << KeyValue("sc", sc);
    archive << KeyValue("uc", uc);
    archive << KeyValue("i16", i16);
    archive << KeyValue("u16", u16);
    archive << KeyValue("i32", i32, Range(-5, 5));
    archive << KeyValue("u32", u32);
    archive << KeyValue("i64", i64);
    archive << KeyValue("u64", u64);
    archive << KeyValue("f", f);
    archive << KeyValue("d", d);
    archive << KeyValue("nul", nul);
    archive << KeyValue("byt", byt);
    archive << KeyValue("s8", s8, Required(), MinSize(1), MaxSize(100));
    archive << KeyValue("sw", sw);
    archive << KeyValue("s16", s16);
    archive << KeyValue("s32", s32);
    archive << KeyValue("color", color);
    archive << KeyValue("colorBin", EnumAsBin(colorBin));
    archive << KeyValue("optInt", optInt);
    archive << KeyValue("optStr", optStr);
    archive << KeyValue("upInt", upInt);
    archive << KeyValue("spStr", spStr);
    archive << KeyValue("tp", tp);
    archive << KeyValue("tpMs", tpMs);
    archive << KeyValue("dur", dur);
    archive << KeyValue("durNs", durNs);
    archive << KeyValue("rawTime", CTimeRef(rawTime));
    archive << KeyValue(std::string("strKey"), i32);
    archive << KeyValue(std::wstring(L"wKey"), i32);
    archive << KeyValue(u"u16Key", i32);
  }
};

struct WithAtomics {
  std::atomic<int> atomicInt{0};
  std::atomic_bool atomicBool{false};
  std::atomic<double> atomicDbl{0};
  template <class TArchive> void Serialize(TArchive& archive) {
    archive << KeyValue("atomicInt", atomicInt, Required());
    archive << KeyValue("atomicBool", atomicBool);
    archive << KeyValue("atomicDbl", atomicDbl);
  }
};

struct LongLongs {
  long long ill = 0;
  unsigned long long ull = 0;
  char32_t c32 = 0;
  template <class TArchive> void Serialize(TArchive& archive) {
    archive << KeyValue("ill", ill);
    archive << KeyValue("ull", ull);
  }
};

struct MapUpd {
  std::map<std::string, int> m;
  std::unordered_map<int, std::string> um;
};
template <class TArchive> void SerializeObject(TArchive& archive, MapUpd& v) {
  BitSerializer::SerializeObject(archive, v.m, MapLoadMode::UpdateKeys);
  BitSerializer::SerializeObject(archive, v.um, MapLoadMode::OnlyExistKeys);
}

// ---- nested structures: JSON / XML / MsgPack
struct Tree {
  Flat flat;
  Inner inner;
  External ext;
  std::vector<int> vi;
  std::vector<bool> vb;
  std::vector<std::string> vs;
  std::vector<Inner> vobj;
  std::vector<std::vector<int>> vvi;
  std::vector<char> bytesVec;
  std::vector<unsigned char> ubytesVec;
  std::vector<std::vector<char>> vecOfBytes;
  char rawBytes[4] = {};
  signed char sRawBytes[4] = {};
  unsigned char uRawBytes[4] = {};
  std::vector<signed char> sbytesVec;
  int carr[3] = {};
  int carr2[2][2] = {};
  std::array<int, 3> sarr{};
  std::array<unsigned char, 4> byteArr{};
  std::deque<int> dq;
  std::list<std::string> lst;
  std::forward_list<int> fl;
  std::set<int> st;
  std::multiset<int> mst;
  std::unordered_set<std::string> ust;
  std::unordered_multiset<int> umst;
  std::map<std::string, int> mp;
  std::map<int, std::string> mpIntKey;
  std::map<std::wstring, Inner> mpWKey;
  std::multimap<int, int> mmp;
  std::unordered_map<std::string, double> ump;
  std::unordered_multimap<int, int> ummp;
  std::map<std::chrono::seconds, int> mpDurKey;
  std::map<Color, int> mpEnumKey;
  std::pair<int, std::string> pr;
  std::tuple<int, std::string, double> tpl;
  std::valarray<int> va;
  std::bitset<8> bits;
  std::queue<int> q;
  std::priority_queue<int> pq;
  std::stack<int> stk;
  std::optional<Inner> optObj;
  std::optional<std::vector<int>> optVec;
  std::unique_ptr<Inner> upObj;
  std::shared_ptr<std::vector<int>> spVec;
  std::filesystem::path path;

  template <class TArchive> void Serialize(TArchive& archive) {
    archive << KeyValue("flat", flat);
    archive << KeyValue("inner", inner, Required());
    archive << KeyValue("ext", ext);
    archive << KeyValue("vi", vi, MaxSize(100));
    archive << KeyValue("vb", vb);
    archive << KeyValue("vs", vs);
    archive << KeyValue("vobj", vobj);
    archive << KeyValue("vvi", vvi);
    archive << KeyValue("bytesVec", bytesVec);
    archive << KeyValue("ubytesVec", ubytesVec);
    archive << KeyValue("vecOfBytes", vecOfBytes);
    archive << KeyValue("rawBytes", rawBytes);
    archive << KeyValue("sRawBytes", sRawBytes);
    archive << KeyValue("uRawBytes", uRawBytes);
    archive << KeyValue("sbytesVec", sbytesVec);
    archive << KeyValue("carr", carr);
    archive << KeyValue("carr2", carr2);
    archive << KeyValue("sarr", sarr);
    archive << KeyValue("byteArr", byteArr);
    archive << KeyValue("dq", dq);
    archive << KeyValue("lst", lst);
    archive << KeyValue("fl", fl);
    archive << KeyValue("st", st);
    archive << KeyValue("mst", mst);
    archive << KeyValue("ust", ust);
    archive << KeyValue("umst", umst);
    archive << KeyValue("mp", mp);
    archive << KeyValue("mpIntKey", mpIntKey);
    archive << KeyValue("mpWKey", mpWKey);
    archive << KeyValue("mmp", mmp);
    archive << KeyValue("ump", ump);
    archive << KeyValue("ummp", ummp);
    archive << KeyValue("mpDurKey", mpDurKey);
    archive << KeyValue("mpEnumKey", mpEnumKey);
    archive << KeyValue("pr", pr);
    archive << KeyValue("tpl", tpl);
    archive << KeyValue("va", va);
    archive << KeyValue("bits", bits);
    archive << KeyValue("q", q);
    archive << KeyValue("pq", pq);
    archive << KeyValue("stk", stk);
    archive << KeyValue("optObj", optObj);
    archive << KeyValue("optVec", optVec);
    archive << KeyValue("upObj", upObj);
    archive << KeyValue("spVec", spVec);
    archive << KeyValue("path", path);
  }
};

template <class TArchive, class T>
void RoundStr(T& v, const SerializationOptions& opt) {
  typename TArchive::preferred_output_format out;
  BitSerializer::SaveObject<TArchive>(v, out, opt);
  BitSerializer::LoadObject<TArchive>(v, out, opt);
  auto out2 = BitSerializer::SaveObject<TArchive>(v, opt);
  (void)out2;
}

template <class TArchive, class T>
void RoundStream(T& v, const SerializationOptions& opt) {
  std::basic_stringstream<typename TArchive::preferred_stream_char_type> ss;
  BitSerializer::SaveObject<TArchive>(v, ss, opt);
  BitSerializer::LoadObject<TArchive>(v, ss, opt);
}

template <class TArchive, class T>
void Round(T& v, const SerializationOptions& opt) {
  RoundStr<TArchive>(v, opt);
  RoundStream<TArchive>(v, opt);
}

template <class TArchive>
void RootScalars(const SerializationOptions& opt) {
  bool b = false; Round<TArchive>(b, opt);
  char c = 0; Round<TArchive>(c, opt);
  signed char sc = 0; Round<TArchive>(sc, opt);
  unsigned char uc = 0; Round<TArchive>(uc, opt);
  short s = 0; Round<TArchive>(s, opt);
  unsigned short us = 0; Round<TArchive>(us, opt);
  int i = 0; Round<TArchive>(i, opt);
  unsigned u = 0; Round<TArchive>(u, opt);
  long l = 0; Round<TArchive>(l, opt);
  unsigned long ul = 0; Round<TArchive>(ul, opt);
  float f = 0; Round<TArchive>(f, opt);
  double d = 0; Round<TArchive>(d, opt);
  std::nullptr_t n = nullptr; Round<TArchive>(n, opt);
  std::string s8; Round<TArchive>(s8, opt);
  std::wstring sw; Round<TArchive>(sw, opt);
  std::u16string s16; Round<TArchive>(s16, opt);
  std::u32string s32; Round<TArchive>(s32, opt);
  Color col = Color::Red; Round<TArchive>(col, opt);
  std::chrono::system_clock::time_point tp; Round<TArchive>(tp, opt);
  std::chrono::seconds dur{}; Round<TArchive>(dur, opt);
  std::optional<int> oi; Round<TArchive>(oi, opt);
  std::unique_ptr<int> up; Round<TArchive>(up, opt);
  std::atomic<int> at{0}; Round<TArchive>(at, opt);
  std::byte by{}; Round<TArchive>(by, opt);
}

template <class TArchive>
void RootContainers(const SerializationOptions& opt) {
  std::vector<int> vi; Round<TArchive>(vi, opt);
  std::vector<Inner> vo; Round<TArchive>(vo, opt);
  std::vector<Tree> vt; Round<TArchive>(vt, opt);
  std::vector<char> vc; Round<TArchive>(vc, opt);
  std::map<std::string, int> mp; Round<TArchive>(mp, opt);
  std::map<int, Inner> mpi; Round<TArchive>(mpi, opt);
  std::tuple<int, int, int> t3; Round<TArchive>(t3, opt);
  std::pair<int, std::string> pr; Round<TArchive>(pr, opt);
  int carr[3] = {}; Round<TArchive>(carr, opt);
  char bytes[4] = {}; Round<TArchive>(bytes, opt);
  signed char sbytes[4] = {}; Round<TArchive>(sbytes, opt);
  unsigned char ubytes[4] = {}; Round<TArchive>(ubytes, opt);
  std::vector<signed char> vsc; Round<TArchive>(vsc, opt);
  Tree t; Round<TArchive>(t, opt);
  Flat f; Round<TArchive>(f, opt);
  External e; Round<TArchive>(e, opt);
  NamedExternal ne; Round<TArchive>(ne, opt);
  std::vector<NamedExternal> vne; Round<TArchive>(vne, opt);
}

void All() {
  SerializationOptions opt;
  // MsgPack
  RootScalars<MsgPackArchive>(opt);
  RootContainers<MsgPackArchive>(opt);
  { std::map<double, int> m; Round<MsgPackArchive>(m, opt); }
  { std::map<float, int> m; Round<MsgPackArchive>(m, opt); }
  { std::map<std::chrono::system_clock::time_point, int> m; Round<MsgPackArchive>(m, opt); }
  { std::map<unsigned long, int> m; Round<MsgPackArchive>(m, opt); }
  { std::map<std::string, std::vector<char>> m; Round<MsgPackArchive>(m, opt); }   // keyed byte container whose key is the archive's own key slot (R5.4)
  { WithAtomics a; Round<MsgPackArchive>(a, opt); Round<JsonArchive>(a, opt); Round<XmlArchive>(a, opt); }
  // JSON
  { long long ll = 0; Round<JsonArchive>(ll, opt); unsigned long long ull = 0; Round<JsonArchive>(ull, opt); }
  { MapUpd mu; Round<JsonArchive>(mu, opt); Round<XmlArchive>(mu, opt); }
  RootScalars<JsonArchive>(opt);
  RootContainers<JsonArchive>(opt);
  // XML (root must be named: use KeyValue at the root)
  {
    Tree t;
    std::string out;
    BitSerializer::SaveObject<XmlArchive>(KeyValue("Root", t), out, opt);
    BitSerializer::LoadObject<XmlArchive>(KeyValue("Root", t), out, opt);
    std::stringstream ss;
    BitSerializer::SaveObject<XmlArchive>(KeyValue("Root", t), ss, opt);
    BitSerializer::LoadObject<XmlArchive>(KeyValue("Root", t), ss, opt);
    Round<XmlArchive>(t, opt);
    std::vector<Tree> vt; Round<XmlArchive>(vt, opt);
    std::vector<int> vi; Round<XmlArchive>(vi, opt);
    std::tuple<int, int, int> t3; Round<XmlArchive>(t3, opt);
    Flat f; Round<XmlArchive>(f, opt);
    std::map<std::string, int> mp; Round<XmlArchive>(mp, opt);
  }
  // CSV: array of flat objects
  {
    std::vector<Flat> rows; Round<CsvArchive>(rows, opt);
    std::list<External> rows2; Round<CsvArchive>(rows2, opt);
    Flat arr[2]; Round<CsvArchive>(arr, opt);
  }
}

// XML attributes
struct WithAttrs {
  int id = 0;
  signed char tiny = 0;
  unsigned short us = 0;
  long long big = 0;
  unsigned long long ubig = 0;
  float f = 0;
  double d = 0;
  bool flag = false;
  std::string name;
  std::u16string name16;
  Color color = Color::Red;
  std::nullptr_t nul = nullptr;
  int body = 0;
  template <class TArchive> void Serialize(TArchive& archive) {
    archive << AttributeValue("id", id, Required());
    archive << AttributeValue("tiny", tiny);
    archive << AttributeValue("us", us);
    archive << AttributeValue("big", big);
    archive << AttributeValue("ubig", ubig);
    archive << AttributeValue("f", f);
    archive << AttributeValue("d", d);
    archive << AttributeValue("flag", flag);
    archive << AttributeValue("name", name);
    archive << AttributeValue("name16", name16);
    archive << AttributeValue("color", color);
    archive << AttributeValue("nul", nul);
    archive << KeyValue("body", body);
  }
};

void Attrs() {
  SerializationOptions opt;
  WithAttrs w;
  std::string out;
  BitSerializer::SaveObject<XmlArchive>(KeyValue("Root", w), out, opt);
  BitSerializer::LoadObject<XmlArchive>(KeyValue("Root", w), out, opt);
  std::vector<WithAttrs> vw;
  BitSerializer::SaveObject<XmlArchive>(KeyValue("Root", vw), out, opt);
  BitSerializer::LoadObject<XmlArchive>(KeyValue("Root", vw), out, opt);
}

// VisitKeys + files
struct Dynamic {
  std::map<std::string, std::string> fields;
  template <class TArchive> void Serialize(TArchive& archive) {
    if constexpr (TArchive::IsLoading()) {
      archive.VisitKeys([&](auto&& key) {
        std::string v;
        (void)key;
        (void)v;
      });
    }
  }
};

void Misc() {
  SerializationOptions opt;
  Dynamic d;
  Round<MsgPackArchive>(d, opt);
  Round<JsonArchive>(d, opt);
  Round<XmlArchive>(d, opt);
  Tree t;
  BitSerializer::SaveObjectToFile<JsonArchive>(t, "x.json", opt, true);
  BitSerializer::LoadObjectFromFile<JsonArchive>(t, "x.json", opt);
  BitSerializer::SaveObjectToFile<MsgPackArchive>(t, std::filesystem::path("x.bin"), opt, true);
  BitSerializer::LoadObjectFromFile<MsgPackArchive>(t, std::filesystem::path("x.bin"), opt);
  std::vector<Flat> rows;
  BitSerializer::SaveObjectToFile<CsvArchive>(rows, "x.csv", opt, true);
  BitSerializer::LoadObjectFromFile<CsvArchive>(rows, "x.csv", opt);
  BitSerializer::SaveObjectToFile<XmlArchive>(t, "x.xml", opt, true);
  BitSerializer::LoadObjectFromFile<XmlArchive>(t, "x.xml", opt);
  const Tree ct;
  auto s = BitSerializer::SaveObject<JsonArchive>(ct);
  auto s2 = BitSerializer::SaveObject<MsgPackArchive>(ct);
  (void)s; (void)s2;
}

// the value the non-template rapidjson Parse / ParseStream overloads parse with (R10.18 compares it with explicit template arguments)
unsigned witness_rapidjson_default_parse_flags() { return rapidjson::kParseDefaultFlags; }
unsigned witness_rapidjson_validate_encoding_flag() { return rapidjson::kParseValidateEncodingFlag; }

} // namespace W

int main() {
  W::All();
  W::Attrs();
  W::Misc();
  return 0;
}
