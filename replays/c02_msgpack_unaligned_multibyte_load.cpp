// C02 (undefined behaviour): multi-byte MsgPack values are loaded through *reinterpret_cast<const T*>(char buffer + offset)
#include <iostream>
#include <vector>
#include <sstream>
#include "bitserializer/bit_serializer.h"
#include "bitserializer/msgpack_archive.h"
#include "bitserializer/types/std/vector.h"
using namespace BitSerializer;
using MsgPackArchive = BitSerializer::MsgPack::MsgPackArchive;
int main() {
    // array of 2: uint64 at odd offset 2, uint32 after it
    const std::string doc("\x92\xcf\x01\x02\x03\x04\x05\x06\x07\x08\xce\x00\x00\x01\x00", 15);
    std::vector<uint64_t> v;
    LoadObject<MsgPackArchive>(v, doc);
    std::istringstream is(doc);
    std::vector<uint64_t> w;
    LoadObject<MsgPackArchive>(w, is);
    std::cout << v.size() << " " << w.size() << " " << std::hex << v[0] << "\n";
    return (v == w && v.size() == 2) ? 0 : 1;
}
