// replay C12: replacing an ill-formed UTF-8 sequence must not swallow the well-formed text that follows it
#include <iostream>
#include <string>
#include "bitserializer/conversion_detail/convert_utf.h"
using namespace BitSerializer::Convert::Utf;
int main() {
  int rc = 0;
  struct { const char* what; std::string in; std::u32string want; } cases[] = {
    {"E1 'A' 'B' (lead followed by ASCII)", std::string("\xE1" "AB"), U"☐" U"AB"},
    {"C3 'x' (2-byte lead followed by ASCII)", std::string("\xC3" "x"), U"☐" U"x"},
    {"F0 90 'Z' (4-byte lead, one tail, then ASCII)", std::string("\xF0\x90" "Z"), U"☐" U"Z"},
    {"F8 'a' 'b' 'c' 'd' (invalid lead followed by ASCII)", std::string("\xF8" "abcd"), U"☐" U"abcd"},
    {"E1 C3 A9 (lead followed by a valid 2-byte char)", std::string("\xE1\xC3\xA9"), U"☐" U"é"},
  };
  for (auto& c : cases) {
    std::u32string out; auto r = Transcode(std::string_view(c.in), out, UtfEncodingErrorPolicy::Skip);
    bool ok = out == c.want;
    std::cout << c.what << ": " << (ok ? "ok" : "text after the error was lost") << " (out has " << out.size() << " units, errors=" << r.InvalidSequencesCount << ")\n";
    if (!ok) rc = 1;
  }
  return rc;
}
