// replay C09: quoted value in a later column read by name from a stream; CR inside a field when writing
#include <iostream>
#include <sstream>
#include <vector>
#include "bitserializer/bit_serializer.h"
#include "bitserializer/csv_archive.h"
#include "bitserializer/types/std/vector.h"
using namespace BitSerializer;
struct Row { std::string a, b; template <class A> void Serialize(A& ar) { ar << KeyValue("a", a); ar << KeyValue("b", b); } };
int main() {
  int rc = 0;
  const std::string csv = "a,b\r\nplain,\"quoted, value\"\r\n";
  for (int mode = 0; mode < 2; ++mode) {
    std::vector<Row> rows;
    try { if (!mode) LoadObject<Csv::CsvArchive>(rows, csv); else { std::istringstream is(csv); LoadObject<Csv::CsvArchive>(rows, is); }
      std::cout << (mode ? "stream" : "memory") << ": b=[" << rows.at(0).b << "]\n"; if (rows.at(0).b != "quoted, value") rc = 1; }
    catch (const std::exception& e) { std::cout << (mode ? "stream" : "memory") << ": exception: " << e.what() << "\n"; rc = 1; }
  }
  std::vector<Row> out{{"x\ry", "z"}};
  auto text = SaveObject<Csv::CsvArchive>(out);
  bool quoted = text.find("\"x\ry\"") != std::string::npos;
  std::cout << "field with CR is " << (quoted ? "quoted" : "NOT quoted") << "\n"; if (!quoted) rc = 1;
  std::vector<Row> back; LoadObject<Csv::CsvArchive>(back, text); if (back.at(0).a != "x\ry") { std::cout << "round trip lost the CR field\n"; rc = 1; }
  return rc;
}
