#include <iostream>
#include <tuple>
#include <array>
#include "bitserializer/bit_serializer.h"
#include "bitserializer/msgpack_archive.h"
#include "bitserializer/types/std/tuple.h"
#include "bitserializer/types/std/array.h"
#include "bitserializer/types/std/pair.h"
using namespace BitSerializer;
using MPA = BitSerializer::MsgPack::MsgPackArchive;
template <class T> struct M { T t{}; int after = -1; int z=-1;
  template <class A> void Serialize(A& a) { a << KeyValue("t", t); a << KeyValue("after", after); a << KeyValue("z", z);} };
template <class T> void run(const char* nm, bool stream) {
  std::string doc("\x83\xa1t\x93\x01\x02\x03\xa5" "after\x07\xa1z\x09", 17);
  SerializationOptions opt; opt.mismatchedTypesPolicy = MismatchedTypesPolicy::Skip;
  M<T> m;
  try {
    if (stream) { std::istringstream is(doc); BitSerializer::LoadObject<MPA>(m, is, opt);} else BitSerializer::LoadObject<MPA>(m, doc, opt);
    std::cout << nm << (stream?" stream":" string") << ": after=" << m.after << " z=" << m.z << (m.after==7&&m.z==9?" OK":" WRONG") << "\n";
  } catch (const std::exception& e) { std::cout << nm << ": exception " << e.what() << "\n"; }
}
int main() {
  for (bool s : {false,true}) {
  run<std::tuple<int,int>>("tuple<int,int>", s);
  run<std::pair<int,int>>("pair", s);
  run<std::array<int,2>>("array<int,2>", s);
  }
}
