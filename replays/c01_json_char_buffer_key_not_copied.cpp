// C01: an object whose field names are composed in a reused char buffer (char key[16]; snprintf(...); archive << KeyValue(key, v)).
// MsgPack/XML/CSV copy or emit the key at once; the RapidJSON adapter kept only the pointer until Finalize() rendered the document.
// Build with -DNDEBUG (otherwise the adapter's own duplicate-key assert aborts first).
#include <cstdio>
#include <iostream>
#include "bitserializer/bit_serializer.h"
#include "bitserializer/rapidjson_archive.h"
using namespace BitSerializer;
using JsonArchive = BitSerializer::Json::RapidJson::JsonArchive;
struct Channels {
    int v[4] = { 100, 101, 102, 103 };
    template <class TArchive> void Serialize(TArchive& archive) {
        char key[16];
        for (int i = 0; i < 4; ++i) { std::snprintf(key, sizeof key, "ch%d", i); archive << KeyValue(key, v[i]); }
    }
};
int main() {
    Channels src; std::string json;
    SaveObject<JsonArchive>(src, json);
    std::cout << json << "\n";
    Channels dst; for (int& x : dst.v) x = 0;
    try { LoadObject<JsonArchive>(dst, json); } catch (const std::exception& e) { std::cout << "load failed: " << e.what() << "\n"; return 1; }
    for (int i = 0; i < 4; ++i) if (dst.v[i] != src.v[i]) { std::cout << "MISMATCH ch" << i << ": saved " << src.v[i] << " loaded " << dst.v[i] << "\n"; return 1; }
    std::cout << "OK\n"; return 0;
}
