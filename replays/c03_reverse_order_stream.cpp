// replay C03: fields requested in reverse order from a MsgPack stream larger than one 256-byte chunk
#include <iostream>
#include <sstream>
#include "bitserializer/bit_serializer.h"
#include "bitserializer/msgpack_archive.h"
using namespace BitSerializer;
struct W { std::string a, b, c; template <class A> void Serialize(A& ar) { ar << KeyValue("a", a); ar << KeyValue("b", b); ar << KeyValue("c", c); } };
struct R { std::string a, b, c; template <class A> void Serialize(A& ar) { ar << KeyValue("c", c); ar << KeyValue("b", b); ar << KeyValue("a", a); } };
int main() {
  W w; w.a = std::string(200, 'a'); w.b = std::string(200, 'b'); w.c = std::string(200, 'c');
  const std::string doc = SaveObject<MsgPack::MsgPackArchive>(w);
  int rc = 0;
  for (int mode = 0; mode < 2; ++mode) {
    R r;
    try { if (!mode) LoadObject<MsgPack::MsgPackArchive>(r, doc); else { std::istringstream is(doc); LoadObject<MsgPack::MsgPackArchive>(r, is); }
      bool ok = r.a == w.a && r.b == w.b && r.c == w.c;
      std::cout << (mode ? "stream" : "memory") << ": loaded, equal=" << ok << "\n"; if (!ok) rc = 1; }
    catch (const std::exception& e) { std::cout << (mode ? "stream" : "memory") << ": exception: " << e.what() << "\n"; rc = 1; }
  }
  return rc;
}
