// replay C02: deep nesting (stack), 5-byte header (memory), XML array end guard
#include <iostream>
#include <vector>
#include <tuple>
#include <sstream>
#include <cstring>
#include "bitserializer/bit_serializer.h"
#include "bitserializer/msgpack_archive.h"
#include "bitserializer/pugixml_archive.h"
#include "bitserializer/types/std/vector.h"
#include "bitserializer/types/std/tuple.h"
using namespace BitSerializer;
struct Holder { int a = 0; template <class A> void Serialize(A& ar) { ar << KeyValue("a", a); } };
int main(int argc, char** argv) {
  std::string which = argc > 1 ? argv[1] : "";
  try {
    if (which == "deep") {       // {"x": [[[[...]]]] , "a": 1}: member "x" is never requested -> skipped by SkipValue
      std::string doc("\x82\xa1x", 3); doc += std::string(2000000, '\x91'); doc += "\x01"; doc += std::string("\xa1" "a\x01", 3);
      Holder h; LoadObject<MsgPack::MsgPackArchive>(h, doc); std::cout << "deep: loaded a=" << h.a << "\n"; return h.a == 1 ? 0 : 1;
    }
    if (which == "deepstream") {
      std::string doc("\x82\xa1x", 3); doc += std::string(2000000, '\x91'); doc += "\x01"; doc += std::string("\xa1" "a\x01", 3);
      std::istringstream is(doc); Holder h; LoadObject<MsgPack::MsgPackArchive>(h, is); std::cout << "deepstream: loaded a=" << h.a << "\n"; return h.a == 1 ? 0 : 1;
    }
    if (which == "huge") {       // array32 header announcing 2^32-1 elements, then nothing
      std::vector<int> v; LoadObject<MsgPack::MsgPackArchive>(v, std::string("\xdd\xff\xff\xff\xff", 5)); return 1;
    }
    if (which == "xml") {        // 1 element where 3 are expected
      std::tuple<int, int, int> t; LoadObject<Xml::PugiXml::XmlArchive>(t, std::string("<array><value>1</value></array>")); return 1;
    }
  } catch (const std::exception& e) { std::cout << which << ": exception: " << e.what() << "\n"; return 0; }
  return 2;
}
