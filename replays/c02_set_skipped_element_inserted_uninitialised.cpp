// C02/C05: std::set<int> loaded from [1,"x",3] with MismatchedTypesPolicy::Skip inserts an element that was never initialised
#include <iostream>
#include <set>
#include "bitserializer/bit_serializer.h"
#include "bitserializer/rapidjson_archive.h"
#include "bitserializer/types/std/set.h"
using namespace BitSerializer;
using JsonArchive = BitSerializer::Json::RapidJson::JsonArchive;
int main() {
    std::set<int> s;
    SerializationOptions opt; opt.mismatchedTypesPolicy = MismatchedTypesPolicy::Skip;
    LoadObject<JsonArchive>(s, std::string("[\"x\",1,3]"), opt);
    std::cout << "size=" << s.size() << ":";
    for (int v : s) std::cout << " " << v;
    std::cout << "\n";
    return s.size() == 2 ? 0 : 1;
}
