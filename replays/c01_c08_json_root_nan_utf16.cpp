// Replays for C01/C08 (JSON adapter): root-level unsigned/long long narrowing, NaN output, UTF-16 stream input with non-ASCII text.
#include <iostream>
#include <sstream>
#include <cmath>
#include "bitserializer/bit_serializer.h"
#include "bitserializer/rapidjson_archive.h"
using namespace BitSerializer;
using JsonArchive = BitSerializer::Json::RapidJson::JsonArchive;
int bad = 0;
template <class T> void root(const char* nm, T v) {
  std::string out; 
  try { SaveObject<JsonArchive>(v, out); T back{}; LoadObject<JsonArchive>(back, out);
    bool ok = back == v; bad += !ok; std::cout << nm << " " << +v << " -> '" << out << "' -> " << +back << (ok ? " OK" : " WRONG") << "\n"; }
  catch (const std::exception& e) { std::cout << nm << ": exception (acceptable) " << e.what() << "\n"; }
}
struct M { std::string s; template <class A> void Serialize(A& a) { a << KeyValue("s", s); } };
int main() {
  root<uint32_t>("uint32_t", 4000000000u);
  root<long long>("long long", 5000000000LL);
  root<unsigned long long>("unsigned long long", 18000000000000000000ULL);
  root<uint16_t>("uint16_t", 65535);
  {
    double arr[2] = { 1.5, std::nan("") }; std::string out;
    try { SaveObject<JsonArchive>(arr, out); double back[2] = {0, 0};
      try { LoadObject<JsonArchive>(back, out); std::cout << "NaN array -> '" << out << "' loaded\n"; }
      catch (const std::exception& e) { ++bad; std::cout << "NaN array -> '" << out << "' saved without error but cannot be loaded: " << e.what() << " WRONG\n"; } }
    catch (const std::exception& e) { std::cout << "NaN array: save failed (acceptable): " << e.what() << "\n"; }
    std::ostringstream os;
    try { SaveObject<JsonArchive>(arr, os); std::cout << "NaN array to stream -> '" << os.str() << "'" << (os.str().back() == ']' ? "" : " TRUNCATED, no error WRONG") << "\n"; bad += os.str().back() != ']'; }
    catch (const std::exception& e) { std::cout << "NaN array to stream: save failed (acceptable): " << e.what() << "\n"; }
  }
  {
    M m; m.s = u8"Привет, мир"; SerializationOptions opt; opt.streamOptions.encoding = Convert::Utf::UtfType::Utf16le; opt.streamOptions.writeBom = true;
    std::stringstream ss; SaveObject<JsonArchive>(m, ss, opt);
    M back; try { LoadObject<JsonArchive>(back, ss); bool ok = back.s == m.s; bad += !ok; std::cout << "UTF-16LE stream round trip: '" << back.s << "'" << (ok ? " OK" : " WRONG") << "\n"; }
    catch (const std::exception& e) { ++bad; std::cout << "UTF-16LE stream round trip: load failed: " << e.what() << " WRONG\n"; }
  }
  return bad ? 1 : 0;
}
