// Probe for C14: printing extreme time points. Build with -fsanitize=undefined.
#include <iostream>
#include <chrono>
#include "bitserializer/convert.h"
using namespace BitSerializer;
using namespace std::chrono;
template <class TP> void pr(const char* nm, TP tp) {
  try { auto s = Convert::ToString(tp); std::cout << nm << " -> " << s;
    try { auto back = Convert::To<TP>(s); std::cout << (back == tp ? "  (parses back OK)" : "  (parses back to a DIFFERENT value)") << "\n"; }
    catch (const std::exception& e) { std::cout << "  (parse back fails: " << e.what() << ")\n"; } }
  catch (const std::exception& e) { std::cout << nm << " -> exception " << e.what() << "\n"; }
}
int main() {
  using days64 = duration<int64_t, std::ratio<86400>>;
  using TPd = time_point<system_clock, days64>;
  using TPs = time_point<system_clock, seconds>;
  using TPn = time_point<system_clock, nanoseconds>;
  using TPh = time_point<system_clock, hours>;
  pr("days max", TPd::max()); pr("days min", TPd::min());
  pr("sec max", TPs::max()); pr("sec min", TPs::min());
  pr("ns max", TPn::max()); pr("ns min", TPn::min());
  pr("hours max", TPh::max()); pr("hours min", TPh::min());
  pr("ns min+1day", TPn::min() + hours(24));
  return 0;
}
