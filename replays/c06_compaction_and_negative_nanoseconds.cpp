// replay C06: compactness of signed integers and sign of the nanoseconds field before the epoch
#include <iostream>
#include <sstream>
#include <chrono>
#include <cstdio>
#include "bitserializer/bit_serializer.h"
#include "bitserializer/msgpack_archive.h"
#include "bitserializer/types/std/chrono.h"
using namespace BitSerializer;
static std::string hex(const std::string& s){ std::string o; char b[4]; for(unsigned char c: s){ snprintf(b,4,"%02x ",c); o+=b;} return o; }
template <class T> int chk(T v, const std::string& want, const char* what){
  auto a = SaveObject<MsgPack::MsgPackArchive>(v); std::ostringstream os; SaveObject<MsgPack::MsgPackArchive>(v, os);
  bool ok = a == want && os.str() == want; std::cout << what << ": " << hex(a) << "| stream " << hex(os.str()) << (ok?"ok":"  <-- expected " + hex(want)) << "\n"; return ok?0:1; }
int main(){
  int rc=0;
  rc|=chk<int16_t>(200, std::string("\xcc\xc8",2), "int16 200");
  rc|=chk<int32_t>(40000, std::string("\xcd\x9c\x40",3), "int32 40000");
  rc|=chk<int64_t>(3000000000LL, std::string("\xce\xb2\xd0\x5e\x00",5), "int64 3e9");
  rc|=chk<int64_t>(200, std::string("\xcc\xc8",2), "int64 200");
  using ms = std::chrono::milliseconds;
  std::chrono::time_point<std::chrono::system_clock, ms> tp(ms(-500)); // epoch - 0.5 s  => sec=-1, nsec=500000000
  auto s = SaveObject<MsgPack::MsgPackArchive>(tp);
  // timestamp 96 (negative seconds): c7 0c ff <..12 bytes..>; nanoseconds must be 500000000 = 1d cd 65 00 somewhere, never 0xe2329b00 (=-500000000)
  bool neg = s.find(std::string("\xe2\x32\x9b\x00",4)) != std::string::npos;
  bool pos = s.find(std::string("\x1d\xcd\x65\x00",4)) != std::string::npos;
  std::cout << "tp epoch-500ms: " << hex(s) << (neg ? " <-- negative nanoseconds field" : "") << "\n";
  if (neg || !pos) rc = 1;
  decltype(tp) back; LoadObject<MsgPack::MsgPackArchive>(back, s); if (back != tp) { std::cout << "round trip differs\n"; rc = 1; }
  return rc;
}
