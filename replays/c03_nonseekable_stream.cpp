// replay C03/R3.1: repositioning failure of a non-seekable stream must not be ignored
#include <iostream>
#include <sstream>
#include <streambuf>
#include "bitserializer/bit_serializer.h"
#include "bitserializer/msgpack_archive.h"
using namespace BitSerializer;
struct NoSeekBuf : std::stringbuf { using std::stringbuf::stringbuf;
  pos_type seekoff(off_type, std::ios_base::seekdir, std::ios_base::openmode) override { return pos_type(off_type(-1)); }
  pos_type seekpos(pos_type, std::ios_base::openmode) override { return pos_type(off_type(-1)); } };
struct W { std::string a, b, c; template <class A> void Serialize(A& ar) { ar << KeyValue("a", a); ar << KeyValue("b", b); ar << KeyValue("c", c); } };
struct R { std::string a, b, c; template <class A> void Serialize(A& ar) { ar << KeyValue("c", c); ar << KeyValue("b", b); ar << KeyValue("a", a); } };
int main() {
  W w; w.a = std::string(200, 'a'); w.b = std::string(200, 'b'); w.c = std::string(200, 'c');
  const std::string doc = SaveObject<MsgPack::MsgPackArchive>(w);
  NoSeekBuf buf(doc, std::ios::in); std::istream is(&buf);
  R r;
  try { LoadObject<MsgPack::MsgPackArchive>(r, is);
    bool ok = r.a == w.a && r.b == w.b && r.c == w.c;
    std::cout << "loaded without error, equal=" << ok << (ok ? "" : "  <-- silently wrong data") << "\n"; return ok ? 0 : 1; }
  catch (const SerializationException& e) { std::cout << "exception: " << e.what() << "\n"; return 0; }
}
