// replay C05/R5.1: mismatched element skipped by policy inside a MsgPack array must not disturb its neighbours
#include <iostream>
#include <vector>
#include "bitserializer/bit_serializer.h"
#include "bitserializer/msgpack_archive.h"
#include "bitserializer/types/std/vector.h"
using namespace BitSerializer;
int main() {
  int rc = 0;
  SerializationOptions opt; opt.mismatchedTypesPolicy = MismatchedTypesPolicy::Skip; opt.overflowNumberPolicy = OverflowNumberPolicy::Skip;
  { // [1,"x",3] -> vector<int>
    std::string doc("\x93\x01\xa1x\x03", 5); std::vector<int> v;
    try { LoadObject<MsgPack::MsgPackArchive>(v, doc, opt); std::cout << "A size=" << v.size() << " last=" << (v.empty()?-1:v.back()) << "\n"; if (v.size()!=3 || v[0]!=1 || v[2]!=3) rc=1; }
    catch (const std::exception& e) { std::cout << "A exception: " << e.what() << "\n"; rc = 1; }
  }
  { // [[1], 5, [2]] -> vector<vector<int>>
    std::string doc("\x93\x91\x01\x05\x91\x02", 6); std::vector<std::vector<int>> v;
    try { LoadObject<MsgPack::MsgPackArchive>(v, doc, opt); std::cout << "B size=" << v.size() << "\n"; if (v.size()!=3 || v[2].size()!=1 || v[2][0]!=2) rc=1; }
    catch (const std::exception& e) { std::cout << "B exception: " << e.what() << "\n"; rc = 1; }
  }
  { // save+load vector<vector<char>> (binary elements inside an array)
    std::vector<std::vector<char>> src{{'a','b'},{'c'}}, dst;
    try { auto s = SaveObject<MsgPack::MsgPackArchive>(src); LoadObject<MsgPack::MsgPackArchive>(dst, s); std::cout << "C size=" << dst.size() << "\n"; if (dst != src) rc=1; }
    catch (const std::exception& e) { std::cout << "C exception: " << e.what() << "\n"; rc = 1; }
  }
  return rc;
}
