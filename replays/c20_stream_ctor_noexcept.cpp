// replay: stream with exceptions enabled that fails on the very first read -> must be a catchable exception
#include <iostream>
#include <streambuf>
#include "bitserializer/bit_serializer.h"
#include "bitserializer/msgpack_archive.h"
struct ThrowBuf : std::streambuf {
  int_type underflow() override { throw std::runtime_error("disk error"); }
  std::streamsize xsgetn(char*, std::streamsize) override { throw std::runtime_error("disk error"); }
};
int main() {
  ThrowBuf b; std::istream is(&b); is.exceptions(std::ios::badbit | std::ios::failbit);
  int v = 0;
  try { BitSerializer::LoadObject<BitSerializer::MsgPack::MsgPackArchive>(v, is); }
  catch (const std::exception& e) { std::cout << "caught: " << e.what() << "\n"; return 0; }
  return 1;
}
