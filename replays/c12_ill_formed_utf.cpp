// replay C12: ill-formed UTF input must be rejected (fail policy) / replaced (skip policy), never propagated
#include <iostream>
#include <string>
#include <cstdio>
#include "bitserializer/conversion_detail/convert_utf.h"
using namespace BitSerializer::Convert::Utf;
static int rc = 0;
template <class TIn, class TOut> void expectReject(const char* what, std::basic_string<TIn> in) {
  std::basic_string<TOut> out;
  auto r = Transcode(std::basic_string_view<TIn>(in), out, UtfEncodingErrorPolicy::ThrowError);
  bool ok = !r && r.ErrorCode != UtfEncodingErrorCode::Success;
  std::printf("%-46s fail-policy: %s (units out=%zu)\n", what, ok ? "rejected" : "ACCEPTED", out.size());
  if (!ok) rc = 1;
  std::basic_string<TOut> out2;
  auto r2 = Transcode(std::basic_string_view<TIn>(in), out2, UtfEncodingErrorPolicy::Skip);
  if (r2.InvalidSequencesCount == 0) { std::printf("%-46s skip-policy: no replacement counted\n", what); rc = 1; }
}
int main() {
  expectReject<char, char32_t>("UTF-8 overlong C0 AF", std::string("\xC0\xAF"));
  expectReject<char, char32_t>("UTF-8 overlong E0 80 AF", std::string("\xE0\x80\xAF"));
  expectReject<char, char16_t>("UTF-8 overlong F0 80 80 AF", std::string("\xF0\x80\x80\xAF"));
  expectReject<char, char32_t>("UTF-8 above U+10FFFF F4 90 80 80", std::string("\xF4\x90\x80\x80"));
  expectReject<char, char16_t>("UTF-8 above U+10FFFF F5 80 80 80", std::string("\xF5\x80\x80\x80"));
  expectReject<char32_t, char>("UTF-32 surrogate D800 -> UTF-8", std::u32string(1, char32_t(0xD800)));
  expectReject<char32_t, char16_t>("UTF-32 surrogate DC00 -> UTF-16", std::u32string(1, char32_t(0xDC00)));
  expectReject<char32_t, char>("UTF-32 110000 -> UTF-8", std::u32string(1, char32_t(0x110000)));
  expectReject<char32_t, char16_t>("UTF-32 110000 -> UTF-16", std::u32string(1, char32_t(0x110000)));
  expectReject<char16_t, char>("UTF-16 D800 E000 -> UTF-8", std::u16string({char16_t(0xD800), char16_t(0xE000)}));
  expectReject<char16_t, char32_t>("UTF-16 D800 E000 -> UTF-32", std::u16string({char16_t(0xD800), char16_t(0xE000)}));
  { // error count must include earlier replacements when the text ends inside a pair
    std::u16string in({char16_t(0xDC00), u'A', char16_t(0xD800)}); std::u32string out;
    auto r = Transcode(std::u16string_view(in), out, UtfEncodingErrorPolicy::Skip);
    std::printf("UTF-16 DC00 'A' D800 -> UTF-32 skip: code=%d count=%zu (expected count 1)\n", int(r.ErrorCode), r.InvalidSequencesCount);
    if (r.InvalidSequencesCount != 1) rc = 1;
  }
  return rc;
}
