// replay C04 R4.2/R4.5: error codes of the policy mappers
#include <iostream>
#include <map>
#include <vector>
#include "bitserializer/bit_serializer.h"
#include "bitserializer/rapidjson_archive.h"
#include "bitserializer/types/std/ctime.h"
#include "bitserializer/types/std/map.h"
using namespace BitSerializer;
struct T { time_t t = 5; template <class A> void Serialize(A& a) { a << KeyValue("t", CTimeRef(t)); } };
struct NotConvertible {};
int main() {
  int rc = 0;
  { // a source/target pair that is not convertible at all, ThrowError policy -> MismatchedTypes expected
    NotConvertible target; 
    try { Detail::ConvertByPolicy(std::string_view("x"), target, MismatchedTypesPolicy::ThrowError, OverflowNumberPolicy::ThrowError); rc = 1; }
    catch (const SerializationException& e) { std::cout << "non-convertible pair: code=" << Convert::ToString(e.GetErrorCode()) << "\n"; if (e.GetErrorCode() != SerializationErrorCode::MismatchedTypes) rc = 1; }
  }
  for (int pol = 0; pol < 2; ++pol) { // year far beyond time_t: Overflow under ThrowError, skipped under Skip
    T v; SerializationOptions o; o.overflowNumberPolicy = pol ? OverflowNumberPolicy::Skip : OverflowNumberPolicy::ThrowError;
    try { LoadObject<Json::RapidJson::JsonArchive>(v, std::string("{\"t\":\"+999999999999999-01-01T00:00:00Z\"}"), o);
      std::cout << (pol ? "skip" : "throw") << " policy: loaded, t=" << v.t << "\n"; if (!pol || v.t != 5) rc = 1; }
    catch (const SerializationException& e) { std::cout << (pol ? "skip" : "throw") << " policy: code=" << Convert::ToString(e.GetErrorCode()) << "\n";
      if (pol || e.GetErrorCode() != SerializationErrorCode::Overflow) rc = 1; }
  }
  return rc;
}
