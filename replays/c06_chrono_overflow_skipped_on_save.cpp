// C06/C01: a class with a duration field that the binary timestamp cannot hold (int64 years -> seconds overflows), saved to MsgPack with
// OverflowNumberPolicy::Skip. The field had been counted for the map header (3 entries) but the failed conversion returned false before
// anything was written: 83 a1 61 01 a1 62 02 - a map of 3 with 2 entries, which no reader (including the library's own) can load.
#include <chrono>
#include <cstdio>
#include <iostream>
#include "bitserializer/bit_serializer.h"
#include "bitserializer/msgpack_archive.h"
#include "bitserializer/types/std/chrono.h"
using namespace BitSerializer;
using Years = std::chrono::duration<int64_t, std::ratio<31556952>>;
struct Rec {
    int a = 1; Years y{ std::numeric_limits<int64_t>::max() }; int b = 2;
    template <class A> void Serialize(A& ar) { ar << KeyValue("a", a) << KeyValue("y", y) << KeyValue("b", b); }
};
int main() {
    SerializationOptions opt; opt.overflowNumberPolicy = OverflowNumberPolicy::Skip;
    Rec r; std::string out;
    try { SaveObject<MsgPack::MsgPackArchive>(r, out, opt); }
    catch (const SerializationException& e) { std::cout << "save reports: " << e.what() << std::endl << "OK" << std::endl; return 0; }
    for (unsigned char c : out) std::printf("%02x ", c);
    std::printf("\n"); std::fflush(stdout);
    const unsigned declared = static_cast<unsigned char>(out[0]) & 0x0f;
    std::cout << "map header declares " << declared << " entries, the class wrote 2: MALFORMED" << std::endl;
    return 1;
}
