// Replay (build with clang++ -fsanitize=undefined): time points / durations inside the first partial day (text) or first partial second
// (binary timestamp) of the representable range. Before the fix UBSan reports "signed integer overflow: -106752 * 86400000000000" (the floored
// part is converted back to the finer unit before the remainder is taken).
#include "bitserializer/convert.h"
#include "bitserializer/serialization_detail/bin_timestamp.h"
#include <chrono>
#include <iostream>
using namespace std::chrono;
template <class TP> int text(const char* name, TP t) {
	try { std::cout << name << " -> " << BitSerializer::Convert::ToString(t) << std::endl; return 0; }
	catch (const std::exception& e) { std::cout << name << " throws " << e.what() << std::endl; return 1; }
}
int main() {
	using tp_ns = time_point<system_clock, nanoseconds>;
	using tp_us = time_point<system_clock, microseconds>;
	using tp_ms = time_point<system_clock, milliseconds>;
	int rc = 0;
	rc |= text("ns min", tp_ns::min());
	rc |= text("ns min+1", tp_ns::min() + nanoseconds(1));
	rc |= text("us min", tp_us::min());
	rc |= text("ms min", tp_ms::min());
	BitSerializer::Detail::CBinTimestamp ts;
	BitSerializer::Detail::To(tp_ns::min(), ts);
	std::cout << "ns min as timestamp: " << ts.Seconds << " s + " << ts.Nanoseconds << " ns" << std::endl;
	if (ts.Seconds != -9223372037ll || ts.Nanoseconds != 145224192) rc |= 2;
	tp_ns back; BitSerializer::Detail::To(ts, back);
	if (back != tp_ns::min()) { std::cout << "timestamp does not load back" << std::endl; rc |= 4; }
	BitSerializer::Detail::To(nanoseconds::min(), ts);
	if (ts.Seconds != -9223372037ll || ts.Nanoseconds != 145224192) rc |= 8;
	BitSerializer::Detail::To(milliseconds::min(), ts);
	std::cout << "ms min as timestamp: " << ts.Seconds << " s + " << ts.Nanoseconds << " ns" << std::endl;
	if (ts.Seconds != -9223372036854776ll || ts.Nanoseconds != 192000000) rc |= 16;
	return rc;
}
