// Replay for C15/R15.1: signed overflow (undefined behaviour) inside the precision check of SafeDurationCast. Build with -fsanitize=undefined.
#include <iostream>
#include <chrono>
#include "bitserializer/convert.h"
using namespace BitSerializer;
int main() {
  try { auto h = Convert::To<std::chrono::hours>(std::string("PT9223372036854777600S")); std::cout << "hours=" << h.count() << "\n"; }
  catch (const std::exception& e) { std::cout << "exception: " << e.what() << "\n"; }
  try { auto h = Convert::To<std::chrono::hours>(std::string("PT153722867280912931M")); std::cout << "hours=" << h.count() << "\n"; }
  catch (const std::exception& e) { std::cout << "exception: " << e.what() << "\n"; }
  return 0;
}
