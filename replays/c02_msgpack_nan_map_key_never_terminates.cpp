// C02: MsgPack map {1.0f: 1, NaN: 2} loaded into std::map<float,int> - does the load terminate?
#include <iostream>
#include <map>
#include <csignal>
#include <cstdlib>
#include <unistd.h>
#include "bitserializer/bit_serializer.h"
#include "bitserializer/msgpack_archive.h"
#include "bitserializer/types/std/map.h"
using namespace BitSerializer;
using MsgPackArchive = BitSerializer::MsgPack::MsgPackArchive;
static void onAlarm(int) { const char m[] = "HANG: LoadObject did not return within 5 s\n"; (void)!write(2, m, sizeof m - 1); _exit(3); }
int main() {
    std::signal(SIGALRM, onAlarm); if (!getenv("NOALARM")) alarm(5);
    const std::string doc("\x82\xca\x3f\x80\x00\x00\x01\xca\x7f\xc0\x00\x00\x02", 13);
    std::map<float, int> m;
    try { LoadObject<MsgPackArchive>(m, doc); std::cout << "loaded " << m.size() << " entries\n"; }
    catch (const std::exception& e) { std::cout << "exception: " << e.what() << "\n"; }
    return 0;
}
