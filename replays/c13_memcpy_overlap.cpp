// Replay for C13/R13.6: CEncodedStreamReader squeezes its buffer with std::memcpy over overlapping regions (undefined behaviour).
// Build with -fsanitize=address: ASan reports memcpy-param-overlap for any stream that starts with a BOM and is longer than one chunk.
#include <iostream>
#include <sstream>
#include "bitserializer/convert.h"
using namespace BitSerializer::Convert::Utf;
int main() {
  std::string bytes("\xEF\xBB\xBF", 3);
  for (int i = 0; i < 400; ++i) bytes.push_back(char('a' + i % 26));
  std::istringstream is(bytes);
  CEncodedStreamReader<char16_t> reader(is);
  std::u16string out;
  while (!reader.IsEnd()) { if (reader.ReadChunk(out) != EncodedStreamReadResult::Success) break; }
  std::cout << "decoded " << out.size() << " units" << std::endl;
  return out.size() == 400 ? 0 : 1;
}
