// C15: ISO-8601 text with a fraction of a second parsed into a duration / time_point whose representation is narrower than the number of
// its units in one second (int8 milliseconds: 127 < 999; int16 microseconds). The fraction went through std::chrono::round<Target>, which
// converts to the narrow rep before any range check: "PT0.2S" -> -56 ms instead of std::out_of_range.
#include <chrono>
#include <iostream>
#include "bitserializer/convert.h"
using namespace BitSerializer;
template <class D> static int probe(const char* text, const char* what) {
    try { auto d = Convert::To<D>(text); std::cout << what << " <- " << text << ": returned " << static_cast<long long>(d.count()) << std::endl; return 1; }
    catch (const std::out_of_range& e) { std::cout << what << " <- " << text << ": out_of_range (" << e.what() << ")" << std::endl; return 0; }
}
int main() {
    using Ms8 = std::chrono::duration<int8_t, std::milli>;
    using Us16 = std::chrono::duration<int16_t, std::micro>;
    int bad = 0;
    bad += probe<Ms8>("PT0.2S", "int8 ms");          // 200 ms does not fit
    bad += probe<Us16>("PT0.05S", "int16 us");       // 50000 us does not fit
    try { auto d = Convert::To<Ms8>("PT0.1S"); if (d.count() != 100) { std::cout << "PT0.1S gave " << int(d.count()) << std::endl; ++bad; } }
    catch (const std::exception& e) { std::cout << "PT0.1S must be representable: " << e.what() << std::endl; ++bad; }
    using Tp16 = std::chrono::time_point<std::chrono::system_clock, std::chrono::duration<int16_t, std::milli>>;
    try { auto tp = Convert::To<Tp16>("1970-01-01T00:00:00.900Z"); std::cout << "int16 ms time_point <- ...00.900Z: " << tp.time_since_epoch().count() << std::endl;
          if (tp.time_since_epoch().count() != 900) ++bad; }
    catch (const std::exception& e) { std::cout << "time_point: " << e.what() << std::endl; ++bad; }
    using Tp8 = std::chrono::time_point<std::chrono::system_clock, std::chrono::duration<int8_t, std::milli>>;
    try { auto tp = Convert::To<Tp8>("1970-01-01T00:00:00.900Z"); std::cout << "int8 ms time_point <- ...00.900Z: returned " << int(tp.time_since_epoch().count()) << std::endl; ++bad; }
    catch (const std::out_of_range& e) { std::cout << "int8 ms time_point <- ...00.900Z: out_of_range" << std::endl; }
    std::cout << (bad ? "FAILED" : "OK") << std::endl;
    return bad ? 1 : 0;
}
