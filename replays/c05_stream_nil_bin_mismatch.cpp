// replay C05/R5.3 + C10: stream reader's nil / bin mismatch handling differs from the string reader
#include <iostream>
#include <sstream>
#include <optional>
#include <vector>
#include "bitserializer/bit_serializer.h"
#include "bitserializer/msgpack_archive.h"
#include "bitserializer/types/std/vector.h"
using namespace BitSerializer;
struct NilHolder { std::nullptr_t n = nullptr; int after = 0;
  template <class A> void Serialize(A& a) { a << KeyValue("n", n); a << KeyValue("after", after); } };
struct BinHolder { std::vector<char> b; int after = 0;
  template <class A> void Serialize(A& a) { a << KeyValue("b", b); a << KeyValue("after", after); } };
template <class T> int both(const std::string& doc, const char* what) {
  SerializationOptions opt; opt.mismatchedTypesPolicy = MismatchedTypesPolicy::Skip;
  int rc = 0; std::string r[2];
  for (int mode = 0; mode < 2; ++mode) { T t;
    try { if (!mode) LoadObject<MsgPack::MsgPackArchive>(t, doc, opt); else { std::istringstream is(doc); LoadObject<MsgPack::MsgPackArchive>(t, is, opt); }
      r[mode] = "ok after=" + std::to_string(t.after); }
    catch (const std::exception& e) { r[mode] = std::string("exception: ") + e.what(); } }
  std::cout << what << ": string -> " << r[0] << " | stream -> " << r[1] << "\n";
  return r[0] == r[1] && r[0] == "ok after=7" ? 0 : 1; }
int main() {
  int rc = 0;
  rc |= both<NilHolder>(std::string("\x82\xa1n\x05\xa5" "after\x07", 11), "int where nil expected");     // {"n":5,"after":7}
  rc |= both<BinHolder>(std::string("\x82\xa1" "b\x05\xa5" "after\x07", 11), "int where bin expected"); // {"b":5,"after":7}
  return rc;
}
