// Replay for C15: signed overflow in the civil->days arithmetic for years close to INT64_MIN. Build with -fsanitize=undefined.
#include <iostream>
#include <chrono>
#include "bitserializer/convert.h"
using namespace BitSerializer;
int main() {
  for (const char* s : { "-9223372036854775808-03-01T00:00:00Z", "-9223372036854775808-01-01T00:00:00Z", "-9223372036854775500-03-01T00:00:00Z", "-25252734927764799-01-01T00:00:00Z", "-25252734927764000-06-01T00:00:00Z",
                         "9223372036854775807-03-01T00:00:00Z", "+9223372036854775807-12-31T23:59:59Z" }) {
    try { auto tp = Convert::To<std::chrono::time_point<std::chrono::system_clock, std::chrono::seconds>>(std::string(s)); std::cout << s << " -> " << tp.time_since_epoch().count() << "\n"; }
    catch (const std::out_of_range& e) { std::cout << s << " -> out_of_range\n"; }
    catch (const std::exception& e) { std::cout << s << " -> " << e.what() << "\n"; }
  }
  return 0;
}
