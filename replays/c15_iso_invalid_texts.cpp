// Replay for C15: ISO-8601 texts that do not denote a date/duration are accepted and converted to some other value.
#include <iostream>
#include <chrono>
#include "bitserializer/convert.h"
using namespace BitSerializer;
using namespace std::chrono;
int bad = 0;
template <class T> void tp(const char* s, bool valid) {
  try { auto v = Convert::To<T>(std::string(s)); auto back = Convert::ToString(v);
    bool ok = valid; bad += !ok; std::cout << s << " -> accepted, prints as " << back << (ok ? " OK" : "  WRONG (not a valid text)") << "\n"; }
  catch (const std::invalid_argument& e) { bool ok = !valid; bad += !ok; std::cout << s << " -> invalid_argument" << (ok ? " OK" : " WRONG") << "\n"; }
  catch (const std::out_of_range& e) { std::cout << s << " -> out_of_range\n"; }
}
int main() {
  using TP = time_point<system_clock, seconds>;
  tp<TP>("2024-02-29T00:00:00Z", true);
  tp<TP>("2023-02-29T00:00:00Z", false);
  tp<TP>("1900-02-29T00:00:00Z", false);
  tp<TP>("2023-02-30T00:00:00Z", false);
  tp<TP>("2023-04-31T00:00:00Z", false);
  tp<TP>("2023-01-01T00:00:00Zgarbage", false);
  tp<TP>("2023-01-01T00:00:00.5Z", true);
  tp<TP>("+-2023-01-01T00:00:00Z", false);
  tp<TP>("2023-1-1T0:0:0Z", false);
  tp<seconds>("PT1S", true);
  tp<seconds>("PT1Sgarbage", false);
  tp<seconds>("P1Y", false);
  tp<seconds>("PT", false);
  tp<seconds>("P", false);
  tp<seconds>("PT1.5H", false);
  tp<seconds>("PT1H1H", false);
  tp<seconds>("PT1S1H", false);
  tp<seconds>("P1DT", true);
  tp<seconds>("-P1D", true);
  tp<seconds>("P-1D", true);
  tp<duration<int8_t>>("PT127S", true);
  tp<duration<int8_t>>("PT128S", false);
  tp<duration<int8_t>>("-PT128S", true);
  tp<duration<int8_t>>("PT2M8S", false);
  tp<duration<uint64_t>>("-PT1S", false);
  tp<duration<uint64_t>>("PT18446744073709551615S", true);
  tp<duration<uint64_t>>("PT18446744073709551616S", false);
  return bad ? 1 : 0;
}
