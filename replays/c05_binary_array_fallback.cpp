// replay C05/R5.4: byte container falls back to OpenArrayScope after OpenBinaryScope already consumed the value
#include <iostream>
#include <vector>
#include "bitserializer/bit_serializer.h"
#include "bitserializer/msgpack_archive.h"
#include "bitserializer/types/std/vector.h"
using namespace BitSerializer;
int main() {
  SerializationOptions opt; opt.mismatchedTypesPolicy = MismatchedTypesPolicy::Skip;
  // [ 5, bin"ab", bin"c" ] -> vector<vector<char>> : element 0 is mismatched and must be skipped alone
  std::string doc("\x93\x05\xc4\x02" "ab" "\xc4\x01" "c", 9); std::vector<std::vector<char>> v;
  try { LoadObject<MsgPack::MsgPackArchive>(v, doc, opt);
    std::cout << "size=" << v.size(); for (auto& e : v) std::cout << " [" << std::string(e.begin(), e.end()) << "]"; std::cout << "\n";
    return (v.size()==3 && v[1]==std::vector<char>{'a','b'} && v[2]==std::vector<char>{'c'}) ? 0 : 1; }
  catch (const std::exception& e) { std::cout << "exception: " << e.what() << "\n"; return 1; }
}
