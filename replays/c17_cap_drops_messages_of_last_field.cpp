// Replay: with maxValidationErrors = 1 the first failing field ends the load as soon as its FIRST failing validator is recorded; the messages
// of the other failing validators of that field are lost (documentation: "Number of errors for each particular field is unlimited in any case").
#include "bitserializer/bit_serializer.h"
#include "bitserializer/rapidjson_archive.h"
#include <iostream>
using namespace BitSerializer;
struct T {
	std::string email;
	template <class A> void Serialize(A& a) { a << KeyValue("email", email, MinSize(50, "too short"), Email("not an email")); }
};
int main() {
	for (uint32_t cap : {0u, 1u}) {
		SerializationOptions opt; opt.maxValidationErrors = cap;
		T t;
		try { LoadObject<Json::RapidJson::JsonArchive>(t, std::string(R"({"email":"x"})"), opt); std::cout << "no exception\n"; }
		catch (const ValidationException& e) {
			size_t n = 0; for (auto& kv : e.GetValidationErrors()) { n += kv.second.size(); for (auto& m : kv.second) std::cout << "cap=" << cap << " " << kv.first << ": " << m << "\n"; }
			if (n != 2) { std::cout << "cap=" << cap << ": " << n << " message(s) instead of 2\n"; return 1; }
		}
	}
	return 0;
}
