// replay C04: XML attribute values must be range-checked like every other position
#include <iostream>
#include "bitserializer/bit_serializer.h"
#include "bitserializer/pugixml_archive.h"
using namespace BitSerializer;
struct A { int8_t v = 0; uint8_t u = 0; int i = 7; bool b = false;
  template <class Ar> void Serialize(Ar& ar) { ar << AttributeValue("v", v); ar << AttributeValue("u", u); ar << AttributeValue("i", i); ar << AttributeValue("b", b); } };
int main() {
  int rc = 0;
  for (const char* doc : {"<r v=\"300\"/>", "<r u=\"-1\"/>", "<r i=\"abc\"/>", "<r i=\"99999999999\"/>"}) {
    A a; try { LoadObject<Xml::PugiXml::XmlArchive>(KeyValue("r", a), std::string(doc));
      std::cout << doc << " -> loaded v=" << int(a.v) << " u=" << int(a.u) << " i=" << a.i << "  (silently altered)\n"; rc = 1; }
    catch (const SerializationException& e) { std::cout << doc << " -> " << e.what() << "\n"; }
  }
  { A a; LoadObject<Xml::PugiXml::XmlArchive>(KeyValue("r", a), std::string("<r v=\"-5\" u=\"200\" i=\"42\" b=\"true\"/>"));
    if (!(a.v == -5 && a.u == 200 && a.i == 42 && a.b)) { std::cout << "valid attributes mis-loaded\n"; rc = 1; } else std::cout << "valid attributes ok\n"; }
  { A a; SerializationOptions o; o.overflowNumberPolicy = OverflowNumberPolicy::Skip; o.mismatchedTypesPolicy = MismatchedTypesPolicy::Skip;
    LoadObject<Xml::PugiXml::XmlArchive>(KeyValue("r", a), std::string("<r v=\"300\" i=\"abc\"/>"), o);
    if (!(a.v == 0 && a.i == 7)) { std::cout << "skip policy altered the target\n"; rc = 1; } else std::cout << "skip policy leaves targets untouched\n"; }
  return rc;
}
