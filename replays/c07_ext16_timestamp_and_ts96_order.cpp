// replay C07/R7.3: timestamp carried by ext16 (legal MessagePack ext object, type -1, 12 bytes)
#include <iostream>
#include <sstream>
#include <chrono>
#include "bitserializer/bit_serializer.h"
#include "bitserializer/msgpack_archive.h"
#include "bitserializer/types/std/chrono.h"
using namespace BitSerializer;
int main() {
  std::string doc("\xc8\x00\x0c\xff" "\x00\x00\x00\x01" "\x00\x00\x00\x00\x00\x00\x00\x0a", 16); // ext16 len=12 type=-1: nsec=1, sec=10
  int rc = 0;
  for (int mode = 0; mode < 2; ++mode) {
    std::chrono::time_point<std::chrono::system_clock, std::chrono::nanoseconds> tp;
    try {
      if (mode == 0) LoadObject<MsgPack::MsgPackArchive>(tp, doc);
      else { std::istringstream is(doc); LoadObject<MsgPack::MsgPackArchive>(tp, is); }
      std::cout << (mode ? "stream" : "string") << ": ns since epoch = " << tp.time_since_epoch().count() << "\n";
      if (tp.time_since_epoch().count() != 10000000001LL) rc = 1;
    } catch (const std::exception& e) { std::cout << (mode ? "stream" : "string") << ": exception: " << e.what() << "\n"; rc = 1; }
  }
  return rc;
}
