// C12 / R12.10: SerializationOptions::utfEncodingErrorPolicy (default ThrowError) never reaches the CSV stream reader: an ill-formed sequence in
// an encoded CSV stream is replaced by the error mark although the policy asks for an exception (the save side of the same archive honours it).
// build: g++ -std=c++17 -I/repo/include c12_csv_stream_ignores_utf_error_policy.cpp <build>/libbitserializer-csv.a -o replay
// exit 0 = the policy is honoured (exception for ThrowError, mark for Skip); exit 1 = ThrowError is ignored
#include <iostream>
#include <sstream>
#include <vector>
#include "bitserializer/bit_serializer.h"
#include "bitserializer/csv_archive.h"
#include "bitserializer/types/std/vector.h"
using namespace BitSerializer;
struct Row { std::string a; int b = 0; template <class A> void Serialize(A& ar) { ar << KeyValue("a", a) << KeyValue("b", b); } };
int main() {
	// UTF-16LE with BOM: header a,b / row: <lone high surrogate D800>x,2
	const char16_t text[] = u"a,b\r\n\xD800x,2\r\n";
	std::string bytes("\xFF\xFE", 2);
	for (const char16_t ch : text) { if (!ch) break; bytes.push_back(static_cast<char>(ch & 0xFF)); bytes.push_back(static_cast<char>(ch >> 8)); }
	int rc = 0;
	{
		SerializationOptions opt; opt.utfEncodingErrorPolicy = Convert::Utf::UtfEncodingErrorPolicy::ThrowError;
		std::istringstream in(bytes); std::vector<Row> rows;
		try { LoadObject<Csv::CsvArchive>(rows, in, opt); std::cout << "ThrowError: loaded '" << (rows.empty() ? "" : rows[0].a) << "' without an exception" << std::endl; rc = 1; }
		catch (const SerializationException& ex) { std::cout << "ThrowError: exception: " << ex.what() << std::endl; }
	}
	{
		SerializationOptions opt; opt.utfEncodingErrorPolicy = Convert::Utf::UtfEncodingErrorPolicy::Skip;
		std::istringstream in(bytes); std::vector<Row> rows;
		try { LoadObject<Csv::CsvArchive>(rows, in, opt); std::cout << "Skip: loaded '" << (rows.empty() ? "" : rows[0].a) << "'" << std::endl; if (rows.size() != 1 || rows[0].b != 2) rc = 1; }
		catch (const SerializationException& ex) { std::cout << "Skip: unexpected exception: " << ex.what() << std::endl; rc = 1; }
	}
	return rc;
}
