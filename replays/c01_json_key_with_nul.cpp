// Replay for C01/C08: JSON object keys with an embedded U+0000 are cut when the keys are enumerated (std::map load).
#include <iostream>
#include <map>
#include "bitserializer/bit_serializer.h"
#include "bitserializer/rapidjson_archive.h"
#include "bitserializer/types/std/map.h"
using namespace BitSerializer;
using JsonArchive = BitSerializer::Json::RapidJson::JsonArchive;
int main() {
  std::map<std::string, int> m{ { std::string("a\0b", 3), 1 }, { "plain", 2 } }, back;
  std::string out; SaveObject<JsonArchive>(m, out);
  std::cout << out << "\n";
  try { LoadObject<JsonArchive>(back, out); } catch (const std::exception& e) { std::cout << "load throws: " << e.what() << "\n"; return 1; }
  bool ok = back == m;
  std::cout << "loaded " << back.size() << " entries; first key has " << back.begin()->first.size() << " chars" << (ok ? " OK" : " WRONG") << "\n";
  return ok ? 0 : 1;
}
