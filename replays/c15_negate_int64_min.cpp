// Replay for C15/R15.5: negation of INT64_MIN while parsing the most negative ISO duration (undefined behaviour). Build with -fsanitize=undefined.
#include <iostream>
#include <chrono>
#include "bitserializer/convert.h"
using namespace BitSerializer;
int main() {
  try { auto s = Convert::To<std::chrono::seconds>(std::string("-PT9223372036854775808S")); std::cout << "seconds=" << s.count() << "\n"; }
  catch (const std::exception& e) { std::cout << "exception: " << e.what() << "\n"; }
  return 0;
}
