// C05: MsgPack {"a": 5, "b": bin'xy', "c": bin'z'} loaded with MismatchedTypesPolicy::Skip into std::map<std::string, std::vector<char>>.
// OpenBinaryScope("a") skipped the int by policy, the array fallback OpenArrayScope looked the key up again; the key argument is the scope's
// own current-key slot, the rescan read "b" into it, the slot compared equal to itself and the value of "b" was consumed under key "a":
// the entry "b" was lost. Also checks the fallback proper: a byte container stored as an array of integers, a nil, both policies.
#include <iostream>
#include <map>
#include <vector>
#include "bitserializer/bit_serializer.h"
#include "bitserializer/msgpack_archive.h"
#include "bitserializer/types/std/map.h"
#include "bitserializer/types/std/vector.h"
using namespace BitSerializer;
using MsgPackArchive = BitSerializer::MsgPack::MsgPackArchive;
static std::string show(const std::map<std::string, std::vector<char>>& m) { std::string s; for (auto& [k, v] : m) s += k + "='" + std::string(v.begin(), v.end()) + "' "; return s; }
int main() {
    int bad = 0;
    SerializationOptions skip; skip.mismatchedTypesPolicy = MismatchedTypesPolicy::Skip;
    {
        const std::string doc("\x83\xa1""a\x05\xa1""b\xc4\x02xy\xa1""c\xc4\x01z", 16);
        std::map<std::string, std::vector<char>> m;
        LoadObject<MsgPackArchive>(m, doc, skip);
        std::cout << "int in place of bin, Skip: " << show(m) << std::endl;
        if (!(m.count("b") && m["b"] == std::vector<char>{'x','y'} && m.count("c") && m["c"] == std::vector<char>{'z'})) { std::cout << "  MISMATCH: a neighbour of the skipped value was lost\n"; ++bad; }
    }
    {
        const std::string doc("\x83\xa1""a\xc0\xa1""b\xc4\x02xy\xa1""c\xc4\x01z", 16);      // nil in place of bin, default policy
        std::map<std::string, std::vector<char>> m;
        try { LoadObject<MsgPackArchive>(m, doc); } catch (const std::exception& e) { std::cout << "  unexpected exception: " << e.what() << std::endl; }
        std::cout << "nil in place of bin, ThrowError: " << show(m) << std::endl;
        if (!(m.count("b") && m["b"] == std::vector<char>{'x','y'} && m.count("c"))) { std::cout << "  MISMATCH: a neighbour of the nil value was lost\n"; ++bad; }
    }
    {
        const std::string doc("\x82\xa1""a\x92\x41\x42\xa1""b\xc4\x01z", 11);                 // "a": [65, 66] - the array form of a byte container
        std::map<std::string, std::vector<char>> m;
        LoadObject<MsgPackArchive>(m, doc, skip);
        std::cout << "array in place of bin, Skip: " << show(m) << std::endl;
        if (!(m["a"] == std::vector<char>{'A','B'} && m["b"] == std::vector<char>{'z'})) { std::cout << "  MISMATCH\n"; ++bad; }
    }
    {
        const std::string doc("\x81\xa1""a\xa3xyz", 7);                                         // string in place of bin, default policy: an error, once
        std::map<std::string, std::vector<char>> m;
        try { LoadObject<MsgPackArchive>(m, doc); std::cout << "  MISMATCH: no exception for a string value under ThrowError\n"; ++bad; }
        catch (const SerializationException& e) { std::cout << "string in place of bin, ThrowError: " << e.what() << "\n"; }
    }
    std::cout << (bad ? "FAILED\n" : "OK\n");
    return bad ? 1 : 0;
}
