// Replay (build with -fsanitize=address): a truncated MsgPack stream shorter than one chunk. When the reader needs a contiguous block that is
// not completely cached it squeezes the unread bytes to the front of its buffer with memcpy; here 7 bytes are unread and 3 consumed, so the
// regions overlap (ASan: memcpy-param-overlap) - undefined behaviour on hostile input.
#include "bitserializer/bit_serializer.h"
#include "bitserializer/msgpack_archive.h"
#include "bitserializer/types/std/vector.h"
#include <sstream>
#include <iostream>
using namespace BitSerializer;
int main() {
	const std::string doc("\x93\x01\x02\xCF\x00\x00\x00\x00\x00\x00", 10);   // [1, 2, uint64 cut after 6 of 8 bytes]
	std::istringstream is(doc);
	std::vector<uint64_t> v;
	try { LoadObject<MsgPack::MsgPackArchive>(v, is); std::cout << "loaded\n"; }
	catch (const std::exception& e) { std::cout << "exception: " << e.what() << "\n"; }
	return 0;
}
