// Replay for C13: (a) BOM-less one-unit texts are misdetected, (b) a UTF-16/32 stream whose byte count is not a multiple of the unit never ends.
#include <iostream>
#include <sstream>
#include "bitserializer/convert.h"
using namespace BitSerializer::Convert::Utf;
static const char* nm(UtfType t) { switch (t) { case UtfType::Utf8: return "Utf8"; case UtfType::Utf16le: return "Utf16le"; case UtfType::Utf16be: return "Utf16be"; case UtfType::Utf32le: return "Utf32le"; case UtfType::Utf32be: return "Utf32be"; } return "?"; }
int main() {
  int bad = 0;
  struct { std::string bytes; UtfType expect; const char* what; } det[] = {
    { std::string("A\0", 2), UtfType::Utf16le, "UTF-16LE 'A'" }, { std::string("\0A", 2), UtfType::Utf16be, "UTF-16BE 'A'" },
    { std::string("A\0\0\0", 4), UtfType::Utf32le, "UTF-32LE 'A'" }, { std::string("\0\0\0A", 4), UtfType::Utf32be, "UTF-32BE 'A'" },
    { std::string("A\0B\0", 4), UtfType::Utf16le, "UTF-16LE 'AB'" }, { std::string("A", 1), UtfType::Utf8, "UTF-8 'A'" },
  };
  for (auto& d : det) { size_t off = 0; auto t = DetectEncoding(d.bytes, off); bool ok = t == d.expect; bad += !ok;
    std::cout << d.what << " without BOM -> " << nm(t) << (ok ? " OK" : " WRONG") << "\n"; }
  for (auto policy : { UtfEncodingErrorPolicy::Skip, UtfEncodingErrorPolicy::ThrowError }) {
    for (std::string bytes : { std::string("\xFF\xFE" "A\0B\0C", 7), std::string("\xFF\xFE\0\0" "A\0\0\0B\0", 10) }) {
      std::istringstream is(bytes);
      CEncodedStreamReader<char> reader(is, policy);
      std::string out; int calls = 0; EncodedStreamReadResult last = EncodedStreamReadResult::Success;
      while (!reader.IsEnd() && calls < 1000) { last = reader.ReadChunk(out); ++calls; if (last != EncodedStreamReadResult::Success) break; }
      bool hang = calls >= 1000; bad += hang;
      std::cout << nm(reader.GetSourceUtfType()) << " stream of " << bytes.size() << " bytes, policy " << (policy == UtfEncodingErrorPolicy::Skip ? "Skip" : "ThrowError")
                << ": " << calls << " ReadChunk calls, last result " << int(last) << ", text '" << out << "'" << (hang ? " NEVER ENDS" : " OK") << "\n";
    }
  }
  return bad ? 1 : 0;
}
