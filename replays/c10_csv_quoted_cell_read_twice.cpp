// Replay: the CSV stream reader unescapes a quoted cell in place, so reading the same cell a second time (same key requested twice)
// fails with "Missing starting double-quotes", while the memory reader returns the value both times.
#include "bitserializer/bit_serializer.h"
#include "bitserializer/csv_archive.h"
#include <sstream>
#include <iostream>
using namespace BitSerializer;
struct Row {
	std::string a, again;
	template <class A> void Serialize(A& ar) { ar << KeyValue("A", a); ar << KeyValue("A", again); }
};
int main() {
	const std::string csv = "A,B\r\n\"x,\"\"y\"\"\",2\r\n";
	int rc = 0;
	{ Row r[1]; try { LoadObject<Csv::CsvArchive>(r, csv); std::cout << "memory: " << r[0].a << " | " << r[0].again << "\n"; } catch (const std::exception& e) { std::cout << "memory throws: " << e.what() << "\n"; rc |= 1; } }
	{ Row r[1]; std::istringstream is(csv); try { LoadObject<Csv::CsvArchive>(r, is); std::cout << "stream: " << r[0].a << " | " << r[0].again << "\n"; } catch (const std::exception& e) { std::cout << "stream throws: " << e.what() << "\n"; rc |= 2; } }
	return rc;
}
