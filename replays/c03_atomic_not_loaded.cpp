// replay C03/R3.3: absent key must report 'not loaded' and leave the target unchanged (std::atomic member)
#include <iostream>
#include <atomic>
#include "bitserializer/bit_serializer.h"
#include "bitserializer/rapidjson_archive.h"
#include "bitserializer/types/std/atomic.h"
using namespace BitSerializer;
struct S { std::atomic<int> a{42};
  template <class A> void Serialize(A& ar) { ar << KeyValue("a", a, Required()); } };
int main() {
  S s; bool threw = false;
  try { LoadObject<Json::RapidJson::JsonArchive>(s, std::string("{}")); } catch (const ValidationException&) { threw = true; }
  std::cout << "a=" << s.a.load() << " Required fired=" << threw << "\n";
  return (s.a.load() == 42 && threw) ? 0 : 1;
}
