// Replay for C01 (XML adapter): values whose XML rendering is an element without children do not survive save -> load.
#include <iostream>
#include <vector>
#include <map>
#include <optional>
#include "bitserializer/bit_serializer.h"
#include "bitserializer/pugixml_archive.h"
#include "bitserializer/types/std/vector.h"
#include "bitserializer/types/std/map.h"
#include "bitserializer/types/std/optional.h"
using namespace BitSerializer;
using XmlArchive = BitSerializer::Xml::PugiXml::XmlArchive;
int bad = 0;
template <class T> struct W { T v; int after = 5; template <class A> void Serialize(A& a) { a << KeyValue("v", v); a << KeyValue("after", after); } };
template <class T> void rt(const char* nm, const T& value, const T& stale) {
  W<T> m{value}; std::string out;
  try { SaveObject<XmlArchive>(m, out); W<T> back{stale, 0}; LoadObject<XmlArchive>(back, out);
    bool ok = back.v == value && back.after == 5; bad += !ok; std::cout << nm << ": " << out << " -> " << (ok ? "equal OK" : "DIFFERENT VALUE (target kept its old content)") << "\n"; }
  catch (const std::exception& e) { ++bad; std::cout << nm << ": " << out << " -> load throws: " << e.what() << "\n"; }
}
int main() {
  rt<std::string>("empty string", "", "STALE");
  rt<std::string>("string of one space", " ", "STALE");
  rt<std::vector<int>>("empty vector<int>", {}, {9});
  rt<std::vector<std::string>>("vector{\"\"}", {""}, {"STALE"});
  rt<std::map<std::string,int>>("empty map", {}, {{"stale", 1}});
  rt<std::optional<std::string>>("optional(\"\")", std::optional<std::string>(""), std::optional<std::string>("STALE"));
  rt<std::vector<std::vector<int>>>("vector{ {} }", {{}}, {{9}});
  return bad ? 1 : 0;
}
