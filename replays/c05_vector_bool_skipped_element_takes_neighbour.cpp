// C05: MsgPack array [true, "x", false] loaded with MismatchedTypesPolicy::Skip into std::vector<bool>{false,false,false} and into
// std::vector<char-like bool struct>: the skipped element must keep its previous value (false); vector<bool> gave it the value of the
// element before it, because one `bool value` was shared by all iterations and stored back unconditionally.
#include <iostream>
#include <vector>
#include <deque>
#include "bitserializer/bit_serializer.h"
#include "bitserializer/msgpack_archive.h"
#include "bitserializer/types/std/vector.h"
#include "bitserializer/types/std/deque.h"
#include "bitserializer/types/std/bitset.h"
#include <bitset>
using namespace BitSerializer;
using MsgPackArchive = BitSerializer::MsgPack::MsgPackArchive;
int main() {
    const std::string doc("\x93\xc3\xa1x\xc2", 5);
    SerializationOptions opt; opt.mismatchedTypesPolicy = MismatchedTypesPolicy::Skip;
    std::vector<bool> vb{ false, false, false };
    std::deque<bool> db{ false, false, false };      // generic container path, same document
    LoadObject<MsgPackArchive>(vb, doc, opt);
    LoadObject<MsgPackArchive>(db, doc, opt);
    std::cout << "vector<bool>: " << vb[0] << vb[1] << vb[2] << "   deque<bool>: " << db[0] << db[1] << db[2] << "\n";
    if (vb.size() != 3 || vb[1] != false) { std::cout << "MISMATCH: the skipped element of vector<bool> did not keep its previous value\n"; return 1; }
    std::vector<bool> fresh;                          // appended elements: the skipped one must be the default, not the neighbour
    LoadObject<MsgPackArchive>(fresh, doc, opt);
    std::cout << "fresh vector<bool>: " << fresh[0] << fresh[1] << fresh[2] << "\n";
    if (fresh.size() != 3 || fresh[1] != false) { std::cout << "MISMATCH (fresh)\n"; return 1; }
    std::bitset<3> bits;                              // same shared carrier in the bitset loader
    LoadObject<MsgPackArchive>(bits, doc, opt);
    std::cout << "bitset<3>: " << bits[0] << bits[1] << bits[2] << "\n";
    if (bits[1]) { std::cout << "MISMATCH (bitset)\n"; return 1; }
    std::cout << "OK\n"; return 0;
}
