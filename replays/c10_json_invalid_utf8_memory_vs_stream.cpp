// C10: the JSON document {"x":"\xFF"} (a string holding a byte that is not UTF-8) loaded into a class with a std::string field:
// from memory it is accepted (RapidJSON parses UTF8 -> UTF8 without validating, the bytes reach the field); from a std::istream the
// adapter parses AutoUTF -> UTF8, RapidJSON transcodes and refuses the document: ParsingException. Different category of outcome for the
// same document depending on the kind of input. (A std::wstring field: SerializationException(UtfEncodingError) from memory,
// ParsingException from the stream.)
#include <iostream>
#include <sstream>
#include "bitserializer/bit_serializer.h"
#include "bitserializer/rapidjson_archive.h"
using namespace BitSerializer;
using JsonArchive = BitSerializer::Json::RapidJson::JsonArchive;
struct S { std::string x; template <class A> void Serialize(A& a) { a << KeyValue("x", x); } };
static std::string outcome(const std::string& doc, bool stream) {
    S s;
    try { if (stream) { std::istringstream is(doc); LoadObject<JsonArchive>(s, is); } else { LoadObject<JsonArchive>(s, doc); } return "loaded"; }
    catch (const ParsingException&) { return "ParsingException"; }
    catch (const SerializationException&) { return "SerializationException"; }
}
int main() {
    const std::string doc("{\"x\":\"\xFF\"}");
    const auto m = outcome(doc, false), st = outcome(doc, true);
    std::cout << "memory: " << m << std::endl << "stream: " << st << std::endl;
    if (m != st) { std::cout << "MISMATCH: outcome depends on the kind of input" << std::endl; return 1; }
    std::cout << "OK" << std::endl; return 0;
}
