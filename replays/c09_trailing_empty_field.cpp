// Replay: a record whose last field is empty and that ends the input without a line break ("1," - RFC 4180: two fields, the second empty;
// "the last record in the file may or may not have an ending line break"). The memory reader drops the empty last field and reports a
// field-count mismatch; the stream reader loads the record.
#include "bitserializer/bit_serializer.h"
#include "bitserializer/csv_archive.h"
#include "bitserializer/types/std/vector.h"
#include <sstream>
#include <iostream>
using namespace BitSerializer;
struct Row { int a = -1; std::string b = "?"; template <class A> void Serialize(A& ar) { ar << KeyValue("a", a) << KeyValue("b", b); } };
int main() {
	const std::string csv = "a,b\n1,";
	int rc = 0;
	{ std::vector<Row> r; try { LoadObject<Csv::CsvArchive>(r, csv); std::cout << "memory: rows=" << r.size() << " a=" << r.at(0).a << " b=[" << r.at(0).b << "]\n"; } catch (const std::exception& e) { std::cout << "memory throws: " << e.what() << "\n"; rc |= 1; } }
	{ std::vector<Row> r; std::istringstream is(csv); try { LoadObject<Csv::CsvArchive>(r, is); std::cout << "stream: rows=" << r.size() << " a=" << r.at(0).a << " b=[" << r.at(0).b << "]\n"; } catch (const std::exception& e) { std::cout << "stream throws: " << e.what() << "\n"; rc |= 2; } }
	return rc;
}
