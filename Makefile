# Builds the fact extractor (libTooling) used by every check. Offline, ~25 s.
LLVM_CXXFLAGS := $(shell llvm-config-14 --cxxflags)
bin/bsfacts: tools/bsfacts.cc
	mkdir -p bin
	clang++ $(LLVM_CXXFLAGS) -std=c++17 -fno-rtti -O1 -w tools/bsfacts.cc -o bin/bsfacts /usr/lib/llvm-14/lib/libclang-cpp.so.14 /usr/lib/llvm-14/lib/libLLVM-14.so
all: bin/bsfacts
clean:
	rm -rf bin .cache out
.PHONY: all clean
