"""Decision table of the RapidJSON adapter's LoadValue over the kinds of JSON value (shared by C08 R8.10 and C04 R4.7).

RapidJSON classifies a parsed number by flags (trusted base, rapidjson/document.h): a number token without fraction/exponent is an
Int / Uint / Int64 / Uint64 (several at once when the value fits), anything else a Double; IsNumber covers all of them; GetInt64 needs
IsInt64, GetUint64 needs IsUint64, GetDouble is valid for every number (it converts), IsLosslessDouble is false for 64-bit integers that
are not exactly representable. The rule interprets every instantiation of LoadValue once per kind and compares what it does with:
  integral / bool target : integer kinds -> range-checked conversion of GetInt64() (kinds with IsInt64) or GetUint64() (kinds with IsUint64);
                           true/false -> conversion of GetBool(); a Double -> mismatched-types policy
  floating target        : every number kind, however it is spelled, -> conversion of GetDouble()
  string target          : a string -> (GetString, GetStringLength); anything else -> mismatched-types policy
  arithmetic target      : null -> "not loaded" without the policy (nullptr_t target: loaded); string target: not loaded (policy or not)
  any target             : array/object -> mismatched-types policy"""
from bsv.dtab import TOP, Interp, Model, Sym
from bsv.facts import AnalysisBroken, strip_targs

# kind -> set of true Is*() predicates
KINDS = {
    'null': {'IsNull'},
    'false': {'IsBool', 'IsFalse'},
    'true': {'IsBool', 'IsTrue'},
    'int <0 (32 bit)': {'IsNumber', 'IsInt', 'IsInt64', 'IsLosslessDouble'},
    'int 0..2^31-1': {'IsNumber', 'IsInt', 'IsUint', 'IsInt64', 'IsUint64', 'IsLosslessDouble'},
    'uint 2^31..2^32-1': {'IsNumber', 'IsUint', 'IsInt64', 'IsUint64', 'IsLosslessDouble'},
    'int64 < -2^31, exact as double': {'IsNumber', 'IsInt64', 'IsLosslessDouble'},
    'int64 < -2^31, not exact as double': {'IsNumber', 'IsInt64'},
    'int64 2^32..2^63-1, exact as double': {'IsNumber', 'IsInt64', 'IsUint64', 'IsLosslessDouble'},
    'int64 2^32..2^63-1, not exact as double': {'IsNumber', 'IsInt64', 'IsUint64'},
    'uint64 >= 2^63, exact as double': {'IsNumber', 'IsUint64', 'IsLosslessDouble'},
    'uint64 >= 2^63, not exact as double': {'IsNumber', 'IsUint64'},
    'double (fraction or exponent)': {'IsNumber', 'IsDouble', 'IsLosslessDouble', 'IsLosslessFloat?'},
    'string': {'IsString'},
    'array': {'IsArray'},
    'object': {'IsObject'},
}
GETTER_NEEDS = {'GetInt': 'IsInt', 'GetUint': 'IsUint', 'GetInt64': 'IsInt64', 'GetUint64': 'IsUint64', 'GetDouble': 'IsNumber', 'GetFloat': 'IsNumber',
                'GetBool': 'IsBool', 'GetString': 'IsString', 'GetStringLength': 'IsString'}
INTEGER_KINDS = [k for k in KINDS if k.startswith(('int', 'uint'))]


class JsonLoadModel(Model):
    def __init__(self, kind, value_param):
        self.kind = kind
        self.flags = KINDS[kind]
        self.value_param = value_param

    def initial_store(self, it, key):
        return TOP

    def compare(self, it, fr, n, op, a, b):
        return Sym(('GUARD', 'CMP@%s' % fr.f.loc(n)))

    def construct(self, it, fr, n, depth):
        vals = [it.ev(fr, a, depth) for a in n.get('c', ())]
        gets = [v.tag[1] for v in vals if isinstance(v, Sym) and isinstance(v.tag, tuple) and v.tag[0] == 'GET']
        if gets:
            return Sym(('GET', '+'.join(gets)))
        return TOP

    def on_store(self, it, fr, key, v):
        return None

    def primitive(self, it, fr, n, callee, depth):
        name = callee['n']
        q = strip_targs(callee['q'])
        obj, args = it.call_args(fr, n)
        if q.startswith('rapidjson::GenericValue'):
            if name.startswith('Is'):
                if name not in ('IsNull', 'IsBool', 'IsFalse', 'IsTrue', 'IsNumber', 'IsInt', 'IsUint', 'IsInt64', 'IsUint64', 'IsDouble', 'IsLosslessDouble',
                                'IsString', 'IsArray', 'IsObject'):
                    raise AnalysisBroken('R8.10: rapidjson predicate %s is not in the kind table' % name)
                return 1 if name in self.flags else 0
            if name.startswith('Get'):
                need = GETTER_NEEDS.get(name)
                if need is None:
                    raise AnalysisBroken('R8.10: rapidjson getter %s is not in the kind table' % name)
                it.act('GET', name, need in self.flags)
                return Sym(('GET', name))
        if name in ('forward', 'move') and q.startswith('std::') and args:
            return it.ev(fr, args[0], depth)          # a helper that forwards the getter's result to the conversion
        if name == 'ConvertByPolicy':
            src = it.ev(fr, args[0], depth) if args else TOP
            it.act('CONVERT', src.tag[1] if isinstance(src, Sym) and isinstance(src.tag, tuple) and src.tag[0] == 'GET' else '?')
            return Sym('CONVERTED')
        if name == 'HandleMismatchedTypesPolicy':
            it.act('MISMATCH')
            return TOP
        for a in args:
            it.ev(fr, a, depth)
        if callee.get('repo') and not q.startswith('BitSerializer::Convert'):
            return NotImplemented
        return TOP


class JLInterp(Interp):
    def cast_other(self, v, t):
        return v

    def coerce(self, v, t):
        return v


def expected(target, kind):
    flags = KINDS[kind]
    if kind == 'null':
        if target == 'string':
            return ('either',)      # the string overload hands null to the mismatched-types policy; the property does not fix this case
        return ('ret', 1 if target == 'nullptr' else 0)
    if target in ('integral', 'bool'):
        if kind in INTEGER_KINDS:
            return ('convert', {'GetInt64'} if 'IsInt64' in flags else {'GetUint64'}) if not ('IsInt64' in flags and 'IsUint64' in flags) else ('convert', {'GetInt64', 'GetUint64'})
        if kind in ('true', 'false'):
            return ('convert', {'GetBool'})
        return ('mismatch',)
    if target == 'floating':
        if 'IsNumber' in flags:
            return ('convert', {'GetDouble'})
        return ('mismatch',)
    if target == 'string':
        if kind == 'string':
            return ('string',)
        return ('mismatch',)
    return ('mismatch',)


def target_of(f):
    t = f.tu['types'][f.params[1]['t']].replace('&', '').strip()
    if 'basic_string_view' in t:
        return 'string', t
    if t in ('float', 'double', 'long double'):
        return 'floating', t
    if t == 'bool':
        return 'bool', t
    if 'nullptr_t' in t:
        return 'nullptr', t
    return 'integral', t


def check(prog, rep, rule):
    fs = [f for f in prog.funcs.values() if f.name == 'LoadValue' and 'RapidJsonScopeBase' in f.q and f.body is not None and len(f.params) == 3]
    if len(fs) < 6:
        raise AnalysisBroken('%s: only %d instantiations of RapidJsonScopeBase::LoadValue in the witness units' % (rule, len(fs)))
    for f in sorted(fs, key=lambda g: g.id):
        rep.touch(f)
        target, tname = target_of(f)
        bad = []
        for kind in KINDS:
            model = JsonLoadModel(kind, f.params[1]['d'])
            it = JLInterp(prog, model, max_depth=2, max_paths=40)

            def init(it_, fr):
                for p in f.params:
                    fr.env[p['d']] = TOP
            exp = expected(target, kind)
            for p in it.run(f, init):
                acts = p.actions
                invalid = [a[1] for a in acts if a[0] == 'GET' and not a[2]]
                conv = [a[1] for a in acts if a[0] == 'CONVERT']
                mism = any(a[0] == 'MISMATCH' for a in acts)
                gets = set(a[1] for a in acts if a[0] == 'GET')
                got = None
                if invalid:
                    got = 'calls %s() on a value that is not of that kind (rapidjson asserts / returns garbage)' % invalid[0]
                elif exp[0] == 'convert':
                    if mism or not conv:
                        got = 'is refused (mismatched-types policy / not loaded)'
                    elif not (set(conv) <= exp[1]):
                        got = 'is converted from %s()' % conv[0]
                    elif not (p.outcome[0] == 'RET' and isinstance(p.outcome[1], Sym) and p.outcome[1].tag == 'CONVERTED'):
                        got = 'the result of the conversion is not what is returned'
                elif exp[0] == 'mismatch':
                    if conv or not mism:
                        got = 'is not handed to the mismatched-types policy (%s)' % ('converted from %s()' % conv[0] if conv else 'returns %s' % (p.outcome,))
                    elif p.outcome[0] == 'RET' and p.outcome[1] not in (0, False):
                        got = 'is reported as loaded after the mismatched-types policy'
                elif exp[0] == 'ret':
                    if mism or conv or p.outcome[0] != 'RET' or bool(p.outcome[1]) != bool(exp[1]) or not isinstance(p.outcome[1], (int, bool)):
                        got = 'null must be reported as %s without the mismatched-types policy' % ('loaded' if exp[1] else 'not loaded')
                elif exp[0] == 'either':
                    if conv or (p.outcome[0] == 'RET' and p.outcome[1] not in (0, False)):
                        got = 'null is reported as loaded'
                elif exp[0] == 'string':
                    if mism or not {'GetString', 'GetStringLength'} <= gets or p.outcome[0] != 'RET' or p.outcome[1] in (0, False):
                        got = 'a string must be taken with its length (GetString + GetStringLength) and reported as loaded'
                if got:
                    bad.append((kind, got))
        site = 'LoadValue<%s>' % tname
        if bad:
            kinds = sorted(set(k for k, _ in bad))
            rep.finding(rule, '%s|%s' % (site, bad[0][1][:60]), f.loc(), 'JSON %s: a %s value %s; expected: %s'
                        % (site, ' / '.join(kinds[:4]), bad[0][1], expected(target, bad[0][0])), {'kinds': kinds}, func=f.id, count=len(kinds))
        else:
            rep.ok(rule, site, sample={'target': tname, 'kinds': len(KINDS)})
