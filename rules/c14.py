"""C14 - ISO-8601 text of times and durations (structural clause only: the print buffers)."""
import re

from bsv.dtab import TOP, AnalysisBroken, Interp, Struct, Sym
from bsv.facts import strip_targs
from bsv.linear import Lin, le, lt, unsat
from bsv.linmodel import LinInterp, LinModel

PROP = 'C14'
LEVEL = 'other'
UNITS = ['w_convert.cpp', 'w_archives.cpp', 'msgpack_writers.cpp', 'msgpack_readers.cpp']
EXPLANATION = ('Calendar correctness and the exact print/parse round trip are integer arithmetic over 2^64 instants and are NOT decided '
               '(DESIGN.md section 6). Decided is one necessary structural clause of "the text form is the correct date-time": the text is '
               'produced inside its buffer. R14.1: in PrintIsoUtc and PrintDurationPart every character is stored at a position p with '
               'buf <= p < end on every path, over symbolic pointers and a symbolic snprintf/to_chars result (linear constraints): in '
               'particular the cursor is advanced by the snprintf result only after that result was compared with the remaining space '
               '(snprintf returns the length the full text would have). R14.2: the fixed buffers handed to these printers hold the longest '
               'duration text, and the callers use the returned end pointer. R14.3: the era computations of both calendar directions are floor '
               'divisions (bias == divisor - 1) - a necessary condition of calendar correctness for dates before year 0.')
ASSUMPTIONS = ['snprintf returns a negative value or the length of the complete text (C11 7.21.6.5); to_chars returns ptr in [first, last]',
               'PrintSecondsFractions returns nullptr or a pointer in [pos, end]; its callers pass fractions below one second']
TRUSTED = ['clang 14 AST', 'bsfacts', 'bsv/linear.py']

DET = 'BitSerializer::Convert::Detail::'
B, P, E = Lin.sym('B'), Lin.sym('P'), Lin.sym('E')


class PrintModel(LinModel):
    def initial_store(self, it, key):
        return TOP

    def deref(self, it, fr, n, v):
        p = Lin.of(v)
        if p is None:
            it.act('NEED', 'store position is tracked', fr.f.loc(n), False)
            return TOP
        self.need(it, fr, n, 'character is stored inside the buffer', [le(B, p), lt(p, E)])
        return TOP

    def primitive(self, it, fr, n, callee, depth):
        name = callee['n']
        obj, args = it.call_args(fr, n)
        if name == 'snprintf':
            p, sz = Lin.of(it.ev(fr, args[0], depth)), Lin.of(it.ev(fr, args[1], depth))
            for a in args[2:]:
                it.ev(fr, a, depth)
            if p is None or sz is None:
                raise AnalysisBroken('C14: snprintf with untracked buffer arguments at %s' % fr.f.loc(n))
            self.need(it, fr, n, 'snprintf is given a range inside the buffer', [le(B, p), le(0, sz), le(p + sz, E)])
            return self.fresh(it, 'N', -1, None)
        if callee['q'] == 'std::to_chars':
            p, e = Lin.of(it.ev(fr, args[0], depth)), Lin.of(it.ev(fr, args[1], depth))
            for a in args[2:]:
                it.ev(fr, a, depth)
            if p is None or e is None:
                raise AnalysisBroken('C14: to_chars with untracked buffer arguments at %s' % fr.f.loc(n))
            self.need(it, fr, n, 'to_chars is given a range inside the buffer', [le(B, p), le(p, e), le(e, E)])
            st = Struct()
            st.fields['ec'] = 0 if it.choose('TO_CHARS OK') else 75
            q = self.fresh(it, 'R', None, None)
            it.facts.extend([le(p, q), le(q, e)])
            st.fields['ptr'] = q
            return st
        if name == 'PrintSecondsFractions':
            p, e = Lin.of(it.ev(fr, args[0], depth)), Lin.of(it.ev(fr, args[1], depth))
            for a in args[2:]:
                it.ev(fr, a, depth)
            q = self.fresh(it, 'Q', None, None)
            it.facts.extend([le(p, q), le(q, e)])
            return q
        for a in args:
            it.ev(fr, a, depth)
        if obj is not None:
            it.ev(fr, obj, depth)
        return TOP

    def construct(self, it, fr, n, depth):
        vals = [it.ev(fr, a, depth) for a in n.get('c', ())]
        return vals[0] if len(vals) == 1 else TOP


class PrintInterp(LinInterp, Interp):
    pass


def run(prog, rep):
    rep.rule('R14.1', 'PrintIsoUtc / PrintDurationPart: every character is stored inside [buf, end) on every path (symbolic pointers, symbolic '
                      'snprintf / to_chars results); the cursor is advanced by a formatter result only after it was bounded by the space left', floor=6)
    targets = [f for f in prog.funcs.values() if f.body is not None and strip_targs(f.q) in (DET + 'PrintIsoUtc', DET + 'PrintDurationPart')]
    if len(targets) < 2:
        raise AnalysisBroken('anchor vanished: PrintIsoUtc / PrintDurationPart')
    seen = {}
    for f in sorted(targets, key=lambda g: g.id):
        base = strip_targs(f.q).replace(DET, '')
        if seen.get(base, 0) >= 3:
            continue
        seen[base] = seen.get(base, 0) + 1
        rep.touch(f)
        pn = [p['n'] for p in f.params]
        model = PrintModel()
        it = PrintInterp(prog, model, max_depth=0, max_paths=400)

        def init(it_, fr):
            it_.n_fresh = 0
            it_.facts = [le(B, P), le(P, E), le(1, B)]
            ptrs = [p for p in f.params if 't' in p and f.type(p).replace('const ', '').strip() == 'char *']
            if len(ptrs) != 2:
                raise AnalysisBroken('R14.1: %s no longer takes a (cursor, end) pair of char pointers' % f.id[:80])
            for p in f.params:
                if p is ptrs[0]:
                    fr.env[p['d']] = P
                elif p is ptrs[1]:
                    fr.env[p['d']] = E
                else:
                    fr.env[p['d']] = TOP
        agg = {}
        n_paths = 0
        for p in it.run(f, init):
            it.path, it.facts = p, p.facts
            cns = model.cons(it)
            if unsat(cns):
                continue
            n_paths += 1
            for a in p.actions:
                if a[0] == 'NEED':
                    agg.setdefault((a[1], a[2]), []).append(a[3])
            if p.outcome[0] == 'RET':
                r = Lin.of(p.outcome[1])
                from bsv.linear import entails
                ok = r is not None and entails(cns, [le(B, r), le(r, E)])
                agg.setdefault(('returned end pointer lies inside the buffer', f.loc()), []).append(ok)
        if not agg:
            raise AnalysisBroken('R14.1: no store found in %s' % f.id[:100])
        short = '%s<%s>' % (base, f.id.split('|')[0].split('<', 1)[-1][:60])
        for (what, where), oks in sorted(agg.items()):
            if all(oks):
                rep.ok('R14.1', '%s|%s|%s' % (short, what, where), sample={'function': short, 'obligation': what, 'at': where, 'paths': len(oks)})
            else:
                rep.finding('R14.1', '%s|%s' % (base, what), where, '%s: "%s" is not entailed on %d of %d feasible path(s): the formatter result '
                            'moves the cursor beyond the end of the buffer (stack buffer overflow for long texts)'
                            % (short, what, len([o for o in oks if not o]), len(oks)), func=f.id)

    check_floor_bias(prog, rep)

    rep.rule('R14.4', 'time_point / duration -> binary timestamp: the seconds component is rounded toward minus infinity so that the nanoseconds stay in '
                      '[0, 999999999] (shared with C06 R6.3): negative sub-second values survive the MsgPack form', floor=4)
    from rules import c06
    c06.check_floor_split(prog, rep, 'R14.4')
    check_print_overflow(prog, rep)
    # the binary timestamp form of both MsgPack writers / readers (tables shared with C06 R6.1 and C07 R7.1)
    rep.rule('R14.5', 'MsgPack binary form of a timestamp, both writers: over the (seconds, nanoseconds) cells the layout (timestamp 32 / 64 / 96) is '
                      'the one that holds the value - no seconds bits are dropped by choosing a narrower layout', floor=20)
    orders = c06.check_timestamp_writers(prog, rep, 'R14.5')
    rep.rule('R14.6', 'MsgPack binary form of a timestamp, both readers: every timestamp layout is decoded into (seconds, nanoseconds) with the '
                      'widths, masks and shifts of the layout', floor=6)
    rep.rule('R14.6x', 'MsgPack timestamp readers leave the cursor behind the value', floor=6)
    from rules import msgpack_tables
    if len(orders) != 1:
        rep.finding('R14.6', 'timestamp 96|field order of the writers', 'src/msgpack/msgpack_writers.cpp', 'the MsgPack writers emit the two fields of the '
                    '96-bit timestamp in different orders (%s): no reader can load both back' % sorted(orders))
        orders = {('NS', 'SEC')}
    first = 'seconds' if list(orders)[0][:1] == ('SEC',) else 'nanoseconds'
    # the readers must take the 96-bit layout in the order the library's own writers emit it (conformance of that order is C06/C07's business)
    msgpack_tables.check_accept_tables(prog, rep, 'R14.6', 'R14.6x', families=('timestamp',), declare=False, value_types=False, ts96_first=first)

    rep.rule('R14.2', 'callers: the buffer passed to PrintIsoUtc / the duration printer is a local char array passed together with its own end', floor=3)
    n2 = 0
    for f in sorted(prog.funcs.values(), key=lambda g: g.id):
        if f.body is None or not f.relfile.endswith('conversion_detail/convert_chrono.h'):
            continue
        for n in f.walk():
            if n['k'] != 'CallExpr':
                continue
            c = f.callee(n) or {}
            if c.get('n') != 'PrintIsoUtc':
                continue
            n2 += 1
            rep.touch(f)
            p1, p2 = ptr_off(f, n['c'][2]), ptr_off(f, n['c'][3])
            if p1 is not None and p2 is not None and p1[0] == p2[0] and p1[1] == 0 and p1[2] is not None and 0 < p2[1] <= p1[2]:
                rep.ok('R14.2', '%s|PrintIsoUtc(buf, buf + %d) of char[%d]|%s' % (f.id.split('|')[0][-60:], p2[1], p1[2], f.loc(n)))
            else:
                rep.finding('R14.2', 'PrintIsoUtc caller|buffer', f.loc(n), 'PrintIsoUtc is not called with the begin of one local char array and an end inside it '
                            '(begin = %s, end = %s as (array, offset, length))' % (p1, p2), func=f.id)
    if n2 < 2:
        raise AnalysisBroken('R14.2: callers of PrintIsoUtc not found')


def check_print_overflow(prog, rep):
    """time_point -> ISO text (the function with Hinnant's civil-from-days arithmetic), every instantiated precision: interpreted over linear
    forms with the source count ranging over its whole type (rules/chronolin.py); no signed operation - including the conversions that
    std::chrono performs when the value is split into days and time of day - leaves its type on a path that goes on to print. Unsigned
    locals computed by unsigned arithmetic (day-of-era .. month) are abstracted to their type range: their exact values are not claimed."""
    from rules import chronolin as CL
    rep.rule('R14.7', 'time_point -> ISO text, every instantiated precision and representation: splitting into days / time of day and the era '
                      'arithmetic cause no signed overflow for any representable time point (or the value is refused with an exception first)', floor=5)
    # the printer: To(const time_point&, basic_string&) of convert_chrono.h (the civil-from-days arithmetic may live in a helper it calls)
    fs = [f for f in prog.funcs.values() if f.body is not None and f.relfile.endswith('conversion_detail/convert_chrono.h') and f.name == 'To'
          and len(f.params) == 2 and 'std::chrono::time_point<' in f.tu['types'][f.params[0]['t']]
          and 'basic_string<' in f.tu['types'][f.params[1]['t']] and not f.tu['types'][f.params[1]['t']].startswith('const')]
    if not fs:
        raise AnalysisBroken('anchor vanished: To(time_point, string&) with the days -> civil date arithmetic')
    seen = set()
    for f in sorted(fs, key=lambda g: g.id):
        src = CL.duration_of(f.tu['types'][f.params[0]['t']])
        if src is None or src in seen:
            continue
        seen.add(src)
        rep.touch(f)
        model = CL.ChronoModel(CL.rep_range(src[0]))

        def setup(it, fr):
            fr.env[f.params[0]['d']] = CL.X
            fr.env[f.params[1]['d']] = TOP
        ev = {}
        n_paths = 0
        for p in CL.run(prog, f, model, setup, max_paths=3000, max_depth=2):
            n_paths += 1
            for a in p.actions:
                if a[0] == 'OVERFLOW':
                    ev.setdefault((a[2], a[1]), a)
        site = 'To(time_point)|%s x %s' % src
        if ev:
            first = sorted(ev.values(), key=lambda a: a[2])[0]
            rep.finding('R14.7', site, first[2], 'printing a time_point<%s, period %s s>: %s (%s, X = the count of the time point) is not representable in %s for some '
                        'time point - signed overflow, undefined behaviour' % (src[0], src[1], first[1], first[3], first[4]),
                        {'events': [str(a[:5]) for a in sorted(ev.values(), key=lambda a: a[2])[:6]], 'instantiation': f.id}, func=f.id)
        else:
            rep.ok('R14.7', site, sample={'precision': '%s x %s' % src, 'paths': n_paths})


def ptr_off(f, e, depth=0):
    """(array decl, element offset, array length) of a pointer expression into a local char array, or None"""
    from bsv.expr import resolve
    from bsv.facts import strip
    e = resolve(f, e)
    if e is None or depth > 6:
        return None
    k = e['k']
    if k == 'DeclRefExpr':
        m = re.search(r'char\s*\[(\d+)\]', f.type(e))
        if m:
            return (e.get('d'), 0, int(m.group(1)))
        return None
    if k == 'BinaryOperator' and e.get('op') in ('+', '-'):
        for a, b in ((e['c'][0], e['c'][1]), (e['c'][1], e['c'][0])):
            pa = ptr_off(f, a, depth + 1)
            cb = strip(b)
            if pa is not None and cb is not None and 'cv' in cb:
                if e['op'] == '-' and a is not e['c'][0]:
                    return None
                return (pa[0], pa[1] + (cb['cv'] if e['op'] == '+' else -cb['cv']), pa[2])
        return None
    if k == 'CallExpr' and (f.callee(e) or {}).get('q') in ('std::end', 'std::cend', 'std::begin', 'std::cbegin', 'std::data') and len(e['c']) == 2:
        pa = ptr_off(f, e['c'][1], depth + 1)
        if pa is None:
            return None
        return (pa[0], pa[2] if f.callee(e)['n'] in ('end', 'cend') else 0, pa[2])
    if k == 'UnaryOperator' and e.get('op') == '&':
        sub = strip(e['c'][0])
        if sub is not None and sub['k'] == 'ArraySubscriptExpr':
            pa = ptr_off(f, sub['c'][0], depth + 1)
            ix = strip(sub['c'][1])
            if pa is not None and ix is not None and 'cv' in ix:
                return (pa[0], pa[1] + ix['cv'], pa[2])
    return None


def check_floor_bias(prog, rep):
    """Hinnant's civil-date algorithms divide with truncation and correct negative operands by a bias: (x >= 0 ? x : x - B) / K is the floor
    division of x by K exactly when B == K - 1. A wrong bias shifts one day in 400 years (dates before year 0)."""
    from bsv.facts import child, strip
    rep.rule('R14.3', 'every "(x >= 0 ? x : x - B) / K" in convert_chrono.h is a floor division: B == K - 1 (era computations of both directions)', floor=2)
    seen = set()
    for f in sorted(prog.funcs.values(), key=lambda g: g.id):
        if f.body is None or not f.relfile.endswith('conversion_detail/convert_chrono.h'):
            continue
        for n in f.walk():
            if n['k'] != 'BinaryOperator' or n.get('op') != '/':
                continue
            lhs = strip(n['c'][0])
            while lhs is not None and lhs['k'] == 'ParenExpr':
                lhs = strip(lhs['c'][0])
            if lhs is None or lhs['k'] != 'ConditionalOperator':
                continue
            cond, tv, fv = strip(lhs['c'][0]), strip(lhs['c'][1]), strip(lhs['c'][2])
            while cond is not None and cond['k'] == 'ParenExpr':
                cond = strip(cond['c'][0])
            if cond is None or cond['k'] != 'BinaryOperator' or cond.get('op') != '>=' or strip(cond['c'][1]).get('cv') != 0:
                continue
            if fv is None or fv['k'] != 'BinaryOperator' or fv.get('op') != '-':
                continue
            def const_of(x):
                while x is not None:
                    if 'cv' in x:
                        return x['cv']
                    if x['k'] in ('ImplicitCastExpr', 'ParenExpr', 'CXXStaticCastExpr', 'ConstantExpr') and x.get('c'):
                        x = x['c'][0]
                    else:
                        return None
                return None
            K = const_of(n['c'][1])
            Bv = const_of(fv['c'][1])
            x1, x2, x3 = strip(cond['c'][0]), tv, strip(fv['c'][0])
            same = x1 is not None and x2 is not None and x3 is not None and x1.get('d') is not None and x1.get('d') == x2.get('d') == x3.get('d')
            key = (f.loc(n), K, Bv)
            if key in seen:
                continue
            seen.add(key)
            rep.touch(f)
            var = x1.get('n') if x1 is not None else '?'
            if not same or K is None or Bv is None:
                rep.finding('R14.3', 'floor division|%s|shape' % var, f.loc(n), 'biased division at %s is not of the form (x >= 0 ? x : x - B) / K over one variable '
                            'with constant B and K' % f.loc(n), func=f.id)
            elif Bv != K - 1:
                rep.finding('R14.3', 'floor division|%s|bias' % var, f.loc(n), 'era computation (%s >= 0 ? %s : %s - %d) / %d is not the floor division: the bias must be %d; '
                            'for %s = -%d*k the result is one too low, the date is printed/parsed one day off' % (var, var, var, Bv, K, K - 1, var, K), func=f.id)
            else:
                rep.ok('R14.3', '(%s >= 0 ? %s : %s - %d) / %d at %s' % (var, var, var, Bv, K, f.loc(n)), sample={'variable': var, 'bias': Bv, 'divisor': K})
