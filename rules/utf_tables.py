"""E3 over code-unit classes: abstract interpretation of the UTF transcoders (first sequence of the input).

The first code unit is exact or an interval class, the second an interval class from the Unicode well-formedness table, further
units are 'valid continuation' classes; decoded symbols and emitted units are intervals, so lead-byte classification, shift/mask
arithmetic, validity guards and error accounting are all visible without executing anything."""
from bsv.dtab import TOP, AnalysisBroken, Interp, Model, Pos, Sym, Struct
from bsv.facts import strip, strip_targs
from bsv import interval as I
from bsv.interval import Iv

NS = 'BitSerializer::Convert::Utf::'


class UtfModel(Model):
    unroll_loops = True

    def __init__(self, prog, units):
        self.prog = prog
        self.units = units      # list of Iv for unit 0,1,2,...

    # ------------------------------------------------------------ helpers
    def guarded(self, it, k):
        for lab, d in it.path.guards:
            if lab == 'AVAIL@%s' % k and d:
                return True
        return False

    def unit_at(self, k):
        if isinstance(k, int) and 0 <= k < len(self.units):
            u = self.units[k]
            return Iv(u.lo, u.hi, 'U%d' % k)
        return TOP

    def deref(self, it, fr, n, v):
        if isinstance(v, Pos):
            if not (isinstance(v.k, int) and self.guarded(it, v.k)):
                it.act('UNGUARDED', 'in[%s]' % v.k, fr.f.loc(n))
            u = self.unit_at(v.k)
            it.act('READUNIT', v.k)
            if isinstance(u, Iv):
                return I.cast(u, fr.f.type(n))
            return TOP
        return TOP

    def compare(self, it, fr, n, op, a, b):
        for x, y, o in ((a, b, op), (b, a, {'<': '>', '>': '<', '<=': '>=', '>=': '<=', '==': '==', '!=': '!='}[op])):
            if isinstance(x, Pos) and isinstance(y, Sym) and y.tag == 'END':
                lab = 'AVAIL@%s' % x.k
                if o == '!=':
                    return Sym(('GUARD', lab))
                if o == '==':
                    # decided by (and recorded as) the availability guard
                    for l, d in it.path.guards:
                        if l == lab:
                            return 0 if d else 1
                    d = it.choose(lab)
                    return 0 if d else 1
        ia, ib = I.as_iv(a), I.as_iv(b)
        if ia is not None and ib is not None:
            r = I.compare(op, ia, ib)
            if r is not None:
                return r
            return Sym(('GUARD', 'IV:%r%s%r@%s' % (ia, op, ib, fr.f.loc(n))))
        nm = None
        for x in (n['c'][0], n['c'][1]):
            s = strip(x)
            if s is not None and s['k'] in ('MemberExpr', 'DeclRefExpr'):
                nm = s.get('m') or s.get('n')
        if nm and 'olicy' in nm:
            return Sym(('GUARD', 'POLICY:%s%s' % (nm, op)))
        return Sym(('GUARD', 'VAR:%s%s@%s' % (nm, op, fr.f.loc(n))))

    def arith(self, it, fr, n, op, a, b):
        if isinstance(a, Pos) and isinstance(b, int) and op in ('+', '-'):
            return Pos(a.k + b if op == '+' else a.k - b) if isinstance(a.k, int) else Pos(None)
        ia, ib = I.as_iv(a), I.as_iv(b)
        if ia is None or ib is None:
            return TOP
        r = I.binop(op, ia, ib)
        if r is None:
            return TOP
        if fr is not None and n is not None and 't' in n:
            r = I.cast(r, fr.f.type(n))
        return r

    def construct(self, it, fr, n, depth):
        vals = [it.ev(fr, a, depth) for a in n.get('c', ())]
        t = fr.f.type(n)
        if 'UtfEncodingResult' in t and len(vals) == 3:
            code, pos, cnt = vals
            return Sym(('RESULT', code if isinstance(code, int) else 'T', pos.k if isinstance(pos, Pos) else 'T',
                        cnt if isinstance(cnt, int) else 'T'))
        if len(vals) == 1:
            return vals[0]
        return TOP

    def emit(self, it, v):
        iv = I.as_iv(v)
        if iv is None:
            it.act('EMIT', 'T')
        else:
            it.act('EMIT', iv.lo, iv.hi)

    def primitive(self, it, fr, n, callee, depth):
        q = strip_targs(callee['q'])
        name = callee['n']
        obj, args = it.call_args(fr, n)
        if q.startswith('std::basic_string'):
            ov = it.ev(fr, obj, depth) if obj is not None else TOP
            is_out = isinstance(ov, Sym) and ov.tag == 'OUT'
            if name == 'push_back' and is_out:
                self.emit(it, it.ev(fr, args[0], depth))
                return TOP
            if name == 'append' and is_out:
                a0 = strip(args[0], casts=False)
                lst = None
                for x in fr.f.walk(args[0]):
                    if x['k'] == 'InitListExpr':
                        lst = x
                        break
                if lst is not None:
                    for c in lst['c']:
                        self.emit(it, it.ev(fr, c, depth))
                    return TOP
                vals = [it.ev(fr, a, depth) for a in args]
                if len(vals) == 1 and isinstance(vals[0], Sym) and vals[0].tag == 'MARK':
                    it.act('EMITMARK')
                    return TOP
                if len(vals) == 2 and isinstance(vals[0], Pos):
                    it.act('COPY', vals[0].k, 'END' if isinstance(vals[1], Sym) and vals[1].tag == 'END' else 'T')
                    return TOP
                it.act('EMIT', 'T')
                return TOP
            if name in ('size', 'length'):
                return TOP
            return TOP
        if q.endswith('GetDefaultErrorMark'):
            return Sym('MARK')
        if not callee.get('repo'):
            for a in args:
                it.ev(fr, a, depth)
            return TOP
        return NotImplemented

    def after_first_iteration(self, it, fr, n):
        # value of the input iterator and of the error counter after the first sequence
        pin = None
        cnt = None
        for p in fr.f.params:
            if p['n'] == 'in':
                v = fr.env.get(p['d'])
                pin = v.k if isinstance(v, Pos) else 'T'
        for x in fr.f.walk():
            if x['k'] == 'DeclStmt':
                for d in x.get('decls', ()):
                    if d['n'] == 'invalidSequencesCount' and d['d'] in fr.env:
                        cnt = fr.env[d['d']]
        if not any(a[0] == 'SEQ_END' for a in it.path.actions):
            it.act('SEQ_END', pin, cnt if isinstance(cnt, int) else ('T' if cnt is not None else None))

    def cast_unknown(self, v, t):
        return v


class UtfInterp(Interp):
    def cast_other(self, v, t):
        if isinstance(v, Iv):
            return I.cast(v, t)
        return v

    def coerce(self, v, t):
        if isinstance(v, Iv):
            return I.cast(v, t)
        return Interp.coerce(self, v, t)

    def ev_cast(self, fr, n, depth):
        v = Interp.ev_cast(self, fr, n, depth)
        return v


def run(prog, f, units):
    model = UtfModel(prog, units)
    it = UtfInterp(prog, model, max_depth=4, max_paths=600)

    def init(it_, fr):
        for p in f.params:
            nm = p['n']
            pt = f.tu['types'][p['t']]
            if nm == 'in':
                fr.env[p['d']] = Pos(0)
            elif nm == 'end':
                fr.env[p['d']] = Sym('END')
            elif nm == 'outStr':
                fr.env[p['d']] = Sym('OUT')
            elif nm == 'errorMark':
                fr.env[p['d']] = Sym('MARK')
            else:
                fr.env[p['d']] = TOP
    return it.run(f, init)


def first_sequence(path):
    """(emitted units, marks, consumed, error count, outcome) of the first sequence on this path, or None if input was insufficient"""
    emits = []
    marks = 0
    consumed = None
    count = None
    outcome = None
    unguarded = []
    for a in path.actions:
        if a[0] == 'EMIT':
            emits.append(a[1:] if a[1] != 'T' else ('T',))
        elif a[0] == 'EMITMARK':
            marks += 1
        elif a[0] == 'UNGUARDED':
            unguarded.append(a[1:])
        elif a[0] == 'SEQ_END':
            consumed, count = a[1], a[2]
            outcome = 'next'
            break
    if outcome is None and path.outcome[0] == 'RET':
        rv = path.outcome[1]
        if isinstance(rv, Sym) and isinstance(rv.tag, tuple) and rv.tag[0] == 'RESULT':
            outcome = ('ret', rv.tag[1], rv.tag[2], rv.tag[3])
        else:
            outcome = ('ret', 'T', 'T', 'T')
    return tuple(emits), marks, consumed, count, outcome, tuple(unguarded)


def find_codec(prog, cls, name, in_type, out_char):
    """instantiation of Utf::<cls>::<name> with raw-pointer input of in_type and std::basic_string<out_char> output"""
    out = []
    for f in prog.funcs.values():
        if f.q != NS + cls + '::' + name or len(f.params) < 3:
            continue
        t0 = f.tu['types'][f.params[0]['t']]
        t2 = f.tu['types'][f.params[2]['t']]
        if t0.replace(' ', '') == ('const' + in_type + '*').replace(' ', '') and ('basic_string<%s>' % out_char) in t2:
            out.append(f)
    if len(out) != 1:
        raise AnalysisBroken('anchor: Utf::%s::%s(const %s*, ..., basic_string<%s>&) has %d instantiations in the analysed program (witness w_convert.cpp)'
                             % (cls, name, in_type, out_char, len(out)))
    return out[0]
