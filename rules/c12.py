"""C12 - ill-formed UTF input is reported or replaced per policy, never propagated (abstract interpretation over code-unit classes)."""
from rules import utf_checks as K

PROP = 'C12'
LEVEL = 'other'
EXPLANATION = ('The cross-width transcoders (UTF-8 decode to 16/32 bit, UTF-8 encode from 16/32 bit, UTF-16 decode to 32 bit, UTF-16 encode '
               'from 32 bit) are interpreted abstractly over a partition of the first two code units taken from the Unicode standard '
               '(Table 3-7, D91). For every ill-formed class the first sequence must not be emitted: it is counted once and replaced by the '
               'mark (skip) or reported at its start position (fail) [R12.5]; every read of the input is preceded by a bounds test of the same '
               'position and every iteration advances [R12.1/R12.2]; results report the running error count [R12.3]. '
               'Not decided: behaviour after the first ill-formed sequence of a longer text, same-width copies (unvalidated by design).')
ASSUMPTIONS = ['the first sequence of the input is representative: the loops are interpreted for their first iteration from an arbitrary start state',
               'raw-pointer instantiations stand for all iterator types (iterator adapters are checked by C11 R11.1)']
TRUSTED = ['clang 14 AST + constant evaluation', 'bsfacts', 'bsv/dtab.py + bsv/interval.py', 'spec/unicode_spec.py']
UNITS = ['w_convert.cpp']


def run(prog, rep):
    rep.rule('R12.5', 'every ill-formed sequence class (Unicode Table 3-7 / D91) is rejected: no decoded unit is emitted, the error is counted once, '
                      'skip appends the mark, fail returns InvalidSequence at the start of the sequence', floor=400)
    rep.rule('R12.1', 'every dereference of the input iterator is dominated by a test of the same position against end; every loop iteration '
                      'advances the iterator (termination)', floor=900)
    rep.rule('R12.3', 'every result built by a counting transcoder carries the running InvalidSequencesCount', floor=10)
    K.check_utf8_decode(prog, rep, None, 'R12.5', 'R12.1')
    K.check_encode_from32(prog, rep, None, 'R12.5', 'R12.1')
    K.check_from16(prog, rep, None, 'R12.5', 'R12.1')
    K.check_result_count_argument(prog, rep, 'R12.3')
