"""C12 - ill-formed UTF input is reported or replaced per policy, never propagated (abstract interpretation over code-unit classes)."""
from rules import utf_checks as K
from bsv.dtab import AnalysisBroken

PROP = 'C12'
LEVEL = 'other'
EXPLANATION = ('The cross-width transcoders (UTF-8 decode to 16/32 bit, UTF-8 encode from 16/32 bit, UTF-16 decode to 32 bit, UTF-16 encode '
               'from 32 bit) are interpreted abstractly over a partition of the first two code units taken from the Unicode standard '
               '(Table 3-7, D91). For every ill-formed class the first sequence must not be emitted: it is counted once and replaced by the '
               'mark (skip) or reported at its start position (fail) [R12.5]; every read of the input is preceded by a bounds test of the same '
               'position and every iteration advances [R12.1/R12.2]; results report the running error count [R12.3]. '
               'Not decided: behaviour after the first ill-formed sequence of a longer text, same-width copies (unvalidated by design).')
ASSUMPTIONS = ['the first sequence of the input is representative: the loops are interpreted for their first iteration from an arbitrary start state',
               'raw-pointer instantiations stand for all iterator types (iterator adapters are checked by C11 R11.1)']
TRUSTED = ['clang 14 AST + constant evaluation', 'bsfacts', 'bsv/dtab.py + bsv/interval.py', 'spec/unicode_spec.py']
UNITS = ['w_convert.cpp', 'csv_readers.cpp', 'csv_writers.cpp', 'csv_archive.cpp', 'w_archives.cpp']


def run(prog, rep):
    rep.rule('R12.5', 'every ill-formed sequence class (Unicode Table 3-7 / D91) is rejected: no decoded unit is emitted, the error is counted once, '
                      'skip appends the mark, fail returns InvalidSequence at the start of the sequence', floor=400)
    rep.rule('R12.1', 'every dereference of the input iterator is dominated by a test of the same position against end; every loop iteration '
                      'advances the iterator (termination)', floor=900)
    rep.rule('R12.3', 'every result built by a counting transcoder carries the running InvalidSequencesCount', floor=10)
    K.check_utf8_decode(prog, rep, None, 'R12.5', 'R12.1')
    K.check_encode_from32(prog, rep, None, 'R12.5', 'R12.1')
    K.check_from16(prog, rep, None, 'R12.5', 'R12.1')
    K.check_result_count_argument(prog, rep, 'R12.3')
    rep.rule('R12.6', 'the configured error policy and error mark reach the transcoder: a function that holds a policy / mark (its own parameter '
                      'or a data member of its class) never calls a transcoder leaving the corresponding parameter to its default argument', floor=30)
    check_policy_forwarding(prog, rep, 'R12.6')
    rep.rule('R12.7', 'functions that report a transcoding failure by throwing (string values of the archives, Convert::To between string types), '
                      'executed over the three result codes of the transcoder: every code other than Success ends in the exception - a truncated '
                      'last sequence (UnexpectedEnd) is not mistaken for success', floor=6)
    check_failure_reported(prog, rep, 'R12.7')
    check_writer_result(prog, rep, 'R12.8')
    # a tail shorter than one code unit (or an incomplete sequence) at the end of an encoded stream is ill-formed input: it must be replaced by the mark
    # or reported, never left in the window (shared obligation with C13 R13.7 / C02 R2.9)
    from rules import encoded_reader
    encoded_reader.check(prog, rep, ids={'R13.7': 'R12.9'})
    check_archive_stream_policy(prog, rep, 'R12.10')


def check_policy_forwarding(prog, rep, rule):
    """Skip-with-default-mark is the default of every transcoder entry point: a forwarding layer that drops the caller's policy or mark still
    compiles and silently answers with the default one."""
    from bsv.facts import strip
    POLICY = 'BitSerializer::Convert::Utf::UtfEncodingErrorPolicy'

    def kind_of(name, t):
        if t.replace('const ', '').strip() == POLICY:
            return 'policy'
        if 'mark' in (name or '').lower() and t.rstrip().endswith('*'):
            return 'mark'
        return None
    n_sites = 0
    for f in sorted(prog.funcs.values(), key=lambda g: g.id):
        if f.body is None or 'conversion_detail/convert_utf.h' not in f.relfile:
            continue
        have = {}
        for p in f.params:
            if 't' in p:
                k = kind_of(p.get('n'), f.type(p))
                if k:
                    have[k] = 'parameter %s' % p.get('n')
        rec = prog.records.get(f.cls) if f.cls else None
        for fl in (rec or {}).get('fields', []):
            k = kind_of(fl.get('n'), fl.get('t') if isinstance(fl.get('t'), str) else (rec['_tu']['types'][fl['t']] if 't' in fl else ''))
            if k and k not in have:
                have[k] = 'member %s' % fl.get('n')
        if not have:
            continue
        for c in f.walk():
            if c['k'] not in ('CallExpr', 'CXXMemberCallExpr'):
                continue
            s_ = f.callee(c)
            g = prog.funcs.get(s_['id']) if s_ is not None and s_.get('repo') else None
            if g is None or 'conversion_detail/convert_utf.h' not in g.relfile:
                continue
            args = c['c'][1:]
            for i, p in enumerate(g.params):
                k = kind_of(p.get('n'), g.type(p)) if 't' in p else None
                if k is None or k not in have:
                    continue
                n_sites += 1
                rep.touch(f)
                site = '%s -> %s|%s' % ((f.pq if f.cls else f.name), g.name, k)
                a = args[i] if i < len(args) else None
                held_names = set(h.split(' ', 1)[1] for h in [have[k]])
                from bsv.expr import resolve as _res
                ra = _res(f, a) if a is not None else None
                derives = ra is not None and any((x['k'] == 'DeclRefExpr' and x.get('n') in held_names) or (x['k'] == 'MemberExpr' and x.get('m') in held_names)
                                                 for x in f.walk(ra))
                if a is not None and a['k'] != 'CXXDefaultArgExpr' and not derives:
                    rep.finding(rule, site + '|other source', f.loc(c), '%s holds an error %s (%s) but hands %s something that does not derive from it '
                                '(a constant, the library default, another object): the caller\'s configuration is ignored at this site'
                                % (f.pq if f.cls else f.name, k, have[k], g.q.split('::')[-2] + '::' + g.name), func=f.id)
                    continue
                if a is None or a['k'] == 'CXXDefaultArgExpr':
                    rep.finding(rule, site, f.loc(c), '%s holds an error %s (%s) but calls %s without passing it: the callee falls back to its default '
                                '(%s), whatever the caller configured' % (f.pq if f.cls else f.name, k, have[k], g.q.split('::')[-2] + '::' + g.name,
                                                                         'Skip' if k == 'policy' else 'the default error mark'), func=f.id)
                else:
                    rep.ok(rule, site + '|' + f.sym.get('targs', '')[:40] + '|' + f.loc(c))
    if n_sites == 0:
        raise AnalysisBroken('%s: no forwarding call site found' % rule)


def check_failure_reported(prog, rep, rule):
    from bsv.dtab import TOP, Interp, Model, Struct, Sym
    NS = 'BitSerializer::Convert::Utf::'
    codes = (prog.enums.get(NS + 'UtfEncodingErrorCode') or {}).get('items')
    if not codes:
        raise AnalysisBroken('anchor vanished: enum UtfEncodingErrorCode')

    class M(Model):
        def __init__(self, code):
            self.code = code

        def initial_store(self, it, key):
            return TOP

        def construct(self, it, fr, n, depth):
            vals = [it.ev(fr, a, depth) for a in n.get('c', ())]
            return vals[0] if len(vals) == 1 else TOP

        def primitive(self, it, fr, n, callee, depth):
            obj, args = it.call_args(fr, n)
            q = callee.get('q', '')
            if q.startswith(NS) and callee['n'] in ('Transcode', 'Encode', 'Decode'):
                for a in args:
                    it.ev(fr, a, depth)
                it.act('TRANSCODE')
                st = Struct()
                st.fields.update({'ErrorCode': self.code, 'Iterator': Sym('IT'), 'InvalidSequencesCount': TOP})
                return st
            if callee['n'] == 'operator bool' and obj is not None:
                v = it.ev(fr, obj, depth)
                if isinstance(v, Struct) and isinstance(v.fields.get('ErrorCode'), int):
                    return 1 if v.fields['ErrorCode'] == codes['Success'] else 0
            for a in args:
                it.ev(fr, a, depth)
            if obj is not None:
                it.ev(fr, obj, depth)
            return TOP
    n = 0
    seen = set()
    for f in sorted(prog.funcs.values(), key=lambda g: g.id):
        if f.body is None or not f.sym.get('repo') or 'conversion_detail/convert_utf.h' in f.relfile or 'testing_tools' in f.relfile:
            continue
        calls = [c for c in f.walk() if c['k'] in ('CallExpr', 'CXXMemberCallExpr') and (f.callee(c) or {}).get('q', '').startswith(NS)
                 and (f.callee(c) or {}).get('n') in ('Transcode', 'Encode', 'Decode')]
        if not calls or not any(x['k'] == 'CXXThrowExpr' for x in f.walk()):
            continue
        # only functions that look at the result (a discarded result is a conversion of text known to be ASCII - digits, ISO dates)
        from rules.json_render import discarded
        if all(discarded(f, c) for c in calls):
            continue
        key = (f.relfile, f.name, f.loc())
        n += 1
        rep.touch(f)
        bad = None
        for cname in ('Success', 'UnexpectedEnd', 'InvalidSequence'):
            it = Interp(prog, M(codes[cname]), max_depth=0, max_paths=200)

            def init(it_, fr):
                for p in f.params:
                    fr.env[p['d']] = TOP
            for p in it.run(f, init):
                if not any(a[0] == 'TRANSCODE' for a in p.actions):
                    continue
                if cname == 'Success' and p.outcome[0] == 'THROW':
                    bad = 'throws %s although the transcoder reported Success' % p.outcome[1]
                if cname != 'Success' and p.outcome[0] != 'THROW':
                    bad = 'returns normally when the transcoder reports %s: the %s is taken for a successful conversion' % (
                        cname, 'truncated last sequence' if cname == 'UnexpectedEnd' else 'ill-formed sequence')
        site = '%s@%s' % (f.pq if f.cls else f.name, f.loc())
        if bad:
            if key not in seen:
                rep.finding(rule, '%s|%s' % (f.name, bad.split(':')[0][:60]), f.loc(), '%s: %s' % (f.name, bad), {'instantiation': f.id}, func=f.id)
        else:
            rep.ok(rule, site + '|' + f.sym.get('targs', '')[:40])
        seen.add(key)
    if n < 2:
        raise AnalysisBroken('%s: fewer than two reporting callers of the transcoders found (%d)' % (rule, n))


def check_writer_result(prog, rep, rule):
    """CEncodedStreamWriter::Write hands the transcoder's verdict on: when Encode reports a failure (under either policy a truncated last
    sequence is one) nothing is written and that code is returned; the text reaches the stream, and Success is returned, only after a
    successful Encode. The closure is interpreted once per error code with the policy left open."""
    from bsv.dtab import TOP, Interp, Model, Struct, Sym
    NS = 'BitSerializer::Convert::Utf::'
    codes = (prog.enums.get(NS + 'UtfEncodingErrorCode') or {}).get('items')
    if not codes:
        raise AnalysisBroken('anchor vanished: enum UtfEncodingErrorCode')
    rep.rule(rule, 'CEncodedStreamWriter::Write: the text is written and Success returned only when Encode succeeded; when it reports a failure '
                   'nothing is written and its error code is returned (for every policy)', floor=8)

    class M(Model):
        def __init__(self, code):
            self.code = code

        def initial_store(self, it, key):
            return TOP

        def construct(self, it, fr, n, depth):
            vals = [it.ev(fr, a, depth) for a in n.get('c', ())]
            return vals[0] if len(vals) == 1 else TOP

        def primitive(self, it, fr, n, callee, depth):
            obj, args = it.call_args(fr, n)
            q = callee.get('q', '')
            if q.startswith(NS) and callee['n'] == 'Encode':
                for a in args:
                    it.ev(fr, a, depth)
                it.act('TRANSCODE')
                st = Struct()
                st.fields.update({'ErrorCode': self.code, 'Iterator': Sym('IT'), 'InvalidSequencesCount': TOP})
                return st
            if callee['n'] == 'operator bool' and obj is not None:
                v = it.ev(fr, obj, depth)
                if isinstance(v, Struct) and isinstance(v.fields.get('ErrorCode'), int):
                    return 1 if v.fields['ErrorCode'] == codes['Success'] else 0
            if callee['n'] in ('write', 'put', 'operator<<') and 'basic_ostream' in q:
                it.act('WRITE')
            if 'CEncodedStreamWriter' in q and callee['id'] in it.prog.funcs and callee['n'] not in ('Write',) and depth < it.max_depth:
                return NotImplemented        # a private helper of the writer (WriteRaw): interpreted in place
            for a in args:
                it.ev(fr, a, depth)
            if obj is not None:
                it.ev(fr, obj, depth)
            return TOP
    n = 0
    seen = {}
    for f in sorted(prog.funcs.values(), key=lambda g: g.id):
        if f.body is None or 'conversion_detail/convert_utf.h' not in f.relfile or 'CEncodedStreamWriter' not in f.id:
            continue
        if not any(c['k'] in ('CallExpr', 'CXXMemberCallExpr') and (f.callee(c) or {}).get('n') == 'Encode' for c in f.walk()):
            continue
        n += 1
        rep.touch(f)
        bad = None
        for cname in ('Success', 'UnexpectedEnd', 'InvalidSequence'):
            it = Interp(prog, M(codes[cname]), max_depth=2, max_paths=200)

            def init(it_, fr):
                for p in f.params:
                    fr.env[p['d']] = TOP
            for p in it.run(f, init):
                if not any(a[0] == 'TRANSCODE' for a in p.actions):
                    continue
                wrote = any(a[0] == 'WRITE' for a in p.actions)
                if p.outcome[0] != 'RET':
                    continue
                rv = p.outcome[1]
                if cname == 'Success' and not (wrote and rv == codes['Success']):
                    bad = 'after a successful Encode the text is %s and %s is returned' % ('written' if wrote else 'not written', rv)
                if cname != 'Success' and (wrote or rv != codes[cname]):
                    bad = 'when Encode reports %s the buffer is %s and %s is returned: a %s is taken for a completed write' % (
                        cname, 'written to the stream' if wrote else 'not written', 'Success' if rv == codes['Success'] else rv,
                        'truncated last sequence' if cname == 'UnexpectedEnd' else 'refused ill-formed sequence')
        key = (f.relfile, f.body['l'])
        if bad and seen.get(key) != 'bad':
            seen[key] = 'bad'
            rep.finding(rule, 'CEncodedStreamWriter::Write|%s' % bad.split(' the ')[0][:50], f.loc(), 'CEncodedStreamWriter::Write: %s' % bad,
                        {'instantiation': f.id[:200]}, func=f.id)
        elif not bad:
            rep.ok(rule, 'Write|%s' % f.id[-120:])
    if n < 4:
        raise AnalysisBroken('%s: fewer than four transcoding instantiations of CEncodedStreamWriter::Write found (%d)' % (rule, n))


def check_archive_stream_policy(prog, rep, rule):
    """The CSV archive reads and writes encoded streams through CEncodedStreamReader / CEncodedStreamWriter members of its reader / writer classes.
    SerializationOptions::utfEncodingErrorPolicy reaches them only if (a) each construction of such a member passes a policy explicitly - the
    constructor default is Skip, the documented default of the options is ThrowError - and (b) each construction of the owning reader / writer in
    the archive passes an argument for its policy parameter."""
    POLICY = 'BitSerializer::Convert::Utf::UtfEncodingErrorPolicy'
    rep.rule(rule, 'CSV archive: every CEncodedStreamReader / CEncodedStreamWriter constructed in src/csv gets its error policy as an explicit argument, and every '
                   'construction of the owning CSV reader / writer by the archive supplies that policy parameter (the constructor defaults are Skip; the '
                   'option\'s default is ThrowError)', floor=4)
    owners = {}
    n = 0
    for f in sorted(prog.funcs.values(), key=lambda g: g.id):
        if f.body is None or not f.relfile.startswith('src/csv/'):
            continue
        for c in f.walk():
            if c['k'] not in ('CXXConstructExpr', 'CXXTemporaryObjectExpr'):
                continue
            t = f.type(c)
            if 'CEncodedStreamReader' not in t and 'CEncodedStreamWriter' not in t:
                continue
            ctor = f.callee(c) if hasattr(f, 'callee') else None
            g = prog.funcs.get(ctor['id']) if ctor is not None and ctor.get('id') in prog.funcs else None
            args = [a for a in c.get('c', []) if a]
            cls = t.split('<')[0].split('::')[-1]
            site = '%s constructs %s' % (f.pq if f.cls else f.name, cls)
            n += 1
            rep.touch(f)
            if f.cls:
                owners[f.cls] = f
            idx = None
            if g is not None:
                for i, p in enumerate(g.params):
                    if 't' in p and g.type(p).replace('const ', '').strip() == POLICY:
                        idx = i
            if idx is None:
                # constructor not resolved: decide on the argument types
                explicit = any(a['k'] != 'CXXDefaultArgExpr' and f.type(a).replace('const ', '').strip() == POLICY for a in args)
            else:
                explicit = idx < len(args) and args[idx]['k'] != 'CXXDefaultArgExpr'
            if explicit:
                rep.ok(rule, site, sample={'site': f.loc(c), 'member': cls})
            else:
                rep.finding(rule, site + '|default policy', f.loc(c), '%s without an error policy argument: the stream is decoded / encoded with the constructor default '
                            '(Skip), whatever SerializationOptions::utfEncodingErrorPolicy says - an ill-formed sequence is replaced by the mark although '
                            'ThrowError was asked for' % site, func=f.id)
    if n < 2:
        raise AnalysisBroken('%s: expected the encoded stream reader and writer of the CSV archive, found %d construction(s)' % (rule, n))
    # (b) the archive's constructions of the owners
    m = 0
    for f in sorted(prog.funcs.values(), key=lambda g: g.id):
        if f.body is None or not f.relfile.startswith('src/csv/csv_archive'):
            continue
        for c in f.walk():
            if c['k'] != 'CallExpr':
                continue
            cal = f.callee(c) or {}
            if cal.get('n') != 'make_unique':
                continue
            t = f.type(c)
            for owner, octor in owners.items():
                short = owner.split('::')[-1]
                if short + ',' not in t.replace(' ', '') and short + '>' not in t.replace(' ', ''):
                    continue
                idx = [i for i, p in enumerate(octor.params) if 't' in p and octor.type(p).replace('const ', '').strip() == POLICY]
                args = [a for a in c.get('c', [])[1:] if a]
                m += 1
                rep.touch(f)
                site = '%s -> make_unique<%s>' % (f.pq if f.cls else f.name, short)
                if idx and idx[0] < len(args):
                    rep.ok(rule, site, sample={'site': f.loc(c), 'policy_argument_index': idx[0]})
                else:
                    rep.finding(rule, site + '|policy not supplied', f.loc(c), '%s passes %d argument(s); the policy parameter of %s (position %s) is left to its '
                                'default Skip' % (site, len(args), short, idx[0] + 1 if idx else 'none'), func=f.id)
    if m < 2:
        raise AnalysisBroken('%s: expected the archive to construct its stream reader and writer through make_unique, found %d site(s)' % (rule, m))
