"""Decision tables of the two MsgPack readers over all 256 first bytes (E3), shared by C05 (R5.3), C07 and C10."""
import os
import sys

from bsv.dtab import INT_TYPES, TOP, AnalysisBroken, Interp, Model, Opt, Pos, Struct, Sym, base_type, int_conv, sizeof_type
from bsv.facts import VERIF, strip, strip_targs

sys.path.insert(0, VERIF)
from spec import msgpack_spec as SPEC  # noqa: E402

READERS = {'string': 'BitSerializer::MsgPack::Detail::CMsgPackStringReader',
           'stream': 'BitSerializer::MsgPack::Detail::CMsgPackStreamReader'}

# method -> target family for the accept-set oracle
INT_TARGETS = ['bool', 'unsigned char', 'unsigned short', 'unsigned int', 'unsigned long', 'char', 'signed char', 'short', 'int', 'long']
METHODS = [('ReadValue', 'std::nullptr_t &', 'nil')] + \
          [('ReadValue', t + ' &', 'int') for t in INT_TARGETS] + \
          [('ReadValue', 'float &', 'float'), ('ReadValue', 'double &', 'float'),
           ('ReadValue', 'std::basic_string_view<char> &', 'str'),
           ('ReadValue', 'BitSerializer::Detail::CBinTimestamp &', 'timestamp'),
           ('ReadArraySize', 'unsigned long &', 'array'), ('ReadMapSize', 'unsigned long &', 'map'),
           ('ReadBinarySize', 'unsigned long &', 'bin')]
INPUT_GUARDS = ('AVAIL', 'ENOUGH')


class ReaderModel(Model):
    def __init__(self, prog, b, table, kind):
        self.prog = prog
        self.b = b
        self.table = table
        self.kind = kind

    # ------------------------------------------------------------ values
    def byte_at(self, it, k):
        if k == 0:
            return int_conv(self.b, 'char')
        if k is None or isinstance(k, tuple):
            return TOP
        return Sym(('BYTE', k))

    def initial_store(self, it, key):
        if key == 'this.mPos':
            return Pos(0)
        if key == 'this.mInputData':
            return Sym('INPUT')
        if key == 'this.mBinaryStreamReader':
            return Sym('BSR')
        return TOP

    def global_value(self, it, q):
        if q.endswith('ByteCodeTable'):
            return self.table
        return TOP

    def on_store(self, it, fr, key, v):
        if key == 'this.mPos' or key == 'CURSOR':
            if isinstance(v, Pos) and v.k is not None:
                it.act('GOTO', v.k if not isinstance(v.k, tuple) else '%d+LEN' % v.k[1])
                it.off = v.k
            else:
                it.act('GOTO', 'T')
                it.off = None
        elif isinstance(key, str) and key.startswith('out.'):
            if isinstance(v, Sym) and isinstance(v.tag, tuple) and v.tag[0] == 'RD':
                it.act('STORE', key[4:], 'READ%s%s' % (v.tag[1], v.tag[2]))
            else:
                it.act('STORE', key[4:], it.show(v))

    @staticmethod
    def parse_off(txt):
        """'3' -> (False, 3); '3+LEN' -> (True, 3); else None"""
        txt = str(txt)
        try:
            if txt.endswith('+LEN'):
                return (True, int(txt[:-4]))
            return (False, int(txt))
        except ValueError:
            return None

    def guarded(self, it, k, nbytes=1, lin_len=False):
        """Is an access of nbytes at cursor offset k covered by a bounds guard assumed true on this path?
        k: int | ('LIN', c) | None.  AVAIL@j means offset j is readable, ENOUGH@m means m bytes are available."""
        if k is None:
            return False
        cls, kk = (True, k[1]) if isinstance(k, tuple) else (False, k)
        if lin_len:
            cls = True
        for lab, d in it.path.guards:
            if not d:
                continue
            if lab.startswith('AVAIL@'):
                o = self.parse_off(lab[6:])
                if o and o[0] == cls and nbytes == 1 and o[1] >= kk:
                    return True
            elif lab.startswith('ENOUGH@'):
                o = self.parse_off(lab[7:])
                if o and o[0] == cls and o[1] >= kk + nbytes:
                    return True
        return False

    @staticmethod
    def off_add(off, n):
        """offset (int | ('LIN', c) | None) + n (int | LEN/LIN Sym | other)"""
        if off is None:
            return None
        if isinstance(n, bool):
            n = int(n)
        if isinstance(n, int):
            if isinstance(off, tuple):
                return ('LIN', off[1] + n)
            return off + n
        ln = ReaderModel.lin(n)
        if ln is not None and ln[1] == 1 and not isinstance(off, tuple):
            return ('LIN', off + ln[0])
        return None

    # ------------------------------------------------------------ conditions
    def opname(self, fr, n):
        n = strip(n)
        if n is None:
            return None
        if n['k'] == 'MemberExpr':
            return n.get('m')
        if n['k'] == 'DeclRefExpr':
            return n.get('n')
        return None

    def compare(self, it, fr, n, op, a, b):
        L, R = n['c'][0], n['c'][1]
        # position against the input size
        # every spelling of "position vs size" is reduced to the three guards AVAIL (pos < size), ENOUGH (pos <= size), ATEND (pos == size)
        pa, pop = None, op
        if isinstance(a, Pos) and isinstance(b, Sym) and b.tag == 'SIZE':
            pa = a
        elif isinstance(b, Pos) and isinstance(a, Sym) and a.tag == 'SIZE':
            pa, pop = b, {'<': '>', '>': '<', '<=': '>=', '>=': '<=', '==': '==', '!=': '!='}[op]
        if pa is not None:
            if pop == '<':
                return Sym(('GUARD', 'AVAIL@%s' % (self.show_off(pa.k),)))
            if pop == '<=':
                return Sym(('GUARD', 'ENOUGH@%s' % (self.show_off(pa.k),)))
            if pop == '==':
                return Sym(('GUARD', 'ATEND'))
            neg = {'>=': 'AVAIL@%s', '>': 'ENOUGH@%s'}.get(pop)
            if neg is not None:
                return 0 if it.choose(neg % (self.show_off(pa.k),)) else 1
            if pop == '!=':
                return 0 if it.choose('ATEND') else 1
        for x, y, xl, yl in ((a, b, L, R), (b, a, R, L)):
            if isinstance(x, Sym) and isinstance(x.tag, tuple) and x.tag[0] == 'BYTE' and isinstance(y, int):
                lab = 'BYTE[%s]%s%d' % (x.tag[1], op, y)
                return Sym(('GUARD', lab))
        # c + m*LEN with LEN >= 0 has the lower bound c: some comparisons with constants are decided
        la, lb = self.lin(a), self.lin(b)
        if la is not None and lb is not None and (la[1] > 0) != (lb[1] > 0) and min(la[1], lb[1]) == 0:
            flip = {'<': '>', '>': '<', '<=': '>=', '>=': '<=', '==': '==', '!=': '!='}
            (lo, _), (kc, _), o = (la, lb, op) if la[1] > 0 else (lb, la, flip[op])
            # value >= lo ; compare "value o kc"
            if kc == lo and (la[1] if la[1] > 0 else lb[1]) > 0:
                # value == its lower bound  <=>  the length is zero: one guard for every spelling
                if o in ('==', '<='):
                    return Sym(('GUARD', 'LENZERO'))
                if o in ('!=', '>'):
                    return 0 if it.choose('LENZERO') else 1
            if o == '==' and kc < lo:
                return 0
            if o == '!=' and kc < lo:
                return 1
            if o == '<' and kc <= lo:
                return 0
            if o == '<=' and kc < lo:
                return 0
            if o == '>' and kc < lo:
                return 1
            if o == '>=' and kc <= lo:
                return 1
        nm = self.opname(fr, L) or self.opname(fr, R)
        if nm and 'olicy' in nm:
            c = b if isinstance(b, int) else a
            return Sym(('GUARD', 'POLICY:%s%s%s' % (nm, op, c if isinstance(c, int) else '?')))
        if nm:
            c = b if isinstance(b, int) else (a if isinstance(a, int) else '?')
            return Sym(('GUARD', 'VAR:%s%s%s' % (nm, op, c)))
        return TOP

    @staticmethod
    def lin(v):
        """value -> (const, multiple_of_LEN) for ints / LEN / RD / LIN / LINM symbols, else None"""
        if isinstance(v, bool):
            return (int(v), 0)
        if isinstance(v, int):
            return (v, 0)
        if isinstance(v, Sym) and isinstance(v.tag, tuple):
            if v.tag[0] in ('LEN', 'RD'):
                return (0, 1)
            if v.tag[0] == 'LIN':
                return (v.tag[1], 1)
            if v.tag[0] == 'LINM':
                return (v.tag[1], v.tag[2])
        return None

    @staticmethod
    def mk_lin(c, m):
        if m == 0:
            return c
        if m == 1:
            return Sym(('LIN', c))
        return Sym(('LINM', c, m))

    def arith(self, it, fr, n, op, a, b):
        if op in ('+', '-'):
            if isinstance(a, Pos) or isinstance(b, Pos):
                if op == '+':
                    p, o = (a, b) if isinstance(a, Pos) else (b, a)
                    lo = self.lin(o)
                    if lo is not None and lo[1] == 1 and p.k is not None and not isinstance(p.k, tuple):
                        return Pos(('LIN', p.k + lo[0]))
                return Pos(None)
            la, lb = self.lin(a), self.lin(b)
            if la is not None and lb is not None:
                sg = 1 if op == '+' else -1
                return self.mk_lin(la[0] + sg * lb[0], la[1] + sg * lb[1])
        if op == '*':
            la, lb = self.lin(a), self.lin(b)
            if la is not None and lb is not None and (la[1] == 0 or lb[1] == 0):
                k = la[0] if la[1] == 0 else lb[0]
                o = lb if la[1] == 0 else la
                return self.mk_lin(o[0] * k, o[1] * k)
        return TOP

    def after_loop(self, it, fr, n):
        # the cursor may have moved in further iterations
        it.off = None
        if self.kind == 'string':
            it.store['this.mPos'] = Pos(None)

    def deref(self, it, fr, n, v):
        if isinstance(v, Sym) and isinstance(v.tag, tuple) and v.tag[0] == 'PTR':
            nb = sizeof_type(fr.f.type(n)) or 1
            if not self.guarded(it, v.tag[1], nb):
                it.act('UNGUARDED', '*(%d bytes at input+%s)' % (nb, self.show_off(v.tag[1])), fr.f.loc(n))
        elif isinstance(v, Sym) and v.tag == 'BLOCKDATA?':
            it.act('UNGUARDED', '*(unchecked ReadSolidBlock result)', fr.f.loc(n))
        return TOP

    def member_value(self, it, fr, n, base):
        return TOP

    def construct(self, it, fr, n, depth):
        vals = [it.ev(fr, a, depth) for a in n.get('c', ())]
        t = fr.f.type(n)
        if t.startswith('std::optional') and len(vals) == 1:
            return vals[0]
        if 'basic_string_view' in t and len(vals) == 1:
            return vals[0]
        if 'basic_string_view' in t and len(vals) == 2 and isinstance(vals[0], Sym) and isinstance(vals[0].tag, tuple) and vals[0].tag[0] == 'PTR':
            k = vals[0].tag[1]
            ln = vals[1]
            if isinstance(ln, int):
                ok = self.guarded(it, k, ln) if ln else True
            else:
                ok = self.guarded(it, k, 0, lin_len=True) if (self.lin(ln) and self.lin(ln)[1] == 1) else False
            if not ok:
                it.act('UNGUARDED', 'string_view(input+%s, len)' % (self.show_off(k),), fr.f.loc(n))
            return Sym('VIEW')
        r = self.construct_record(it, fr, n, depth, vals)
        return r

    def store_through(self, it, fr, lhs, v, depth):
        it.ev(fr, lhs, depth)

    # ------------------------------------------------------------ primitives
    def primitive(self, it, fr, n, callee, depth):
        q = strip_targs(callee['q'])
        name = callee['n']
        obj, args = it.call_args(fr, n)
        if q == 'GetValue' or q.endswith('::GetValue'):
            # GetValue(inputData, pos&, out&)  |  GetValue(reader&, out&)
            out = args[-1]
            ot = fr.f.type(out)
            sz = sizeof_type(ot)
            signed = 's' if base_type(ot) in ('char', 'signed char', 'short', 'int', 'long', 'long long') else 'u'
            key = it.lvalue(fr, out, depth)
            if len(args) == 3:
                pkey = it.lvalue(fr, args[1], depth)
                pv = it.ev(fr, args[1], depth)
                it.act('READ', sz, signed, self.show_off(pv.k) if isinstance(pv, Pos) else 'T')
                if pkey == 'this.mPos':
                    it.off = self.off_add(it.off, sz) if sz else None
                    it.store['this.mPos'] = Pos(it.off)
                elif pkey is not None:
                    it.write_key(fr, pkey, it.add(pv, sz, 'unsigned long'))
            else:
                it.act('READ', sz, signed, self.show_off(it.off))
                it.off = self.off_add(it.off, sz) if sz else None
            if key is not None:
                if isinstance(key, str) and key.startswith('out.'):
                    it.act('STORE', key[4:], 'READ%s%s' % (signed, sz))
                    it.store[key] = Sym(('RD', signed, sz))
                else:
                    it.write_key(fr, key, Sym(('RD', signed, sz)))
            return TOP
        if q.endswith('SkipValueImpl'):
            for a in args:
                it.ev(fr, a, depth)
            it.act('SKIP')
            it.off = None
            it.store['this.mPos'] = Pos(None)
            return TOP
        if q.endswith('ReadExtSize'):
            vals = [it.ev(fr, a, depth) for a in args]
            nbytes = [v for v in vals if isinstance(v, int)]
            nb = nbytes[0] if nbytes else 'T'
            if self.kind == 'stream':
                it.act('READLEN', nb, self.show_off(it.off))
                it.off = self.off_add(it.off, nb) if isinstance(nb, int) else None
            else:
                p = [v for v in vals if isinstance(v, Pos)]
                it.act('READLEN', nb, self.show_off(p[0].k) if p else 'T')
            return Sym(('LEN', nb))
        if q.endswith('ConvertByPolicy'):
            src = args[0]
            sv = it.ev(fr, src, depth)
            st = base_type(fr.f.type(strip(src, casts=False)))
            key = it.lvalue(fr, args[1], depth)
            for a in args[2:]:
                it.ev(fr, a, depth)
            srcdesc = sv if isinstance(sv, int) else (('RD%s%s' % (sv.tag[1], sv.tag[2])) if isinstance(sv, Sym) and isinstance(sv.tag, tuple) and sv.tag[0] == 'RD' else 'T')
            it.act('CONVERT', st, srcdesc, key[4:] if isinstance(key, str) and key.startswith('out.') else str(key))
            return TOP
        if q.endswith('Memory::BigEndianToNative') or q.endswith('Memory::NativeToBigEndian'):
            it.act('BE')
            return it.ev(fr, args[0], depth)
        if q in ('std::memcpy', 'memcpy'):
            d = it.ev(fr, args[0], depth)
            s = it.ev(fr, args[1], depth)
            nb = it.ev(fr, args[2], depth)
            sv = TOP
            if isinstance(s, Sym) and isinstance(s.tag, tuple) and s.tag[0] == 'ADDR':
                sv = it.read_key(fr, s.tag[1])
            if isinstance(d, Sym) and isinstance(d.tag, tuple) and d.tag[0] == 'ADDR':
                key = d.tag[1]
                if isinstance(key, str) and key.startswith('out.'):
                    it.act('STOREBITS', key[4:], it.show(sv) if not isinstance(sv, Sym) else str(sv.tag), nb if isinstance(nb, int) else 'T')
                    it.store[key] = sv
                else:
                    it.write_key(fr, key, sv)
            return TOP
        cls = callee.get('clsq', '')
        if cls.endswith('CBinaryStreamReader'):
            if name == 'PeekByte':
                return Opt(self.byte_at(it, it.off), 'AVAIL@%s' % (self.show_off(it.off),))
            if name == 'GotoNextByte':
                self.adv_stream(it, 1)
                return TOP
            if name == 'ReadByte':
                o = Opt(self.byte_at(it, it.off), 'AVAIL@%s' % (self.show_off(it.off),))
                self.adv_stream(it, 1)
                return o
            if name == 'ReadSolidBlock':
                v = it.ev(fr, args[0], depth)
                it.act('READBLOCK', v if isinstance(v, int) else 'T')
                o = Opt(Sym('BLOCK'), 'ENOUGH@%s' % (self.show_off(it.off),))
                # the GetValue primitive accounts for the advance when it is the caller; a direct call advances here
                return o
            if name == 'ReadByChunks':
                it.ev(fr, args[0], depth)
                it.act('READCHUNKS')
                it.off = None
                return Opt(Sym('CHUNK'), 'ENOUGH@chunk')
            if name == 'GetPosition':
                return Pos(it.off)
            if name == 'SetPosition':
                v = it.ev(fr, args[0], depth)
                k = v.k if isinstance(v, Pos) else None
                it.act('GOTO', self.show_off(k))
                it.off = k
                return Sym(('GUARD', 'ENOUGH@seek'))
            if name in ('IsEnd', 'IsFailed'):
                return Sym(('GUARD', name))
            return TOP
        if q.startswith('std::optional'):
            v = it.ev(fr, obj, depth) if obj is not None else TOP
            if name in ('operator bool', 'has_value'):
                if isinstance(v, Opt):
                    return 1 if it.to_bool(fr, v, n) else 0
                return TOP
            if name in ('operator*', 'value', 'operator->'):
                if isinstance(v, Opt):
                    if v.has is not True and name != 'value':
                        it.act('UNGUARDED', 'dereference of an optional that was not tested', fr.f.loc(n))
                    return v.inner
                return v
            return TOP
        if q.startswith('std::basic_string_view') or q.startswith('std::basic_string'):
            v = it.ev(fr, obj, depth) if obj is not None else TOP
            avals = [it.ev(fr, a, depth) for a in args]
            if name in ('size', 'length'):
                if isinstance(v, Sym) and v.tag == 'INPUT':
                    return Sym('SIZE')
                return Sym(('SIZEOF', str(getattr(v, 'tag', 'T'))))
            if name == 'operator[]':
                if isinstance(v, Sym) and v.tag == 'INPUT' and avals and isinstance(avals[0], Pos):
                    k = avals[0].k
                    if k != 0:
                        it.act('PEEKAT', k if k is not None else 'T')
                    if not self.guarded(it, k, 1):
                        it.act('UNGUARDED', 'input[%s]' % (self.show_off(k),), fr.f.loc(n))
                    return self.byte_at(it, k)
                return TOP
            if name == 'data':
                if isinstance(v, Sym) and v.tag == 'INPUT':
                    return Sym('DATA')
                if isinstance(v, Opt) and isinstance(v.inner, Sym) and v.inner.tag == 'BLOCK':
                    return Sym('BLOCKDATA') if v.has is True else Sym('BLOCKDATA?')
                return TOP
            if name == 'empty':
                if isinstance(v, Opt):
                    return 0 if it.to_bool(fr, v, n) else 1
                return TOP
            if name in ('clear', 'reserve', 'operator+=', 'append', 'push_back', 'assign'):
                it.act('BUF', name)
                return TOP
            if name in ('operator=',):
                key = it.lvalue(fr, obj, depth) if obj is not None else None
                if isinstance(key, str) and key.startswith('out.'):
                    it.act('STORE', key[4:], 'VIEW')
                    return TOP
                o = strip(obj) if obj is not None else None
                if o is not None and o['k'] == 'DeclRefExpr' and o.get('d') in fr.env and len(avals) == 1:
                    fr.env[o['d']] = avals[0]       # a local view declared earlier and assigned the chunk / block later
                return TOP
            return TOP
        if not callee.get('repo'):
            # unknown external: evaluate arguments for their effects, result unknown
            for a in args:
                it.ev(fr, a, depth)
            return TOP
        return NotImplemented

    def adv_stream(self, it, n, quiet=False):
        it.off = self.off_add(it.off, n)
        if not quiet:
            it.act('GOTO', self.show_off(it.off))

    @staticmethod
    def show_off(off):
        if off is None:
            return 'T'
        if isinstance(off, tuple):
            return '%d+LEN' % off[1]
        return off


# ---------------------------------------------------------------------------------------- tables
_cache = {}


def bytecode_table(prog):
    for key, gl in prog.globals.items():
        g = gl[0]
        if g['q'].endswith('ByteCodeTable') and 'msgpack_readers' in key[0]:
            if not isinstance(g.get('val'), list) or len(g['val']) != 256:
                raise AnalysisBroken('ByteCodeTable is not a clang-evaluated array of 256 entries any more')
            return g['val']
    raise AnalysisBroken('anchor vanished: ByteCodeTable in msgpack_readers.cpp')


def find_method(prog, kind, name, ptype):
    cls = READERS[kind]
    out = [f for f in prog.funcs.values() if f.q == cls + '::' + name and (ptype is None or ('(%s)' % ptype) in f.id)]
    if len(out) != 1:
        raise AnalysisBroken('anchor: expected exactly one %s::%s(%s), found %d' % (cls, name, ptype, len(out)))
    return out[0]


def enum_values(prog):
    """ValueType enumerator values as clang evaluated them (from any DeclRefExpr to the enumerators)."""
    vals = {}
    for f in prog.funcs.values():
        if 'msgpack_readers' not in f.file:
            continue
        for n in f.walk():
            if n['k'] == 'DeclRefExpr' and n.get('dk') == 'EnumConstant' and 'ValueType::' in n.get('q', '') and 'cv' in n:
                vals[n['q'].rsplit('::', 1)[1]] = n['cv']
    return vals


class TabInterp(Interp):
    """Interp that knows how wide a header-declared length is: a value c + m*LEN, with LEN read from a length field of nb bytes on this
    path, needs 8*nb bits (one more when something is added to it); storing it in a narrower integer object wraps for long payloads."""

    def _check_width(self, fr, v, t, where):
        l = ReaderModel.lin(v)
        if l is None or l[1] < 1 or isinstance(v, int):
            return
        info = INT_TYPES.get(base_type(t))
        if not info:
            return
        nbs = [a[1] for a in self.path.actions if a[0] == 'READLEN' and isinstance(a[1], int)]
        if not nbs:
            return
        need = 8 * max(nbs) + (1 if (l[0] > 0 or l[1] > 1) else 0)
        if info[0] < need:
            self.act('NARROW', base_type(t), info[0], need, fr.f.loc(where))

    def coerce(self, v, t):
        if self._cur is not None:
            self._check_width(self._cur[0], v, t, self._cur[1])
        return Interp.coerce(self, v, t)

    _cur = None

    def exec_decl(self, fr, n, depth):
        self._cur = (fr, n)
        try:
            return Interp.exec_decl(self, fr, n, depth)
        finally:
            self._cur = None

    def ev_binary(self, fr, n, depth):
        if n.get('op') == '=' or n['k'] == 'CompoundAssignOperator':
            prev = self._cur
            self._cur = (fr, n)
            try:
                r = Interp.ev_binary(self, fr, n, depth)
            finally:
                self._cur = prev
            if n['k'] == 'CompoundAssignOperator':
                self._check_width(fr, r, fr.f.type(n['c'][0]), n)
            return r
        return Interp.ev_binary(self, fr, n, depth)


def narrow_findings(prog, rep, rule, which=('skip', 'tables')):
    """no length taken from the input is kept in an integer object too narrow for it (both reader copies, every method, every first byte)"""
    seen = {}
    n_paths = 0
    srcs = []
    if 'skip' in which:
        ST = skip_tables(prog)
        for kind in READERS:
            f, per = ST[kind]
            srcs.append((kind, 'SkipValueImpl', f, per))
    if 'tables' in which:
        T = tables(prog)
        for kind in READERS:
            for mkey, (f, fam, per) in T[kind].items():
                srcs.append((kind, short_method(*mkey), f, per))
    for kind, name, f, per in srcs:
        rep.touch(f)
        bad = {}
        for b in range(256):
            for p in per[b]:
                n_paths += 1
                for a in p.actions:
                    if a[0] == 'NARROW':
                        e = bad.setdefault((a[1], a[2]), [0, a[4], []])
                        e[0] = max(e[0], a[3])
                        e[2].append(b)
        if bad:
            for (t, bits), (need, where, bs) in sorted(bad.items()):
                rep.finding(rule, '%s|%s|length kept in %s' % (kind, name, t), where,
                            '%s reader %s: a length read from a length field of up to %d byte(s) (plus what is added to it) is kept in an object of '
                            'type %s (%d bits, up to %d needed) for first byte(s) %s: it wraps for long payloads, so the reader leaves the value in the middle'
                            % (kind, name, (need - 1) // 8 if need % 8 else need // 8, t, bits, need, fmt_bytes(sorted(set(bs)))), func=f.id, count=len(set(bs)))
        else:
            rep.ok(rule, '%s|%s' % (kind, name))
    return n_paths


def run_method(prog, f, kind, b, table):
    model = ReaderModel(prog, b, table, kind)
    it = TabInterp(prog, model)

    def init(it_, fr):
        for p in f.params:
            pt = f.tu['types'][p['t']]
            if 'CBinaryStreamReader' in pt:
                fr.alias[p['d']] = 'this.mBinaryStreamReader'
            elif pt.rstrip().endswith('&') and p['n'] == 'pos':
                fr.alias[p['d']] = 'this.mPos'
            elif pt.rstrip().endswith('&'):
                fr.alias[p['d']] = 'out.' + (p['n'] or 'arg')
            elif 'basic_string_view' in pt:
                fr.env[p['d']] = Sym('INPUT')
            elif p['n'] == 'pos':
                fr.env[p['d']] = Pos(0)
            else:
                fr.env[p['d']] = TOP
        it_.off = 0
    return it.run(f, init)


def tables(prog):
    """{kind: {(name, ptype): {b: [Path]}}} for every byte-dispatching reader method."""
    key = prog.key
    if key in _cache:
        return _cache[key]
    table = bytecode_table(prog)
    out = {}
    for kind in READERS:
        out[kind] = {}
        ms = list(METHODS) + [('ReadValueType', None, 'type'), ('SkipValue', None, 'skip'), ('ReadBinary', None, 'binbyte')]
        for name, ptype, fam in ms:
            f = find_method(prog, kind, name, ptype)
            per = {}
            for b in range(256):
                per[b] = run_method(prog, f, kind, b, table)
            out[kind][(name, ptype)] = (f, fam, per)
    _cache[key] = out
    return out


def sufficient(path):
    """path on which every input-sufficiency guard was assumed true"""
    for lab, d in path.guards:
        if lab.startswith(INPUT_GUARDS) and not d:
            return False
    return True


def norm_actions(path, keep=('ADV', 'READ', 'READLEN', 'READBLOCK', 'READCHUNKS', 'SKIP', 'CONVERT', 'STORE', 'STOREBITS', 'RET', 'THROW', 'CALL')):
    out = []
    for a in path.actions:
        if a[0] in keep:
            if a[0] == 'READBLOCK':
                continue  # the stream GetValue primitive already reports READ
            if a[0] == 'READLEN':
                out.append(('READLEN', a[1]))
                continue
            out.append(a)
    return tuple(out)


def policy_guards(path):
    return tuple((l, d) for l, d in path.guards if l.startswith('POLICY'))


def summarize(paths):
    """set of (policy guards, normalised action tuple) over the input-sufficient paths"""
    s = set()
    for p in paths:
        if sufficient(p):
            other = tuple((l, d) for l, d in p.guards if not l.startswith(INPUT_GUARDS) and not l.startswith('POLICY'))
            s.add((policy_guards(p), other, norm_actions(p)))
    return s


def short_method(name, ptype):
    return '%s(%s)' % (name, ptype or '')


# ---------------------------------------------------------------------------------------- R5.3
def check_mismatch_protocol(prog, rep):
    rep.rule('R5.3', 'every MsgPack reader method, for every first byte outside its accept set: throw MismatchedTypes (policy ThrowError, '
                     'never for nil) or skip exactly one value, then return false - both reader copies, all 256 bytes', floor=5000)
    T = tables(prog)
    nil = 0xc0
    for kind in sorted(T):
        for (name, ptype), (f, fam, per) in sorted(T[kind].items(), key=lambda kv: str(kv[0])):
            if fam in ('type', 'skip', 'binbyte'):
                continue
            rep.touch(f)
            acc = SPEC.accept_set(fam)
            bad = {}
            for b in range(256):
                if b in acc:
                    continue
                got = summarize(per[b])
                exp_ok = True
                why = None
                seqs = set()
                for pol, other, acts in got:
                    core = tuple((a[0],) + tuple(a[1:3]) if a[0] == 'READ' else a for a in acts if a[0] in ('SKIP', 'RET', 'THROW', 'CONVERT', 'STORE', 'STOREBITS', 'READ'))
                    seqs.add(core)
                allowed = {(('SKIP',), ('RET', 0))}
                if b != nil:
                    allowed.add((('THROW', 'BitSerializer::SerializationException'),))
                if fam == 'timestamp' and SPEC.family(b)[1] == 'ext':
                    # an ext value that is not a timestamp layout / type: parsing error or mismatch protocol
                    allowed.add((('THROW', 'BitSerializer::SerializationException'),))
                    if SPEC.family(b)[2]:
                        # ext16/ext32 objects of type -1 and length 4/8/12 are legal carriers of a timestamp: accepting them is allowed
                        seqs = set(q for q in seqs if not (q and q[-1] == ('RET', 1)))
                if not seqs:
                    exp_ok, why = False, 'no path'
                elif not seqs <= allowed:
                    exp_ok, why = False, 'unexpected path (neither throw-MismatchedTypes nor skip-one-and-return-false): %s' % sorted(seqs - allowed)
                elif (('SKIP',), ('RET', 0)) not in seqs:
                    exp_ok, why = False, 'no skip-and-return-false path (Skip policy cannot be honoured)'
                elif b != nil and fam != 'timestamp' and (('THROW', 'BitSerializer::SerializationException'),) not in seqs:
                    exp_ok, why = False, 'no MismatchedTypes throw path'
                site = '%s|%s|%02x' % (kind, short_method(name, ptype), b)
                if exp_ok:
                    rep.ok('R5.3', site, nontrivial=True,
                           sample={'reader': kind, 'method': short_method(name, ptype), 'first_byte': '0x%02x' % b, 'paths': sorted(map(str, seqs))} if b in (0xc0, 0xa1) else None)
                else:
                    bad.setdefault(why, []).append(b)
            for why, bs in bad.items():
                rep.finding('R5.3', '%s|%s|%s' % (kind, short_method(name, ptype), why.split(':')[0][:60]), f.loc(),
                            '%s reader %s: for first byte(s) %s (not a %s encoding) the mismatch protocol is violated: %s'
                            % (kind, short_method(name, ptype), fmt_bytes(bs), fam, why),
                            {'bytes': ['0x%02x' % b for b in bs], 'reason': why}, func=f.id, count=len(bs))


def fmt_bytes(bs):
    bs = sorted(bs)
    out = []
    i = 0
    while i < len(bs):
        j = i
        while j + 1 < len(bs) and bs[j + 1] == bs[j] + 1:
            j += 1
        out.append('0x%02x' % bs[i] if i == j else '0x%02x-0x%02x' % (bs[i], bs[j]))
        i = j + 1
    return ','.join(out)


# ---------------------------------------------------------------------------------------- semantic summaries
def show_end(path):
    e = path.end
    if e is None:
        return 'T'
    if isinstance(e, tuple):
        return '%d+LEN' % e[1]
    # a path taken under "length == 0" is the LEN=0 instance of the general path
    for lab, d in path.guards:
        if d and lab.startswith('VAR:') and lab.endswith('==0'):
            return '%d+LEN' % e
    return e


def semantic(path):
    """(outcome, end offset, reads, converts, outs, skips, loops, ext type byte offsets)"""
    reads = []
    conv = []
    outs = []
    skips = 0
    loops = []
    cur_loop = None
    hdr = None
    for a in path.actions:
        k = a[0]
        if k == 'READ':
            reads.append((a[1], a[2]))
        elif k == 'READLEN':
            reads.append((a[1], 'u'))
        elif k == 'CONVERT':
            conv.append((a[1], a[2]))
            outs.append(a[3].split('.')[0])
        elif k in ('STORE', 'STOREBITS'):
            outs.append(a[1].split('.')[0] + ('.' + a[1].split('.', 1)[1] if '.' in a[1] else ''))
        elif k == 'SKIP':
            if cur_loop is not None:
                cur_loop[1] += 1
            else:
                skips += 1
        elif k == 'LOOP':
            cur_loop = [a[2], 0]
            if hdr is None:
                hdr = a[3]
        elif k == 'ENDLOOP':
            if cur_loop is not None and cur_loop[1]:
                loops.append(tuple(cur_loop))
            cur_loop = None
    out = path.outcome
    outcome = ('RET', out[1] if isinstance(out[1], int) else 'T') if out[0] == 'RET' else ('THROW', out[1])
    tb = tuple(sorted(set(int(l[5:l.index(']')]) for l, d in path.guards if l.startswith('BYTE['))))
    end = show_end(path)
    if loops and hdr is not None:
        end = hdr if not isinstance(hdr, tuple) else '%d+LEN' % hdr[1]   # extent of the header: nested values follow
    return (outcome, end, tuple(reads), tuple(conv), tuple(sorted(set(outs))), skips, tuple(loops), tb)


def semantic_set(paths, drop_policy=True):
    return set(semantic(p) for p in paths if sufficient(p))


def skip_impl(prog, kind):
    fs = [g for g in prog.funcs.values() if g.name == 'SkipValueImpl' and 'msgpack_readers' in g.file
          and (('CBinaryStreamReader' in g.id) == (kind == 'stream'))]
    if len(fs) != 1:
        raise AnalysisBroken('anchor: SkipValueImpl (%s reader) not found exactly once' % kind)
    return fs[0]


_skip_cache = {}


def skip_tables(prog):
    if prog.key in _skip_cache:
        return _skip_cache[prog.key]
    table = bytecode_table(prog)
    out = {}
    for kind in READERS:
        f = skip_impl(prog, kind)
        out[kind] = (f, {b: run_method(prog, f, kind, b, table) for b in range(256)})
    _skip_cache[prog.key] = out
    return out


def off_str(e, path=None):
    if e is None:
        return 'T'
    if isinstance(e, tuple):
        return '%d+LEN' % e[1]
    if path is not None:
        for lab, d in path.guards:
            if d and lab.startswith('VAR:') and lab.endswith('==0'):
                return '%d+LEN' % e
    return str(e)


def skip_summary(path):
    """(extent of the value's own bytes, number of nested values still to skip) for one abstract path of SkipValueImpl.
    Understands the iterative form (a work counter, first iteration interpreted precisely) and the recursive form
    (loops over nested SkipValueImpl calls)."""
    acts = path.actions
    it1 = [a for a in acts if a[0] == 'ITER1END']
    nxt = [a for a in acts if a[0] == 'LOOPNEXT']
    has_skip = any(a[0] == 'SKIP' for a in acts)
    if it1 and nxt and not has_skip and acts and acts[0][0] == 'LOOP':
        v = nxt[0][1]
        nested = {"('LIN', 0)": 'LEN', "('LINM', 0, 2)": '2LEN'}.get(v, str(v))
        return off_str(it1[0][1], path), nested
    sem = semantic(path)
    loops = sem[6]
    nested = '0'
    if loops:
        bound, per = loops[0]
        if isinstance(bound, int):
            nested = str(bound * per)
        else:
            nested = 'LEN' if per == 1 else '2LEN'
    return str(sem[1]), nested


def expected_skip(b):
    fixed, lf, kind, emb = SPEC.skip_layout(b)
    end = 1 + lf + fixed
    nested = '0'
    if kind == 'bytes':
        end = ('%d+LEN' % end) if lf else str(end + emb)
    elif kind in ('items', 'pairs'):
        per = 1 if kind == 'items' else 2
        if lf:
            nested = 'LEN' if per == 1 else '2LEN'
        else:
            nested = str(emb * per)
    return str(end), nested


# ---------------------------------------------------------------------------------------- C07 rules
def fits_int(c, ptype):
    """does the integer c have an exact representation in the integral target type of a reader method ('int &')"""
    from bsv.dtab import INT_TYPES as _IT
    info = _IT.get(base_type(ptype or ''))
    if info is None or not isinstance(c, int):
        return False
    bits, sg = info
    if bits == 1:
        return c in (0, 1)
    return (-(1 << (bits - 1)) <= c < (1 << (bits - 1))) if sg else (0 <= c < (1 << bits))


def canon_int(path, ptype):
    """A constant that is exactly representable in the target may be delivered through ConvertByPolicy (which then stores it and returns
    true - C04 decides the mapper) or stored directly: both are 'value = c, loaded'. Returns c for such a path, else None."""
    conv = [a for a in path.actions if a[0] == 'CONVERT']
    out = path.outcome
    if out[0] != 'RET':
        return None
    if len(conv) == 1 and isinstance(conv[0][2], int) and fits_int(conv[0][2], ptype) and conv[0][3].split('.')[0] == 'value' \
            and not any(a[0] in ('STORE', 'STOREBITS') for a in path.actions):
        return conv[0][2]
    if not conv and out[1] == 1:
        st = [a for a in path.actions if a[0] == 'STORE' and a[1] == 'value']
        if len(st) == 1 and isinstance(st[0][2], int) and fits_int(st[0][2], ptype):
            return st[0][2]
    return None


def store_values(path):
    out = {}
    for a in path.actions:
        if a[0] == 'STORE' and isinstance(a[2], int):
            out[a[1]] = a[2]
    return out


def has_action(path, kind):
    return any(a[0] == kind for a in path.actions)


def expected_accept(fam, ptype, b, kind):
    """semantic expectations for an accepted first byte: dict of fields to compare (None = do not care)"""
    name, bfam, lf, fixed, emb = SPEC.family(b)
    if fam == 'nil':
        return dict(end=1, reads=(), ret=(1,))
    if fam == 'int':
        if bfam in ('uint', 'int') and fixed == 0:
            return dict(end=1, reads=(), conv_src=SPEC.fixint_value(b), ret=('T',), ptype=ptype)
        if b in SPEC.INT_PAYLOAD:
            n, sg = SPEC.INT_PAYLOAD[b]
            return dict(end=1 + n, reads=((n, sg),), conv_src='RD%s%d' % (sg, n), ret=('T',))
        if b in (0xc2, 0xc3):
            return dict(end=1, reads=(), conv_src=b - 0xc2, ret=('T',), ptype=ptype)
    if fam == 'float':
        n = 4 if b == 0xca else 8
        return dict(end=1 + n, reads=((n, 'u'),), out='value', ret=(1, 'T'))
    if fam == 'str':
        if lf == 0:
            return dict(end=(1 + emb) if kind == 'string' else None, reads=(), out='value', ret=(1,), chunks=(kind == 'stream' and emb > 0))
        return dict(end=('%d+LEN' % (1 + lf)) if kind == 'string' else None, reads=((lf, 'u'),), out='value', ret=(1,), chunks=(kind == 'stream'))
    if fam in ('array', 'map', 'bin'):
        pname = {'array': 'arraySize', 'map': 'mapSize', 'bin': 'binarySize'}[fam]
        if lf == 0:
            return dict(end=1, reads=(), store=(pname, emb), ret=(1,))
        return dict(end=1 + lf, reads=((lf, 'u'),), out=pname, ret=(1,))
    if fam == 'timestamp':
        size = SPEC.TIMESTAMP_LAYOUTS[b]
        hdr = 1 + lf + 1
        if size == 4:
            rd = ((4, 'u'),)
        elif size == 8:
            rd = ((8, 'u'),)
        else:
            rd = ((8, 's'), (4, 's'))
        fields = None
        if size == 4:
            fields = (('timestamp.Seconds', 'READu4'), ('timestamp.Nanoseconds', 0))
        elif size == 12 and TS96_FIRST == 'seconds':
            # the order the library's own writers use (C14 checks agreement of writer and reader, C06/C07 check the specification's order)
            rd = ((8, 's'), (4, 'u'))
            fields = (('timestamp.Seconds', 'READs8'), ('timestamp.Nanoseconds', 'READ?4'))
        elif size == 12:
            # spec, timestamp 96: 32-bit unsigned nanoseconds FIRST, then 64-bit signed seconds
            rd = ((4, 'u'), (8, 's'))
            fields = (('timestamp.Nanoseconds', 'READ?4'), ('timestamp.Seconds', 'READs8'))
        if lf:
            rd = ((lf, 'u'),) + rd
        return dict(end=hdr + size, reads=rd, out='timestamp', ret=(1,), typebyte=1 + lf, fields=fields, ns_sign_free=True)
    raise AnalysisBroken('no expectation for %s 0x%02x' % (fam, b))


def match_accept(exp, path, kind):
    sem = semantic(path)
    outcome, end, reads, conv, outs, skips, loops, tb = sem
    direct = None
    if isinstance(exp.get('conv_src'), int) and exp.get('ptype'):
        direct = canon_int(path, exp['ptype'])
        if direct is not None and direct != exp['conv_src']:
            return False
    if outcome[0] != 'RET' or (outcome[1] not in exp['ret'] and direct is None) or skips:
        return False
    if exp.get('end') is not None and end != exp['end']:
        return False
    if exp.get('ns_sign_free'):
        # CBinTimestamp::Nanoseconds is a signed 32-bit field; 0..999999999 reads the same either way
        if tuple(n for n, sg in reads) != tuple(n for n, sg in exp['reads']):
            return False
    elif tuple(reads) != tuple(exp['reads']):
        return False
    if exp.get('fields'):
        st = [(a[1], a[2]) for a in path.actions if a[0] == 'STORE']
        for i, (tgt, src) in enumerate(exp['fields']):
            if i >= len(st) or st[i][0] != tgt:
                return False
            if isinstance(src, str) and '?' in src:
                if not (isinstance(st[i][1], str) and st[i][1].startswith('READ') and st[i][1].endswith(src[-1])):
                    return False
            elif st[i][1] != src:
                return False
    if 'conv_src' in exp and direct is None:
        if len(conv) != 1 or conv[0][1] != exp['conv_src']:
            return False
    if 'out' in exp and not any(o.split('.')[0] == exp['out'] for o in outs):
        return False
    if 'store' in exp:
        if store_values(path).get(exp['store'][0]) != exp['store'][1]:
            return False
    if exp.get('chunks') and not has_action(path, 'READCHUNKS'):
        # short strings may be served from the buffer; a chunk loop or a block read must be present
        if not has_action(path, 'READBLOCK'):
            return False
    if 'typebyte' in exp and tb and set(tb) != {exp['typebyte']}:
        return False
    return True


TS96_FIRST = 'nanoseconds'


def check_accept_tables(prog, rep, rule_accept='R7.1', rule_extent='R7.4', families=None, declare=True, value_types=True, ts96_first='nanoseconds'):
    """families: restrict to these target families (None = all); other properties reuse the table under their own rule ids"""
    if declare:
        rep.rule('R7.1', 'reader accept tables = MessagePack spec: for every method and every first byte of the target family the reader '
                         'consumes the header, reads exactly the payload/length field the spec assigns (width, signedness, embedded value) and '
                         'delivers it; both reader copies', floor=2 * 700)
        rep.rule('R7.4', 'every accepting path consumes exactly one value (cursor advanced by the full extent of the header+payload)', floor=2 * 700)
    global TS96_FIRST
    TS96_FIRST = ts96_first
    T = tables(prog)
    for kind in sorted(T):
        for (name, ptype), (f, fam, per) in sorted(T[kind].items(), key=lambda kv: str(kv[0])):
            if fam in ('type', 'skip', 'binbyte'):
                continue
            if families is not None and fam not in families:
                continue
            rep.touch(f)
            bad = {}
            bad_end = {}
            for b in sorted(SPEC.accept_set(fam)):
                exp = expected_accept(fam, ptype, b, kind)
                paths = [p for p in per[b] if sufficient(p)]
                ok = any(match_accept(exp, p, kind) for p in paths)
                site = '%s|%s|%02x' % (kind, short_method(name, ptype), b)
                if ok:
                    rep.ok(rule_accept, site, sample={'reader': kind, 'method': short_method(name, ptype), 'first_byte': '0x%02x' % b,
                                                 'expected': {k: str(v) for k, v in exp.items()}} if b in (0xcd, 0xd6) else None)
                    rep.ok(rule_extent, site, nontrivial=False)
                elif exp.get('end') is not None and any(match_accept(dict(exp, end=None), p, kind) for p in paths):
                    # header and payload are read and delivered as specified, only the cursor does not end behind the value
                    rep.ok(rule_accept, site, nontrivial=False)
                    ends = sorted(set(str(semantic(p)[1]) for p in paths if match_accept(dict(exp, end=None), p, kind)))
                    bad_end.setdefault((str(exp['end']), tuple(ends)), []).append(b)
                else:
                    got = sorted(set(str(semantic(p)) for p in paths))
                    bad.setdefault(str(sorted((k, str(v)) for k, v in exp.items() if k != 'conv_src' and k != 'store')), []).append((b, got))
            for (want_end, ends), bs in bad_end.items():
                rep.finding(rule_extent, '%s|%s|%s|extent' % (kind, short_method(name, ptype), SPEC.family(bs[0])[0]), f.loc(),
                            '%s reader %s decodes first byte(s) %s (%s) but leaves the cursor at offset %s instead of %s: the next value is read from the wrong place'
                            % (kind, short_method(name, ptype), fmt_bytes(bs), SPEC.family(bs[0])[0], ' / '.join(ends), want_end), func=f.id, count=len(bs))
            for expdesc, lst in bad.items():
                bs = [b for b, _ in lst]
                rep.finding(rule_accept, '%s|%s|%s' % (kind, short_method(name, ptype), SPEC.family(bs[0])[0]), f.loc(),
                            '%s reader %s does not decode first byte(s) %s (%s) as the specification requires'
                            % (kind, short_method(name, ptype), fmt_bytes(bs), SPEC.family(bs[0])[0]),
                            {'expected': expdesc, 'observed_paths': lst[0][1][:6]}, func=f.id, count=len(bs))
    TS96_FIRST = 'nanoseconds'
    if not value_types:
        return
    # ReadValueType: classification of every first byte
    vt = prog.enums.get('BitSerializer::MsgPack::Detail::ValueType')
    if vt is None:
        raise AnalysisBroken('anchor vanished: enum MsgPack::Detail::ValueType')
    for kind in sorted(T):
        f, fam, per = T[kind][('ReadValueType', None)]
        rep.touch(f)
        bad = []
        for b in range(256):
            want = SPEC.value_type_name(b)
            rets = set()
            for p in per[b]:
                if sufficient(p) and p.outcome[0] == 'RET':
                    rets.add(p.outcome[1] if isinstance(p.outcome[1], int) else 'T')
            allowed = {vt['items'][want]}
            if want == 'Ext':
                allowed.add(vt['items']['Timestamp'])
            if rets and rets <= allowed and vt['items'][want] in rets:
                rep.ok(rule_accept, '%s|ReadValueType|%02x' % (kind, b), nontrivial=False)
            else:
                bad.append((b, want, sorted(map(str, rets))))
        if bad:
            rep.finding(rule_accept, '%s|ReadValueType|classification' % kind, f.loc(),
                        '%s reader ReadValueType classifies first byte(s) %s differently from the specification' % (kind, fmt_bytes([b for b, _, _ in bad])),
                        {'cases': [('0x%02x' % b, w, r) for b, w, r in bad[:12]]}, func=f.id, count=len(bad))


def check_bytecode_table(prog, rep):
    rep.rule('R7.2', 'ByteCodeTable (256 clang-evaluated entries): Type = spec family, and SkipValueImpl driven by it advances by exactly '
                     '1 + length-field + payload bytes and skips exactly count (x2 for maps) nested values, for every first byte; both copies',
             floor=256 * 3)
    table = bytecode_table(prog)
    vt = prog.enums.get('BitSerializer::MsgPack::Detail::ValueType')
    if vt is None:
        raise AnalysisBroken('anchor vanished: enum MsgPack::Detail::ValueType')
    bad = []
    for b in range(256):
        want = vt['items'][SPEC.value_type_name(b)]
        if table[b].get('Type') == want:
            rep.ok('R7.2', 'ByteCodeTable[%02x].Type' % b, nontrivial=False)
        else:
            bad.append(b)
    if bad:
        rep.finding('R7.2', 'ByteCodeTable|Type', 'src/msgpack/msgpack_readers.cpp',
                    'ByteCodeTable assigns a wrong ValueType to first byte(s) %s' % fmt_bytes(bad), {'bytes': ['0x%02x' % b for b in bad]}, count=len(bad))
    check_skip_extent(prog, rep, 'R7.2')


def check_skip_extent(prog, rep, rule):
    ST = skip_tables(prog)
    for kind in sorted(ST):
        f, per = ST[kind]
        rep.touch(f)
        badb = []
        for b in range(256):
            exp = expected_skip(b)
            got = set()
            for p in per[b]:
                if not (sufficient(p) and p.outcome[0] == 'RET'):
                    continue
                g = skip_summary(p)
                if ('LENZERO', True) in p.guards and g == (exp[0].replace('+LEN', ''), '0'):
                    g = exp            # a zero-length payload: the extent is the header alone, which is what the layout says for LEN = 0
                got.add(g)
            if exp in got and all(g == exp or (g[0] == exp[0] and g[1] == '0' and exp[1] in ('LEN', '2LEN')) for g in got):
                rep.ok(rule, '%s|SkipValueImpl|%02x' % (kind, b),
                       sample={'reader': kind, 'first_byte': '0x%02x' % b, 'extent': exp[0], 'nested_values': exp[1]} if b in (0xde, 0xc7) else None)
            else:
                badb.append((b, exp, sorted(map(str, got))))
        if badb:
            rep.finding(rule, '%s|SkipValueImpl|extent' % kind, f.loc(),
                        '%s reader SkipValueImpl does not skip exactly one value for first byte(s) %s' % (kind, fmt_bytes([b for b, _, _ in badb])),
                        {'cases': [('0x%02x' % b, str(e), g) for b, e, g in badb[:10]]}, func=f.id, count=len(badb))


def check_ext_offsets(prog, rep):
    rep.rule('R7.3', 'ext family: the extension type byte is read at offset 1 + (length-field bytes) for every ext first byte '
                     '(fixext: 1; ext8: 2; ext16: 3; ext32: 5)', floor=2 * 8)
    T = tables(prog)
    for kind in sorted(T):
        for mkey in (('ReadValueType', None), ('ReadValue', 'BitSerializer::Detail::CBinTimestamp &')):
            f, fam, per = T[kind][mkey]
            rep.touch(f)
            bad = []
            for b in range(256):
                name, bfam, lf, fixed, emb = SPEC.family(b)
                if bfam != 'ext':
                    continue
                offs = set()
                for p in per[b]:
                    if sufficient(p):
                        offs |= set(semantic(p)[7])
                want = 1 + lf
                if offs == {want}:
                    rep.ok('R7.3', '%s|%s|%02x' % (kind, mkey[0], b), sample={'reader': kind, 'first_byte': '0x%02x' % b, 'type_byte_offset': want})
                else:
                    bad.append((b, want, sorted(offs)))
            if bad:
                rep.finding('R7.3', '%s|ext type byte offset' % kind, f.loc(),
                            '%s reader reads the ext type byte of %s at the wrong offset (expected 1 + length-field bytes)'
                            % (kind, ', '.join('%s: offset %s instead of %d' % (SPEC.family(b)[0], o, w) for b, w, o in bad)),
                            {'cases': [('0x%02x' % b, w, o) for b, w, o in bad]}, func=f.id, count=len(bad))
                break


# ---------------------------------------------------------------------------------------- C10: twins
def twin_normal(sem, kind, path_reads_len):
    """Comparable core of a path. Length-field reads done while *classifying* an ext value (ReadExtSize) are peeks in the
    string reader and read-then-seek-back in the stream reader; they are compared through the outcome, not as consumption."""
    outcome, end, reads, conv, outs, skips, loops, tb = sem
    return (outcome, tuple(r for r in reads if r not in path_reads_len) if path_reads_len else reads, conv, outs, skips, loops)


def check_reader_twins(prog, rep, rule='R10.1'):
    rep.rule(rule, 'MsgPack string and stream readers: equal decision tables (outcome, payload reads, conversions, stores, skips) for every '
                   'interface method and every first byte', floor=20 * 250)
    T = tables(prog)
    for mkey in sorted(T['string'], key=str):
        fs, fam, ps = T['string'][mkey]
        ft, _, pt = T['stream'][mkey]
        rep.touch(fs)
        rep.touch(ft)
        diff = []
        for b in range(256):
            a = set(twin_core(p, 'string', mkey[1]) for p in ps[b] if sufficient(p))
            c = set(twin_core(p, 'stream', mkey[1]) for p in pt[b] if sufficient(p))
            if a == c:
                rep.ok(rule, '%s|%02x' % (short_method(*mkey), b), nontrivial=len(a) > 1,
                       sample={'method': short_method(*mkey), 'first_byte': '0x%02x' % b, 'paths': len(a)} if b == 0xcc else None)
            else:
                diff.append((b, sorted(map(str, a - c)), sorted(map(str, c - a))))
        if diff:
            groups = {}
            for b, x, y in diff:
                groups.setdefault((tuple(x), tuple(y)), []).append(b)
            for (x, y), bs in groups.items():
                rep.finding(rule, '%s|%s' % (short_method(*mkey), twin_reason(x, y)), ft.loc(),
                            'string and stream readers disagree in %s for first byte(s) %s' % (short_method(*mkey), fmt_bytes(bs)),
                            {'only_string': list(x)[:4], 'only_stream': list(y)[:4], 'bytes': fmt_bytes(bs)}, func=ft.id, count=len(bs))


def twin_core(path, kind, ptype=None):
    outcome, end, reads, conv, outs, skips, loops, tb = semantic(path)
    c = canon_int(path, ptype) if ptype else None
    if c is not None:
        outcome, conv, outs = ('RET', 1), (('const', c),), ('value',)
    # payload reads only (READ actions); classification reads of an ext length field (READLEN) are not consumption
    preads = tuple((a[1], a[2]) for a in path.actions if a[0] == 'READ')
    return (outcome, preads, conv, outs, skips, loops)


def twin_reason(x, y):
    sx, sy = ' '.join(x), ' '.join(y)
    if "'THROW'" in sy and "'RET', 0" in sx and "'RET', 0" not in sy:
        return 'stream throws where string skips and returns false'
    if not y:
        return 'stream lacks paths of string'
    if not x:
        return 'string lacks paths of stream'
    return 'different tables'


def check_skip_twins(prog, rep, rule):
    """string and stream SkipValueImpl: equal (extent, nested values) summaries for every first byte"""
    ST = skip_tables(prog)
    fs, ps = ST['string']
    ft, pt = ST['stream']
    diff = []
    for b in range(256):
        a = set(skip_summary(p) for p in ps[b] if sufficient(p) and p.outcome[0] == 'RET')
        c = set(skip_summary(p) for p in pt[b] if sufficient(p) and p.outcome[0] == 'RET')
        # the stream copy has an extra "length == 0" shortcut path whose summary is the LEN=0 instance of the general one
        if a == c or (a <= c and all(x[1] == '0' for x in c - a)):
            rep.ok(rule, 'SkipValueImpl|%02x' % b, nontrivial=False)
        else:
            diff.append((b, sorted(a), sorted(c)))
    if diff:
        rep.finding(rule, 'SkipValueImpl|extent', ft.loc(),
                    'string and stream SkipValueImpl skip a different number of bytes/values for first byte(s) %s' % fmt_bytes([b for b, _, _ in diff]),
                    {'cases': [('0x%02x' % b, str(x), str(y)) for b, x, y in diff[:8]]}, func=ft.id, count=len(diff))


def check_ext_size(prog, rep, rule):
    """ReadExtSize (both reader copies) is the one place where the length field of str/bin/ext/array/map 8/16/32 is decoded; the decision
    tables treat it as 'an unsigned length of k bytes'. Executed for k = 1, 2, 4: exactly one read of k bytes, into an unsigned object, whose
    value is returned (a signed object sign-extends lengths >= 128 / 32768 into ~4e9); any other k ends in an exception."""
    fs = [f for f in prog.funcs.values() if f.name == 'ReadExtSize' and f.body is not None and 'msgpack_readers' in f.relfile]
    if len(fs) < 2:
        raise AnalysisBroken('%s: expected the two ReadExtSize copies, found %d' % (rule, len(fs)))
    table = bytecode_table(prog)
    for f in sorted(fs, key=lambda g: g.id):
        kind = 'stream' if any('CBinaryStreamReader' in f.type(p) for p in f.params if 't' in p) else 'string'
        rep.touch(f)
        kparam = [p for p in f.params if 't' in p and base_type(f.type(p)) in INT_TYPES and 'size_t' not in f.type(p) and p.get('n') != 'pos']
        kparam = [p for p in kparam if INT_TYPES[base_type(f.type(p))][0] <= 8] or kparam
        if not kparam:
            raise AnalysisBroken('%s: the byte-count parameter of ReadExtSize (%s) was not recognised' % (rule, kind))
        for k in (1, 2, 4, 3):
            model = ReaderModel(prog, 0, table, kind)
            it = TabInterp(prog, model)

            def init(it_, fr):
                for p in f.params:
                    pt = f.tu['types'][p['t']]
                    if p is kparam[0]:
                        fr.env[p['d']] = k
                    elif 'CBinaryStreamReader' in pt:
                        fr.alias[p['d']] = 'this.mBinaryStreamReader'
                    elif 'basic_string_view' in pt:
                        fr.env[p['d']] = Sym('INPUT')
                    elif p.get('n') == 'pos':
                        fr.env[p['d']] = Pos(0)
                    else:
                        fr.env[p['d']] = TOP
                it_.off = 0
            bad = None
            n_ret = 0
            for p in it.run(f, init):
                if not sufficient(p):
                    continue
                reads = [(a[1], a[2]) for a in p.actions if a[0] == 'READ']
                if p.outcome[0] == 'THROW':
                    if k != 3:
                        bad = 'throws %s for a %d-byte length field' % (p.outcome[1], k)
                    continue
                n_ret += 1
                v = p.outcome[1]
                if k == 3:
                    bad = 'returns a value for the byte count 3'
                elif reads != [(k, 'u')]:
                    bad = 'reads %s for a %d-byte length field (expected one unsigned read of %d byte(s)): %s' % (
                        ['%d byte(s) %s' % (n_, 'signed' if s_ == 's' else 'unsigned') for n_, s_ in reads] or 'nothing', k, k,
                        'a signed object sign-extends long lengths' if any(s_ == 's' for _, s_ in reads) else 'wrong width')
                elif not (isinstance(v, Sym) and isinstance(v.tag, tuple) and v.tag[0] == 'RD'):
                    bad = 'does not return the value it read for a %d-byte length field' % k
            if k != 3 and n_ret == 0 and bad is None:
                bad = 'never returns for a %d-byte length field' % k
            site = '%s|ReadExtSize|%d byte(s)' % (kind, k)
            if bad:
                rep.finding(rule, '%s|ReadExtSize|%s' % (kind, bad.split(':')[0][:50]), f.loc(), '%s reader ReadExtSize %s' % (kind, bad), func=f.id)
            else:
                rep.ok(rule, site, sample={'reader': kind, 'length_field_bytes': k})
