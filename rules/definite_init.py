"""No scalar local is read before it is definitely written (C02 R2.10).

`T value; Load(source, value); use(value);` is fine when Load always writes (or throws) and wrong when Load reports failure through its result
and leaves the target alone - the loaders of this library do exactly that under the Skip policies. For every local of scalar type declared
without an initialiser in the library headers (and sources), over every CFG path (loops entered once and twice):
   written   by an assignment, by being bound to a non-const reference / pointer parameter of a callee that returns void (such a callee
             writes or throws), or of a callee outside the repository other than std::from_chars (memcpy, istream::read, ...);
   maybe     after being bound to a non-const reference parameter of a callee that returns a value (bool, optional, from_chars_result...):
             it becomes written on a branch whose condition tests that result - directly, negated or through a named temporary - with the
             polarity 'true' when the polarity is readable (a bare call, `!call`, a bool flag), with any polarity for comparisons of a result
             structure (`rc.ec == std::errc()`);
   read      LValueToRValue, binding to a const reference, or handing the object to std::move / std::forward.
A read while the local is not written is reported: reading an indeterminate value is undefined behaviour, and what the caller gets is
whatever the stack held."""
from bsv.cfg import CFG
from bsv.dtab import INT_TYPES, AnalysisBroken, base_type
from bsv.effects import classify_use
from bsv.expr import named_inits, resolve
from bsv.facts import strip, strip_targs

NO, MAYBE, YES = 0, 1, 2


def is_scalar(t):
    bt = base_type(t)
    return bt in INT_TYPES or bt in ('float', 'double', 'long double') or bt.endswith('*') or bt.startswith('enum ')


def candidates(f):
    out = {}
    for n in f.walk():
        if n['k'] != 'DeclStmt' or n.get('c'):
            continue
        for d in n.get('decls', []):
            if not d.get('isref') and is_scalar(f.tu['types'][d['t']]) and not d.get('static'):
                out[d['d']] = (d.get('n'), n)
    return out


def check(prog, rep, rule, prefixes=('include/bitserializer/', 'src/'), floor=8):
    rep.rule(rule, 'no scalar local declared without initialiser is read before it is definitely written, on any CFG path: a target handed to a '
                   'loader that reports failure by its result is used only on the branch where that result was tested', floor=floor)
    n_sites = 0
    seen = {}
    for f in sorted(prog.funcs.values(), key=lambda g: g.id):
        if f.body is None or not f.relfile.startswith(prefixes) or 'testing_tools' in f.relfile or not f.cfg:
            continue
        cands = candidates(f)
        if not cands:
            continue
        try:
            g = CFG(f)
            paths = g.paths(max_paths=3000)
        except AnalysisBroken:
            continue
        rep.touch(f)
        inits = named_inits(f)
        bad = {}
        for path, dec, kind in paths:
            dec_at = {}
            for cid, idx, tk in dec:
                dec_at.setdefault(cid, []).append(idx)
            state = {}
            pending = {}          # decl -> call node whose result decides
            # decisions are interleaved with the nodes: a block's terminator condition is evaluated after the block's nodes
            for bid in path:
                b = g.blocks[bid]
                for n in b.nodes:
                    if n['k'] == 'DeclStmt':
                        for d in n.get('decls', []):
                            if d['d'] in cands and not n.get('c'):
                                state[d['d']] = NO
                                pending.pop(d['d'], None)
                        continue
                    if n['k'] != 'DeclRefExpr' or n.get('d') not in cands or n['d'] not in state:
                        continue
                    d = n['d']
                    use, info = classify_use(f, n)
                    if use == 'write':
                        node = info
                        if node is not None and node['k'] in ('CompoundAssignOperator', 'UnaryOperator') and state[d] != YES:
                            bad.setdefault((d, node['l']), 'updated in place')
                        state[d] = YES
                    elif use in ('escape', 'mutcall', 'alias', 'addr'):
                        call, callee = info if isinstance(info, tuple) else (info, None)
                        nm = (callee or {}).get('n')
                        if nm in ('move', 'forward') and (callee or {}).get('q', '').startswith('std::'):
                            if state[d] != YES:
                                bad.setdefault((d, n['l']), 'moved from')
                            continue
                        ret = ''
                        if callee is not None and 'ret' in callee:
                            ret = (callee.get('_tu') or f.tu)['types'][callee['ret']].strip()
                        external_writer = callee is not None and not callee.get('repo') and nm not in ('from_chars',)   # memcpy, istream::read, ...
                        if callee is None or ret == 'void' or use in ('alias', 'addr') or external_writer:
                            state[d] = YES
                        elif state[d] != YES:
                            state[d] = MAYBE
                            pending[d] = call
                    elif use == 'read':
                        if state[d] != YES:
                            bad.setdefault((d, n['l']), 'read')
                # the decision taken at the end of this block
                if b.tc is not None and b.tc in dec_at and pending:
                    idx = dec_at[b.tc][0]
                    c = f.node(b.tc)
                    e, neg = strip(c), False
                    while e is not None and e['k'] == 'UnaryOperator' and e.get('op') == '!':
                        neg, e = not neg, strip(e['c'][0])
                    e = resolve(f, e) if e is not None else None
                    for d, call in list(pending.items()):
                        if e is None:
                            continue
                        mentions = any(x is call for x in f.walk(e))
                        via = False
                        if not mentions:
                            # a named temporary holding the call's result (or a member of it)
                            for x in f.walk(e):
                                if x['k'] == 'DeclRefExpr' and x.get('d') in inits and any(y is call for y in f.walk(inits[x['d']])):
                                    via = True
                        if not (mentions or via):
                            continue
                        bare = strip(e) is call or (strip(e) or {}).get('k') in ('CXXMemberCallExpr', 'CallExpr', 'CXXOperatorCallExpr') and mentions \
                            and all(y is call or y['k'] != 'BinaryOperator' for y in f.walk(e))
                        if bare and ((idx == 0) == neg):
                            continue            # the branch on which the loader reported failure
                        state[d] = YES
                        pending.pop(d, None)
        for d, (name, decl) in sorted(cands.items(), key=lambda kv: kv[1][1]['l']):
            key = (f.relfile, decl['l'], name)
            n_sites += 1
            hits = sorted((line, how) for (dd, line), how in bad.items() if dd == d)
            if hits:
                if key not in seen:
                    rep.finding(rule, '%s|%s@%s' % (strip_targs(f.pq if f.cls else f.name), name, f.relfile.rsplit('/', 1)[-1]), f.loc(decl),
                                '%s: the local "%s" (declared without initialiser) is %s at line %d on a path where nothing has written it - the loader '
                                'it was handed to reports failure by its result and that result is not tested on this path: indeterminate value '
                                '(undefined behaviour; e.g. an element that was skipped by policy is inserted with whatever the stack held)'
                                % (f.pq if f.cls else f.name, name, hits[0][1], hits[0][0]), {'instantiation': f.id}, func=f.id)
                seen[key] = 'bad'
            else:
                if key not in seen:
                    rep.ok(rule, '%s|%s:%d' % (name, f.relfile, decl['l']), sample={'local': name, 'function': (f.pq if f.cls else f.name), 'at': f.loc(decl)})
                seen.setdefault(key, 'ok')
    if n_sites == 0:
        raise AnalysisBroken('%s: no uninitialised scalar local found (the rule matched nothing)' % rule)
