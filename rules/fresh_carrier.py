"""A temporary that carries one element through Serialize() is fresh for every element (C05 R5.10).

Under the Skip policies Serialize(archive, tmp) returns false and leaves tmp alone. A loader that declares the carrier once, outside its
loop, and stores it into the container after every call therefore gives a skipped element the value loaded for the element before it
(vector<bool> and bitset did, /repo 5f0d1a7). For every local handed by non-const reference to Serialize / SerializeValue inside a loop of a
container loader, one of these holds:
   (a) the local is declared inside that loop (a new object per element),
   (b) it is assigned inside the loop before the call, on the same branch (re-initialised from the element or a default), or
   (c) every read of it after the call lies under an `if` whose condition is that call (used only when the load succeeded)."""
from bsv.dtab import AnalysisBroken
from bsv.effects import classify_use

LOOPS = ('ForStmt', 'WhileStmt', 'DoStmt', 'CXXForRangeStmt')


def _chain(f, n, stop=None):
    out = []
    p = f.parent(n)
    while p is not None and p is not stop:
        out.append(p)
        p = f.parent(p)
    return out


def _branch_path(f, n, loop):
    """the (IfStmt id, branch index) pairs between the loop and n"""
    out = []
    cur = n
    p = f.parent(cur)
    while p is not None and p is not loop:
        if p['k'] == 'IfStmt':
            idx = [i for i, c in enumerate(p.get('c', [])) if c is cur]
            out.append((p['i'], idx[0] if idx else -1))
        cur, p = p, f.parent(p)
    return list(reversed(out))


def check(prog, rep, rule):
    rep.rule(rule, 'container loaders: a local that carries an element through Serialize() inside a loop is declared in the loop, re-initialised '
                   'before the call, or used only when the call succeeded - a skipped element never receives its neighbour\'s value', floor=4)
    seen = {}
    for f in sorted(prog.funcs.values(), key=lambda g: g.id):
        if f.body is None or not f.relfile.startswith('include/bitserializer/'):
            continue
        if not (f.relfile.startswith('include/bitserializer/types/') or 'generic_' in f.relfile or 'serialization_base_types' in f.relfile):
            continue
        decls = {}
        for n in f.walk():
            if n['k'] == 'DeclStmt':
                for d in n.get('decls', []):
                    if not d.get('isref'):
                        decls[d['d']] = (d.get('n'), n)
        if not decls:
            continue
        for n in f.walk():
            if n['k'] != 'DeclRefExpr' or n.get('d') not in decls:
                continue
            u, info = classify_use(f, n)
            if u != 'escape' or not isinstance(info, tuple):
                continue
            call, callee = info
            if (callee or {}).get('n') not in ('Serialize', 'SerializeValue'):
                continue
            loops = [p for p in _chain(f, n) if p['k'] in LOOPS]
            if not loops:
                continue
            loop = loops[0]
            name, decl = decls[n['d']]
            key = (f.relfile, (f.pq if f.cls else f.name).split('<')[0], name)
            verdict = None
            if any(p is loop for p in _chain(f, decl)):
                verdict = ('ok', 'declared inside the loop')
            if verdict is None:
                mine = _branch_path(f, call, loop)
                for w in f.walk(loop):
                    if w['k'] == 'DeclRefExpr' and w.get('d') == n['d'] and w['i'] < call['i'] and classify_use(f, w)[0] == 'write':
                        bp = _branch_path(f, w, loop)
                        if mine[:len(bp)] == bp:
                            verdict = ('ok', 're-initialised at line %d before the call' % w['l'])
                            break
            if verdict is None:
                reads = [w for w in f.walk(loop) if w['k'] == 'DeclRefExpr' and w.get('d') == n['d'] and w['i'] > call['i']
                         and classify_use(f, w)[0] not in ('write',)]
                guarded = True
                for r in reads:
                    g_ok = False
                    cur, p = r, f.parent(r)
                    while p is not None and p is not loop:
                        if p['k'] == 'IfStmt' and p.get('c'):
                            cond = p['c'][0] if p['c'][0] is not None else None
                            roles = p.get('r', [])
                            ci = roles.index('cond') if 'cond' in roles else 0
                            ti = roles.index('then') if 'then' in roles else 1
                            cond = p['c'][ci]
                            if cond is not None and any(x is call for x in f.walk(cond)) and p['c'][ti] is cur:
                                g_ok = True
                                break
                        cur, p = p, f.parent(p)
                    if not g_ok:
                        guarded = False
                        break
                if reads and guarded:
                    verdict = ('ok', 'read only under if (Serialize(...))')
                elif not reads:
                    verdict = ('ok', 'not read after the call')
                else:
                    verdict = ('bad', 'declared at line %d outside the loop, not re-initialised before the call at line %d, and read afterwards '
                                      'whether or not the element was loaded' % (decl['l'], call['l']))
            prev = seen.get(key)
            if prev is None or (prev[0] == 'ok' and verdict[0] == 'bad'):
                seen[key] = (verdict[0], verdict[1], f, call)
    if not seen:
        raise AnalysisBroken('%s: no carrier local handed to Serialize() inside a loop was found in the container loaders' % rule)
    for key, (v, why, f, call) in sorted(seen.items()):
        rep.touch(f)
        short = '%s@%s|%s' % (key[1].split('::')[-1], key[0].rsplit('/', 1)[-1], key[2])
        if v == 'ok':
            rep.ok(rule, '%s|%s' % (short, why.split(' at line')[0]), sample={'call': f.loc(call), 'why': why})
        else:
            rep.finding(rule, '%s|stale carrier' % short, f.loc(call),
                        '%s: the local "%s" is %s: with a Skip policy the skipped element is given the value loaded for the element before it, '
                        'instead of keeping its own' % (key[1], key[2], why), func=f.id)
