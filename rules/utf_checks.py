"""Checks of the UTF transcoders against the Unicode standard, shared by C11 (exactness on well-formed input) and C12 (ill-formed input)."""
from bsv.facts import AnalysisBroken, strip, strip_targs
from bsv.interval import Iv
from rules import utf_tables as U
from spec import unicode_spec as S

RULES_DONE = {}


def sufficient(p):
    return all(d for l, d in p.guards if l.startswith('AVAIL'))


LAST_UNGUARDED = set()


def seqs(paths):
    """first-sequence outcomes of the paths with enough input; reads past the end on the paths where the input ran out are remembered for
    the bounds rule (a position tested against end with the answer "not available" and dereferenced all the same)"""
    LAST_UNGUARDED.clear()
    for p in paths:
        if not sufficient(p):
            for u in U.first_sequence(p)[5]:
                LAST_UNGUARDED.add(u)
    return [(U.first_sequence(p), p) for p in paths if sufficient(p)]


def norm_units(emits):
    """code units are compared modulo their width: a char output holds 0x80..0xFF as negative values"""
    out = []
    for e in emits:
        if len(e) == 2 and isinstance(e[0], int):
            lo, hi = e
            if lo < 0 and hi < 0:
                lo, hi = lo + 256, hi + 256
            elif lo < 0:
                lo, hi = 0, 255
            out.append((lo, hi))
        else:
            out.append(e)
    return tuple(out)


def classify(results):
    """split the first-sequence outcomes of one cell into accepted / rejected descriptions"""
    accepted = set()
    rejected = set()
    other = set()
    for (emits, marks, consumed, count, outcome, ung), p in results:
        if outcome == 'next':
            if emits and count in (0, None):
                accepted.add((norm_units(emits), consumed))
            elif not emits and count == 1:
                rejected.add(('skip', marks, consumed))
            elif not emits and count in (0, None):
                other.add(('silently dropped', consumed))
            else:
                other.add(('emits %s and counts %s' % (emits, count), consumed))
        elif outcome and outcome[0] == 'ret':
            code = outcome[1]
            if code == 1:
                rejected.add(('fail', outcome[2], outcome[3]))
            elif code == 2:
                rejected.add(('unexpected-end', outcome[2], outcome[3]))
            else:
                other.add(('returns code %s' % code, outcome[2]))
    return accepted, rejected, other


def ungarded_of(results):
    out = set()
    for (emits, marks, consumed, count, outcome, ung), p in results:
        for u in ung:
            out.add(u)
    return out


def fmt_units(us):
    return ' '.join('%X..%X' % u if u[0] != u[1] else '%X' % u[0] for u in us)


class Collector(object):
    """collects per-cell verdicts and emits grouped findings"""

    def __init__(self, rep, rule_exact, rule_reject, rule_bounds, codec, f):
        self.rep, self.rule_exact, self.rule_reject, self.rule_bounds, self.codec, self.f = rep, rule_exact, rule_reject, rule_bounds, codec, f
        self.bad = {}

    def cell(self, name, results, expect_units, expect_consumed, reason, max_consumed=None):
        rep = self.rep
        accepted, rejected, other = classify(results)
        ung = ungarded_of(results) | set(LAST_UNGUARDED)
        site = '%s|%s' % (self.codec, name)
        if self.rule_bounds:
            if ung:
                self.bad.setdefault((self.rule_bounds, 'unguarded read'), []).append((name, sorted(ung)))
            else:
                rep.ok(self.rule_bounds, site, nontrivial=False)
            # progress: every path that continues with the next sequence has consumed at least one unit
            stuck = [r for r in results if r[0][4] == 'next' and (r[0][2] in (0, None))]
            if stuck:
                self.bad.setdefault((self.rule_bounds, 'no progress'), []).append((name, 'iterator not advanced'))
        if reason is None:
            if not self.rule_exact:
                return
            want = (tuple(expect_units), expect_consumed)
            if accepted == {want} and not rejected - {r for r in rejected if r[0] == 'unexpected-end'} and not other:
                rep.ok(self.rule_exact, site, sample={'codec': self.codec, 'cell': name, 'units': fmt_units(expect_units), 'consumed': expect_consumed}
                       if len(rep.samples) < 40 and name.endswith(('C3 80..BF', '10000..10FFFF', 'E1 80..BF')) else None)
            else:
                got = 'accepts as %s' % sorted((fmt_units(e), c) for e, c in accepted) if accepted else 'rejects (%s)' % sorted(rejected | other)
                self.bad.setdefault((self.rule_exact, 'well-formed input mis-transcoded'), []).append(
                    (name, 'expected %s consuming %s; %s' % (fmt_units(expect_units), expect_consumed, got)))
        else:
            if not self.rule_reject:
                return
            hard_reject = {r for r in rejected if r[0] in ('skip', 'fail')}
            if hard_reject and not accepted and not other:
                bad_pos = [r for r in rejected if r[0] == 'fail' and (r[1] != 0 or r[2] != 1)]
                over = [r for r in rejected if r[0] == 'skip' and max_consumed is not None and isinstance(r[2], int) and r[2] > max_consumed]
                if bad_pos:
                    self.bad.setdefault((self.rule_reject, 'failure does not identify the start of the ill-formed sequence'), []).append((name, str(bad_pos)))
                elif over:
                    self.bad.setdefault((self.rule_reject, 'replacing an ill-formed sequence also swallows the following well-formed unit(s)'), []).append(
                        (name, 'consumes %d unit(s), at most %d belong to the ill-formed sequence' % (over[0][2], max_consumed)))
                else:
                    rep.ok(self.rule_reject, site, sample={'codec': self.codec, 'cell': name, 'ill_formed_because': reason, 'outcomes': sorted(map(str, rejected))}
                           if name.endswith(('ED A0..BF', 'low surrogate')) else None)
            else:
                got = 'accepted as %s' % sorted((fmt_units(e), c) for e, c in accepted) if accepted else str(sorted(other))
                self.bad.setdefault((self.rule_reject, reason), []).append((name, got))

    def flush(self):
        for (rule, reason), lst in sorted(self.bad.items()):
            names = [n for n, _ in lst]
            self.rep.finding(rule, '%s|%s' % (self.codec, reason), self.f.loc(),
                             '%s: %s - %s (%s)' % (self.codec, reason, ', '.join(names[:8]) + (' ...' if len(names) > 8 else ''), lst[0][1]),
                             {'cells': names, 'first': str(lst[0][1])}, func=self.f.id, count=len(lst))


def check_utf8_decode(prog, rep, rule_exact, rule_reject, rule_bounds):
    for out_char, width in (('char32_t', 32), ('char16_t', 16)):
        f = U.find_codec(prog, 'Utf8', 'Decode', 'char', out_char)
        rep.touch(f)
        col = Collector(rep, rule_exact, rule_reject, rule_bounds, 'Utf8::Decode->%s' % out_char, f)
        for lead in range(256):
            n = S.utf8_length_by_lead(lead)
            classes = [None] if n <= 1 else S.SECOND_BYTE_CLASSES
            for c2 in classes:
                units = [Iv(lead, lead)]
                if c2 is not None:
                    units.append(Iv(c2[0], c2[1]))
                    for _ in range(max(n, 6) - 2):
                        units.append(Iv(S.CONT[0], S.CONT[1]))
                else:
                    # an invalid lead may still make the decoder look at following bytes: give it valid continuation bytes
                    for _ in range(5):
                        units.append(Iv(S.CONT[0], S.CONT[1]))
                results = seqs(U.run(prog, f, units))
                name = '%02X' % lead + ('' if c2 is None else ' %02X..%02X' % c2)
                reason = S.utf8_ill_formed_reason(lead, c2)
                if reason is None:
                    lo, hi = S.utf8_scalar_interval(lead, c2, n)
                    exp = S.utf16_units_of(lo, hi) if width == 16 else [(lo, hi)]
                    col.cell(name, results, exp, n, None)
                else:
                    mc = None
                    if c2 is not None and (c2[1] < 0x80 or (c2[0] >= 0xC2 and c2[1] <= 0xF4)):
                        mc = 1          # the next byte begins a new sequence (ASCII or a valid lead byte, D93b) and must be left for it
                    col.cell(name, results, None, None, reason, max_consumed=mc)
        col.flush()


def check_encode_from32(prog, rep, rule_exact, rule_reject, rule_bounds):
    for cls, name, out_char in (('Utf8', 'Encode', 'char'), ('Utf16', 'Encode', 'char16_t')):
        f = U.find_codec(prog, cls, name, 'char32_t', out_char)
        rep.touch(f)
        col = Collector(rep, rule_exact, rule_reject, rule_bounds, '%s::%s<-char32_t' % (cls, name), f)
        for (lo, hi), kind in S.SCALAR_CLASSES_32:
            units = [Iv(lo, hi), Iv(0, 0xFFFFFFFF)]
            results = seqs(U.run(prog, f, units))
            nm = '%X..%X' % (lo, hi)
            if kind in ('high surrogate', 'low surrogate'):
                col.cell(nm + ' ' + kind, results, None, None, 'surrogate code point in UTF-32 input', max_consumed=1)
            elif kind == 'out of range':
                col.cell(nm, results, None, None, 'code point above U+10FFFF', max_consumed=1)
            else:
                exp = S.utf8_bytes_of(lo, hi) if out_char == 'char' else S.utf16_units_of(lo, hi)
                col.cell(nm, results, exp, 1, None)
        col.flush()


def check_from16(prog, rep, rule_exact, rule_reject, rule_bounds):
    for cls, name, out_char in (('Utf8', 'Encode', 'char'), ('Utf16', 'Decode', 'char32_t')):
        f = U.find_codec(prog, cls, name, 'char16_t', out_char)
        rep.touch(f)
        col = Collector(rep, rule_exact, rule_reject, rule_bounds, '%s::%s<-char16_t' % (cls, name), f)
        for (lo, hi), kind in S.UNIT_CLASSES_16:
            if kind == 'high surrogate':
                for (l2, h2), k2 in S.SECOND_UNIT_CLASSES_16:
                    units = [Iv(lo, hi), Iv(l2, h2), Iv(0, 0xFFFF)]
                    results = seqs(U.run(prog, f, units))
                    nm = 'high surrogate + %X..%X' % (l2, h2)
                    if k2 == 'low surrogate':
                        plo, phi = S.pair_scalar_interval((lo, hi), (l2, h2))
                        exp = S.utf8_bytes_of(plo, phi) if out_char == 'char' else [(plo, phi)]
                        col.cell(nm, results, exp, 2, None)
                    else:
                        col.cell(nm + ' (%s)' % k2, results, None, None, 'high surrogate not followed by a low surrogate', max_consumed=1)
            elif kind == 'low surrogate':
                results = seqs(U.run(prog, f, [Iv(lo, hi), Iv(0, 0xFFFF)]))
                col.cell('%X..%X low surrogate' % (lo, hi), results, None, None, 'lone low surrogate', max_consumed=1)
            else:
                results = seqs(U.run(prog, f, [Iv(lo, hi), Iv(0, 0xFFFF)]))
                exp = S.utf8_bytes_of(lo, hi) if out_char == 'char' else [(lo, hi)]
                col.cell('%X..%X' % (lo, hi), results, exp, 1, None)
        col.flush()


def check_result_count_argument(prog, rep, rule):
    """R12.3: in a transcoder that counts invalid sequences, every UtfEncodingResult it builds reports that counter (not a literal)"""
    seen = set()
    for f in sorted(prog.funcs.values(), key=lambda x: x.id):
        if not f.q.startswith(U.NS) or f.name not in ('Encode', 'Decode'):
            continue
        has_counter = None
        for x in f.walk():
            if x['k'] == 'DeclStmt':
                for d in x.get('decls', ()):
                    if d['n'] == 'invalidSequencesCount':
                        has_counter = d['d']
        if has_counter is None:
            continue
        incremented = any(x['k'] == 'UnaryOperator' and x.get('op') == '++' and (strip(x['c'][0]) or {}).get('d') == has_counter for x in f.walk())
        if not incremented:
            continue
        rep.touch(f)
        from bsv.cfg import CFG
        g = CFG(f)
        live = set()
        for bid in g.reachable():
            for e in g.blocks[bid].el:
                if isinstance(e, int):
                    live.add(e)
        for x in f.walk():
            if x['k'] in ('CXXConstructExpr', 'CXXTemporaryObjectExpr') and 'UtfEncodingResult' in f.type(x) and len(x.get('c', ())) == 3:
                if x['i'] not in live:
                    continue   # statement after a return of an if-constexpr branch: unreachable in this instantiation
                third = strip(x['c'][2])
                site = '%s|%s' % (f.pq, f.pattern.rsplit('/', 1)[-1])
                key = (site, x['l'])
                if key in seen:
                    continue
                seen.add(key)
                if third is not None and third['k'] == 'DeclRefExpr' and third.get('d') == has_counter:
                    rep.ok(rule, '%s:%d' % (site, x['l']), nontrivial=False)
                else:
                    rep.finding(rule, '%s|result built with a literal count' % site, f.loc(x),
                                '%s returns a result whose InvalidSequencesCount is the literal %s although replacements may already have been made in this call'
                                % (f.pq, third.get('cv') if third else '?'), {'instantiation': f.id}, func=f.id)
