"""std::chrono arithmetic over linear forms (engine E9) - used by C06 R6.3 / C14 R14.4 (time value -> binary timestamp) and C14 R14.7
(time point -> calendar text: split into days and time of day).

A duration / time_point is its count as a linear form over the input count X (which ranges over the whole representation type); the period
comes from the static type of each expression. What std::chrono does is modelled operation by operation, as libstdc++ implements it:
  duration_cast to a coarser unit (period ratio 1/k) : truncating division - a fresh q with  q*k <= d <= q*k + k-1  (d >= 0)  or
                                                       q*k - (k-1) <= d <= q*k  (d < 0); the sign of d is a case split
  duration_cast / implicit conversion to a finer unit: d*k, which must stay inside the target representation
  floor to a coarser unit                            : fresh q with q*k <= d <= q*k + k-1
  a +/- b, +=, -=                                    : both operands converted to the common (finer) unit, result inside the representation
Every signed operation carries the obligation 'result representable'; an obligation that is not entailed by the path facts is an OVERFLOW
event with the source line (undefined behaviour for some input count)."""
import re
from fractions import Fraction
from bsv.dtab import TOP, AnalysisBroken, Interp, Struct, Sym, base_type, INT_TYPES
from bsv.facts import strip, strip_targs
from bsv.linear import Lin, entails, eq, le, lt, unsat
from bsv.linmodel import LinInterp, LinModel
from bsv import interval

X = Lin.sym('X')


def split_targs(s):
    out, depth, cur = [], 0, ''
    for ch in s:
        if ch == '<':
            depth += 1
        elif ch == '>':
            depth -= 1
        if ch == ',' and depth == 0:
            out.append(cur.strip())
            cur = ''
        else:
            cur += ch
    if cur.strip():
        out.append(cur.strip())
    return out


def duration_of(t):
    """(rep type, period Fraction) of a duration / time_point type string, or None"""
    t = t.replace('const ', '').replace('&', '').strip()
    i = t.rfind('std::chrono::duration<')
    if i < 0:
        return None
    j = i + len('std::chrono::duration<')
    depth, k = 1, j
    while k < len(t) and depth:
        if t[k] == '<':
            depth += 1
        elif t[k] == '>':
            depth -= 1
        k += 1
    args = split_targs(t[j:k - 1])
    rep = args[0]
    per = Fraction(1)
    if len(args) > 1:
        m = re.match(r'std::ratio<(-?\d+)(?:, *(-?\d+))?>', args[1])
        if not m:
            return None
        per = Fraction(int(m.group(1)), int(m.group(2) or 1))
    return rep, per


def rep_range(rep):
    r = interval.type_range(base_type(rep))
    if r is None:
        raise AnalysisBroken('chronolin: representation type %s is not an integer type' % rep)
    return r


class ChronoModel(LinModel):
    def __init__(self, xrange):
        self.xrange = xrange

    # ------------------------------------------------------------ obligations
    def fits(self, it, fr, n, v, rep, what):
        lo, hi = rep_range(rep)
        info = INT_TYPES.get(base_type(rep))
        c = self.cons(it)
        ok = entails(c, [le(lo, v)]) and entails(c, [le(v, hi)])
        if not ok:
            it.act('OVERFLOW' if (info is None or info[1]) else 'WRAP', what, fr.f.loc(n), '%s' % (v,), base_type(rep))
        return ok

    def convert(self, it, fr, n, v, src, dst, what):
        """count v of a duration src=(rep, period) as a count of dst=(rep, period): exact multiple or truncating division"""
        (srep, sper), (drep, dper) = src, dst
        ratio = sper / dper
        if ratio == 1:
            return v
        if ratio.denominator == 1:
            r = v.scale(ratio.numerator)
            self.fits(it, fr, n, r, 'long' if 'long' in base_type(drep) or 'long' in base_type(srep) else drep, what + ': count * %d' % ratio.numerator)
            return r
        if ratio.numerator == 1:
            return self.truncdiv(it, fr, n, v, ratio.denominator)
        raise AnalysisBroken('chronolin: conversion by the ratio %s at %s is not modelled' % (ratio, fr.f.loc(n)))

    def truncdiv(self, it, fr, n, v, k):
        if v.is_const():
            q = abs(v.c) // k
            return Lin.of(q if v.c >= 0 else -q)
        c = self.cons(it)
        if entails(c, [le(0, v)]):
            neg = False
        elif entails(c, [le(v, -1)]):
            neg = True
        else:
            neg = not it.choose(('LIN', '>=', v, Lin.of(0)))
        q = self.fresh(it, 'q%d' % k)
        if not neg:
            it.facts.extend([le(q.scale(k), v), le(v, q.scale(k) + (k - 1)), le(0, q)])
        else:
            it.facts.extend([le(q.scale(k) - (k - 1), v), le(v, q.scale(k)), le(q, 0)])
        return q

    def floordiv(self, it, fr, n, v, k):
        if v.is_const():
            return Lin.of(v.c // k)
        q = self.fresh(it, 'f%d' % k)
        it.facts.extend([le(q.scale(k), v), le(v, q.scale(k) + (k - 1))])
        return q

    # ------------------------------------------------------------ model interface
    def initial_store(self, it, key):
        return TOP

    def construct(self, it, fr, n, depth):
        vals = [it.ev(fr, a, depth) for a in n.get('c', ())]
        if len(vals) == 1:
            v = vals[0]
            a = n['c'][0]
            src, dst = duration_of(fr.f.type(a)), duration_of(fr.f.type(n))
            if src is not None and dst is not None and Lin.of(v) is not None and src[1] != dst[1]:
                return self.convert(it, fr, n, Lin.of(v), src, dst, 'implicit conversion of a duration')
            return v
        if not vals and duration_of(fr.f.type(n)) is not None:
            return Lin.of(0)
        return TOP

    def arith(self, it, fr, n, op, a, b):
        la, lb = Lin.of(a), Lin.of(b)
        if la is None or lb is None:
            return TOP
        t = fr.f.type(n)
        if op in ('+', '-'):
            r = la + lb if op == '+' else la - lb
            if interval.type_range(base_type(t)) is not None:
                self.fits(it, fr, n, r, t, 'operator %s' % op)
            return r
        if op == '*' and (la.is_const() or lb.is_const()):
            r = lb.scale(la.c) if la.is_const() else la.scale(lb.c)
            if interval.type_range(base_type(t)) is not None:
                self.fits(it, fr, n, r, t, 'operator *')
            return r
        if op == '/' and lb.is_const() and lb.c > 0:
            return self.truncdiv(it, fr, n, la, lb.c)
        if op == '%' and lb.is_const() and lb.c > 0:
            q = self.truncdiv(it, fr, n, la, lb.c)
            return la - q.scale(lb.c)
        return TOP

    def chrono_binary(self, it, fr, n, op, an, bn, a, b, update_key=None):
        da, db = duration_of(fr.f.type(an)), duration_of(fr.f.type(bn))
        la, lb = Lin.of(a), Lin.of(b)
        if da is None or db is None or la is None or lb is None:
            return TOP
        per = min(da[1], db[1]) if (max(da[1], db[1]) / min(da[1], db[1])).denominator == 1 else None
        if per is None:
            raise AnalysisBroken('chronolin: operands with the periods %s and %s at %s' % (da[1], db[1], fr.f.loc(n)))
        rep = da[0] if update_key is not None else ('long' if 'long' in (base_type(da[0]) + base_type(db[0])) else da[0])
        if update_key is not None:
            per = da[1]
        ca = self.convert(it, fr, n, la, da, (rep, per), 'left operand of %s' % op)
        cb = self.convert(it, fr, n, lb, db, (rep, per), 'right operand of %s' % op)
        if op in ('+', '-'):
            r = ca + cb if op == '+' else ca - cb
            self.fits(it, fr, n, r, rep, 'duration %s duration' % op)
            return r
        return self.lin_compare(it, fr, n, op, ca, cb)

    def primitive(self, it, fr, n, callee, depth):
        name = callee['n']
        q = strip_targs(callee['q'])
        obj, args = it.call_args(fr, n)
        operands = ([obj] if obj is not None else []) + list(args)
        if q.startswith('std::chrono::'):
            if name in ('time_since_epoch', 'count') and obj is not None:
                return it.ev(fr, obj, depth)
            if name in ('duration_cast', 'floor', 'time_point_cast') and args:
                v = Lin.of(it.ev(fr, args[0], depth))
                src, dst = duration_of(fr.f.type(args[0])), duration_of(fr.f.type(n))
                if v is None or src is None or dst is None:
                    return TOP
                ratio = src[1] / dst[1]
                if name == 'floor' and ratio.numerator == 1 and ratio.denominator > 1:
                    return self.floordiv(it, fr, n, v, ratio.denominator)
                return self.convert(it, fr, n, v, src, dst, name)
            if name in ('operator+', 'operator-') and len(operands) == 2:
                a, b = it.ev(fr, operands[0], depth), it.ev(fr, operands[1], depth)
                return self.chrono_binary(it, fr, n, name[8:], operands[0], operands[1], a, b)
            if name in ('operator+=', 'operator-=') and len(operands) == 2:
                key = it.lvalue(fr, operands[0], depth)
                a, b = it.ev(fr, operands[0], depth), it.ev(fr, operands[1], depth)
                r = self.chrono_binary(it, fr, n, name[8], operands[0], operands[1], a, b, update_key=key)
                if key is not None:
                    it.write_key(fr, key, r)
                return r
            if name in ('operator<', 'operator<=', 'operator>', 'operator>=', 'operator==', 'operator!=') and len(operands) == 2:
                a, b = it.ev(fr, operands[0], depth), it.ev(fr, operands[1], depth)
                return self.chrono_binary(it, fr, n, name[8:], operands[0], operands[1], a, b)
            if name == 'operator=' and len(operands) == 2:
                v = it.ev(fr, operands[1], depth)
                key = it.lvalue(fr, operands[0], depth)
                if key is not None:
                    it.write_key(fr, key, v)
                return v
            if name in ('min', 'max', 'zero') and not args:
                d = duration_of(fr.f.type(n))
                if d is not None:
                    lo, hi = rep_range(d[0])
                    return Lin.of({'min': lo, 'max': hi, 'zero': 0}[name])
            raise AnalysisBroken('chronolin: std::chrono::%s is not modelled (%s)' % (name, fr.f.loc(n)))
        return NotImplemented


class ChronoInterp(LinInterp, Interp):
    cur_node = None

    def ev_cast(self, fr, n, depth):
        v = Interp.ev_cast(self, fr, n, depth)
        lv = Lin.of(v) if isinstance(v, (Lin, int)) and not isinstance(v, bool) else None
        t = fr.f.type(n)
        r = interval.type_range(base_type(t))
        if lv is not None and r is not None and n['k'] != 'ImplicitCastExpr' or (lv is not None and r is not None and n.get('ck') in ('IntegralCast',)):
            c = self.model.cons(self)
            if not (entails(c, [le(r[0], lv)]) and entails(c, [le(lv, r[1])])):
                self.act('WRAPCAST', base_type(t), fr.f.loc(n), '%s' % (lv,))
        return v


    def exec_decl(self, fr, n, depth):
        """a local of unsigned type initialised by unsigned arithmetic only (wrap-around is defined, no obligation) is abstracted to the
        range of its type: keeps the case splits of the divisions out of the paths"""
        decls = n.get('decls', ())
        if len(decls) == 1 and n.get('c'):
            d = decls[0]
            t = base_type(fr.f.tu['types'][d['t']])
            info = INT_TYPES.get(t)
            init = n['c'][0]
            if info is not None and not info[1] and t != 'bool':
                ops = [x for x in fr.f.walk(init) if x['k'] == 'BinaryOperator' and x.get('op') in ('+', '-', '*', '/', '%')]
                calls = [x for x in fr.f.walk(init) if x['k'] in ('CallExpr', 'CXXMemberCallExpr', 'CXXOperatorCallExpr')]
                if ops and not calls and all(base_type(fr.f.type(x)).startswith('unsigned') for x in ops):
                    lo, hi = interval.type_range(t)
                    fr.env[d['d']] = self.model.fresh(self, 'u_' + d['n'], lo, hi)
                    return
        return Interp.exec_decl(self, fr, n, depth)


def run(prog, f, model, setup, max_paths=400, max_depth=1):
    it = ChronoInterp(prog, model, max_depth=max_depth, max_paths=max_paths)

    def init(it_, fr):
        it_.n_fresh = 0
        lo, hi = model.xrange
        it_.facts = [le(lo, X), le(X, hi)]
        setup(it_, fr)
    return it.run(f, init)
