"""C06 - MsgPack output is spec-conformant and compact (decision tables of both writers vs the specification)."""
from bsv.facts import AnalysisBroken, strip, strip_targs, child
from bsv.effects import live_walk
from rules import msgpack_writer_tables as W
from rules.c20 import pattern_in_lib
from spec import msgpack_spec as SPEC

PROP = 'C06'
LEVEL = 'other'
EXPLANATION = ('Abstract interpretation of both MsgPack writers over value/length intervals partitioned at every constant they compare with: '
               'R6.1 for every cell the emitted byte sequence (format code, length-field width, big-endian payload of the argument itself) '
               'equals the most compact legal MessagePack format of the specification, oversize lengths throw; nil/bool/float/double codes; '
               'timestamp header and field layout. R6.2 memory and stream writers have equal tables (byte-identical output given the sink '
               'idiom map). R6.3 the seconds component of time_point/duration -> timestamp conversions rounds toward minus infinity. '
               'R6.4 multi-byte scalars reach the sink only through NativeToBigEndian. R6.6 the field counter that produces the map header takes the same serialization route as the writer for every instantiated class. '
               'Not decided: that an independent decoder recovers equal values (payload bit patterns are delegated to memcpy/BigEndian).')
ASSUMPTIONS = ['push_back/append and put/write append the same bytes (sink idiom map)',
               'Memory::NativeToBigEndian produces network byte order (its body is checked structurally by R6.4 only)']
TRUSTED = ['clang 14 AST + constant evaluation', 'bsfacts', 'bsv/dtab.py interpreter', 'spec/msgpack_spec.py']


def cell_str(c):
    if isinstance(c[0], tuple):
        return 'sec %d..%d ns %d..%d' % (c[0][0], c[0][1], c[1][0], c[1][1])
    return '%d..%d' % c


def run(prog, rep):
    rep.rule('R6.1', 'writer decision tables = MessagePack spec: every value/length cell is emitted in the most compact legal format '
                     '(first byte, length-field width, big-endian payload = the argument); oversize => exception', floor=2 * 250)
    rep.rule('R6.2', 'memory and stream MsgPack writers have equal emission tables for every overload and every cell', floor=240)
    rep.rule('R6.3', 'time_point/duration -> CBinTimestamp with sub-second period: the seconds component is rounded toward minus infinity '
                     '(floor), so the nanoseconds remainder is 0..999999999', floor=2)
    rep.rule('R6.4', 'multi-byte scalars reach the output only as big-endian (EMITBE through NativeToBigEndian), never as native-order raw bytes', floor=2 * 40)
    check_scope_headers(prog, rep)
    from rules import byte_sequences
    byte_sequences.check(prog, rep, 'R6.10', 'Write')
    T = W.writer_tables(prog)

    # ------------------------------------------------------------------ R6.1 / R6.4
    for kind in sorted(T):
        for (name, pt), (f, fam, per) in sorted(T[kind].items(), key=lambda kv: str(kv[0])):
            rep.touch(f)
            bad = {}
            if fam == 'timestamp':
                check_timestamp_writer(rep, kind, name, pt, f, per, 'R6.1', 'R6.4')
                continue
            for cell, seqs in sorted(per.items()):
                site = '%s|%s(%s)|%s' % (kind, name, pt, cell_str(cell))
                # R6.4 on every emitted sequence
                raw_native = [a for s in seqs for a in s if a[0] == 'EMITRAW' and str(a[1]).startswith('native:')]
                if raw_native:
                    rep.finding('R6.4', '%s|%s(%s)' % (kind, name, pt), f.loc(),
                                '%s writer %s(%s) appends a multi-byte scalar in native byte order' % (kind, name, pt), {'emitted': str(seqs)}, func=f.id)
                else:
                    rep.ok('R6.4', site, nontrivial=any(a[0] == 'EMITBE' for s in seqs for a in s))
                exp, label = expected(fam, cell)
                if exp is None:
                    continue
                got = set(W.norm_seq(s) for s in seqs)
                if exp == 'TOOBIG':
                    ok = all(s and s[-1][0] == 'THROW' for s in got) and bool(got)
                elif fam == 'str':
                    ok = got == {W.norm_seq(exp) + (('EMITRAW', 'PAYLOAD', 'all'),)} or got == {W.norm_seq(exp) + (('EMITRAW', 'PAYLOADDATA', 'ARG'),)}
                elif fam in ('uint', 'sint'):
                    ok = len(got) == 1 and got <= set(W.norm_seq(e) for e in exp)
                else:
                    ok = got == {W.norm_seq(exp)}
                if ok:
                    rep.ok('R6.1', site, sample={'writer': kind, 'overload': '%s(%s)' % (name, pt), 'cell': cell_str(cell), 'format': label,
                                                 'emitted': str(sorted(got))} if cell[0] in (128, 256, 16) else None)
                else:
                    bad.setdefault(label, []).append((cell, sorted(got), exp))
            for label, lst in bad.items():
                cellsd = ', '.join(cell_str(c) for c, _, _ in lst[:6])
                rep.finding('R6.1', '%s|%s(%s)|%s' % (kind, name, pt, label), f.loc(),
                            '%s writer %s(%s): values %s should be written as %s (most compact legal format) but the writer emits %s'
                            % (kind, name, pt, cellsd, label, lst[0][1]),
                            {'cells': [cell_str(c) for c, _, _ in lst], 'expected': str(lst[0][2]), 'emitted': str(lst[0][1])}, func=f.id, count=len(lst))

    # ------------------------------------------------------------------ R6.2 twins
    for mkey in sorted(T['string'], key=str):
        fs, fam, ps = T['string'][mkey]
        ft, _, pt_ = T['stream'][mkey]
        diff = []
        for cell in sorted(ps):
            a = set(map(twin_norm, ps[cell]))
            b = set(map(twin_norm, pt_.get(cell, [])))
            if a == b:
                rep.ok('R6.2', '%s(%s)|%s' % (mkey[0], mkey[1], cell_str(cell)))
            else:
                diff.append((cell, sorted(a), sorted(b)))
        if diff:
            rep.finding('R6.2', '%s(%s)' % mkey, ft.loc(),
                        'string and stream MsgPack writers emit different bytes in %s(%s) for values %s' % (mkey[0], mkey[1], ', '.join(cell_str(c) for c, _, _ in diff[:6])),
                        {'string': str(diff[0][1]), 'stream': str(diff[0][2])}, func=ft.id, count=len(diff))

    check_floor_split(prog, rep)

    # R6.5 (a completeness check "declared == written" in the write scopes) is NOT armed: its absence does not by itself break the
    # property - no input was found for which the library writes fewer entries than FieldsCountVisitor / GetContainerSize announced -
    # so demanding it would be more than the property states (DESIGN.md, C06).
    rep.note('informational: MsgPack write scopes only detect writing MORE than the declared count (no declared==written check at scope end)')
    check_count_routes(prog, rep)



def check_timestamp_writer(rep, kind, name, pt, f, per, rule, rule_be, order=True):
    """WriteValue(CBinTimestamp) of one writer over the (seconds, nanoseconds) cells: layout per the MessagePack timestamp extension"""
    tsbad = {}
    for cell, seqs in sorted(per.items()):
        check_timestamp_cell(rep, kind, f, cell, seqs, tsbad, rule)
    for label, lst in tsbad.items():
        rep.finding(rule, '%s|WriteValue(CBinTimestamp)|%s' % (kind, label), f.loc(),
                    '%s writer: timestamps with seconds/nanoseconds in %s must be written as %s but the writer emits %s'
                    % (kind, ', '.join('sec %d..%d ns %d..%d' % (c[0][0], c[0][1], c[1][0], c[1][1]) for c, _ in lst[:4]), label, lst[0][1]),
                    {'cells': [str(c) for c, _ in lst], 'emitted': str(lst[0][1])}, func=f.id, count=len(lst))
    if order:
        check_timestamp96_order(rep, kind, f, per, rule)
    native = sorted(set(str(a[1]) for seqs in per.values() for s_ in seqs for a in s_ if a[0] == 'EMITRAW' and str(a[1]).startswith('native:')))
    if native:
        rep.finding(rule_be, '%s|%s(%s)' % (kind, name, pt), f.loc(),
                    '%s writer %s(%s) appends a multi-byte scalar in native byte order' % (kind, name, pt), {'emitted': str(native)}, func=f.id)
    else:
        rep.ok(rule_be, '%s|%s(%s)|timestamp cells' % (kind, name, pt))


def check_timestamp_writers(prog, rep, rule):
    """shared with C14: both writers, timestamp overload only"""
    T = W.writer_tables(prog)
    n = 0
    for kind in sorted(T):
        for (name, pt), (f, fam, per) in sorted(T[kind].items(), key=lambda kv: str(kv[0])):
            if fam == 'timestamp':
                rep.touch(f)
                check_timestamp_writer(rep, kind, name, pt, f, per, rule, rule, order=False)
                n += 1
    if n != 2:
        raise AnalysisBroken('%s: expected the timestamp overload of both MsgPack writers, found %d' % (rule, n))
    # order of the two fields in the 96-bit layout as the writers emit it (agreement is R6.2's business)
    hdr = (('EMIT1', 'const', 0xc7), ('EMIT1', 'const', 12), ('EMIT1', 'const', 0xff))
    orders = set()
    for kind in sorted(T):
        for (name, pt), (f, fam, per) in T[kind].items():
            if fam == 'timestamp':
                for seqs in per.values():
                    for s_ in seqs:
                        if s_[:3] == hdr:
                            orders.add(tuple(a[1] for a in s_[3:] if a[0] == 'EMITBE'))
    return orders


def check_timestamp_cell(rep, kind, f, cell, seqs, bad, rule='R6.1'):
    """spec 'Timestamp extension type': ts32 (d6 ff + BE32 seconds) iff nanoseconds == 0 and 0 <= seconds < 2^32;
    ts64 (d7 ff + BE64 (nanoseconds << 34 | seconds)) iff 0 <= seconds < 2^34 otherwise; else ts96 (c7 0c ff + 12 bytes)."""
    (slo, shi), (nlo, nhi) = cell
    got = set(seqs)
    site = '%s|WriteValue(CBinTimestamp)|sec %d..%d ns %d..%d' % (kind, slo, shi, nlo, nhi)
    if slo >= 0 and shi < (1 << 32) and nhi == 0:
        want = {(('EMIT1', 'const', 0xd6), ('EMIT1', 'const', 0xff), ('EMITBE', 'SEC', 4, 4))}
        label = 'timestamp 32'
    elif slo >= 0 and shi < (1 << 34):
        want = {(('EMIT1', 'const', 0xd7), ('EMIT1', 'const', 0xff), ('EMITBE', 'OR(SHL34(NS),SEC)', 8, 8))}
        if nhi == 0:
            want.add((('EMIT1', 'const', 0xd7), ('EMIT1', 'const', 0xff), ('EMITBE', 'SEC', 8, 8)))
        if slo == shi == 0:
            want.add((('EMIT1', 'const', 0xd7), ('EMIT1', 'const', 0xff), ('EMITBE', 'SHL34(NS)', 8, 8)))
        label = 'timestamp 64'
    elif shi < 0 or slo >= (1 << 34):
        label = 'timestamp 96'
        hdr = (('EMIT1', 'const', 0xc7), ('EMIT1', 'const', 12), ('EMIT1', 'const', 0xff))
        ok = len(got) == 1 and all(s[:3] == hdr and sorted((a[1], a[2]) for a in s[3:] if a[0] == 'EMITBE') == [('NS', 4), ('SEC', 8)]
                                   and len(s) == 5 for s in got)
        if ok:
            rep.ok(rule, site, sample={'writer': kind, 'cell': site.split('|')[-1], 'layout': label})
        else:
            bad.setdefault(label, []).append((cell, sorted(got)))
        return
    else:
        raise AnalysisBroken('timestamp cell %r straddles a spec threshold' % (cell,))
    if len(got) == 1 and got <= want:
        rep.ok(rule, site, sample={'writer': kind, 'cell': site.split('|')[-1], 'layout': label} if slo == (1 << 32) else None)
    else:
        bad.setdefault(label, []).append((cell, sorted(got)))


def check_timestamp96_order(rep, kind, f, per, rule='R6.1'):
    hdr = (('EMIT1', 'const', 0xc7), ('EMIT1', 'const', 12), ('EMIT1', 'const', 0xff))
    s96 = sorted(set(s for seqs in per.values() for s in seqs if s[:3] == hdr))
    site = '%s|WriteValue(CBinTimestamp)|timestamp 96' % kind
    if not s96:
        rep.finding(rule, site + '|missing', f.loc(), '%s writer: no timestamp 96 (c7 0c ff) path' % kind, func=f.id)
        return
    pay = [(a[1], a[2]) for a in s96[0][3:] if a[0] == 'EMITBE']
    if pay == [('NS', 4), ('SEC', 8)]:
        rep.ok(rule, site + '|field order', sample={'writer': kind, 'layout': 'timestamp 96', 'fields': pay})
    else:
        rep.finding(rule, site + '|field order', f.loc(),
                    '%s writer: timestamp 96 payload is %s; the specification requires 32-bit nanoseconds first, then 64-bit seconds' % (kind, pay),
                    {'emitted': str(s96[0])}, func=f.id)


def twin_norm(seq):
    out = []
    for a in W.norm_seq(seq):
        if a[0] == 'EMITRAW':
            out.append(('EMITRAW',))
        else:
            out.append(a)
    return tuple(out)


def has_negative_adjustment(f):
    """an if-statement testing a remainder/nanoseconds value against zero whose body writes Seconds or the remainder"""
    for n in f.walk():
        if n['k'] != 'IfStmt':
            continue
        cond = child(n, 'cond')
        if cond is None:
            continue
        has_lt0 = any(x['k'] in ('BinaryOperator', 'CXXOperatorCallExpr') and x.get('op') in ('<', '>') for x in f.walk(cond))
        writes = any(x['k'] in ('UnaryOperator', 'CompoundAssignOperator', 'BinaryOperator') and x.get('op') in ('--', '-=', '=', '+=')
                     and (strip(x['c'][0]) or {}).get('m') in ('Seconds', 'Nanoseconds') for x in f.walk(child(n, 'then')))
        if has_lt0 and writes:
            return True
    return False


def expected(fam, cell):
    lo, hi = cell
    if fam in ('uint', 'sint'):
        return W.expected_int(fam, lo, hi)
    if fam in ('str', 'array', 'map', 'bin'):
        return W.expected_len(fam, lo, hi)
    if fam == 'nil':
        return (('EMIT1', 'const', 0xc0),), 'nil'
    if fam == 'bool':
        return (('EMIT1', 'const', 0xc3 if lo else 0xc2),), 'true' if lo else 'false'
    if fam == 'float':
        return (('EMIT1', 'const', 0xca), ('EMITBE', "('BITS', 'FLT', 4)", 4, 4)), 'float 32'
    if fam == 'double':
        return (('EMIT1', 'const', 0xcb), ('EMITBE', "('BITS', 'FLT', 8)", 8, 8)), 'float 64'
    if fam == 'binbyte':
        return (('EMIT1', 'iv', -128, 127, 'ARG'),), 'binary payload byte'
    if fam == 'timestamp':
        return None, 'timestamp'
    raise AnalysisBroken('no writer expectation for family %s' % fam)


# ---------------------------------------------------------------------------------------- R6.6 field counter follows the writer's route
def check_count_routes(prog, rep, rule='R6.6'):
    """The MsgPack map header is written from FieldsCountVisitor::Count<T>() before the fields are written by Serialize(archive, T&).
    Both pick the serialization route of T with `if constexpr` chains over the same traits; per instantiated class T the routes taken by the
    counter (T::Serialize member / global SerializeObject, in this multiplicity) must be exactly those taken by the writer dispatch."""
    from bsv.facts import strip_targs
    rep.rule(rule, 'per class T: FieldsCountVisitor::Count<T> takes exactly the serialization route(s) that Serialize(archive, T&) takes '
                   '(internal Serialize() xor global SerializeObject()), so the declared map size equals the number of entries written', floor=6)

    def routes(f, tname, depth=0):
        r = {'member': 0, 'global': 0}
        for n in f.walk():
            if n['k'] == 'CXXMemberCallExpr':
                c = f.callee(n) or {}
                if c.get('n') == 'Serialize' and c.get('cls', c.get('clsq', '')) and strip_targs(c['q']).endswith('::Serialize'):
                    r['member'] += 1
                elif c.get('repo') and c.get('cls') and c.get('cls') == f.cls and depth < 2 and c.get('n') != f.name:
                    h = prog.funcs.get(c['id'])         # the dispatch extracted into a private member of the visitor
                    if h is not None and h.body is not None:
                        rh = routes(h, tname, depth + 1)
                        r['member'] += rh['member']
                        r['global'] += rh['global']
            elif n['k'] == 'CallExpr':
                c = f.callee(n) or {}
                if c.get('n') == 'SerializeObject':
                    r['global'] += 1
        return r

    def arg_type(f, idx):
        from bsv.dtab import base_type
        return base_type(f.type(f.params[idx])) if len(f.params) > idx and 't' in f.params[idx] else None

    counters, writers = {}, {}
    for f in prog.funcs.values():
        if f.body is None:
            continue
        if f.name == 'Count' and strip_targs(f.cls or '') == 'BitSerializer::FieldsCountVisitor' and len(f.params) == 1:
            counters.setdefault(arg_type(f, 0), f)
        elif f.q == 'BitSerializer::Serialize' and len(f.params) == 2 and f.relfile.endswith('serialization_base_types.h') \
                and 'SerializeMode::Save' in f.id.replace('(BitSerializer::SerializeMode)1', 'SerializeMode::Save'):
            t = arg_type(f, 1)
            if t and any((f.callee(n) or {}).get('n') in ('Serialize', 'SerializeObject') for n in f.walk() if n['k'] in ('CallExpr', 'CXXMemberCallExpr')):
                writers.setdefault(t, f)
    n = 0
    for t in sorted(counters):
        if t not in writers:
            continue
        cf, wf = counters[t], writers[t]
        rc, rw = routes(cf, t), routes(wf, t)
        n += 1
        rep.touch(cf)
        rep.touch(wf)
        short = t.replace('BitSerializer::', '')
        if rc == rw and rc['member'] + rc['global'] == 1:
            rep.ok(rule, 'routes|%s' % short, sample={'class': short, 'counter': rc, 'writer': rw})
        else:
            rep.finding(rule, 'routes|%s' % ('class with both routes' if (rc['member'] and rc['global']) or (rw['member'] and rw['global']) else short), cf.loc(),
                        'class %s: the field counter takes routes %s, the writer takes %s - the map header declares a different number of entries than are written'
                        % (short, rc, rw), func=cf.id)
    if n < 3:
        raise AnalysisBroken('%s: fewer than 3 classes with both a counter and a writer instantiation' % rule)
    # chained `counter << a << b` must count a and b in the same object: the operators hand back a reference to *this, never a copy
    n_ops = 0
    seen = set()
    for f in sorted(prog.funcs.values(), key=lambda g: g.id):
        if f.body is None or strip_targs(f.cls or '') != 'BitSerializer::FieldsCountVisitor' or not f.name.startswith('operator'):
            continue
        ret = f.tu['types'][f.sym['ret']] if 'ret' in f.sym else ''
        key = (f.relfile, f.raw.get('l', f.loc()))
        n_ops += 1
        rep.touch(f)
        site = 'chaining|%s at %s' % (f.name, f.loc())
        rets = [x for x in f.walk() if x['k'] == 'ReturnStmt']
        this_ok = all(any(y['k'] == 'CXXThisExpr' for y in f.walk(x)) for x in rets) and bool(rets)
        if ret.rstrip().endswith('&') and 'FieldsCountVisitor' in ret and this_ok:
            if key not in seen:
                rep.ok(rule, site)
        else:
            if key not in seen:
                rep.finding(rule, 'chaining|%s returns %s' % (f.name, 'a copy' if not ret.rstrip().endswith('&') else 'another object'), f.loc(),
                            'FieldsCountVisitor::%s returns %s: in `archive << BaseObject<B>(*this) << KeyValue(...)` the fields after it are counted on a '
                            'temporary, the map header declares fewer entries than are written' % (f.name, ret), func=f.id)
        seen.add(key)
    if n_ops < 2:
        raise AnalysisBroken('%s: operator<< overloads of FieldsCountVisitor not found' % rule)


def check_floor_split(prog, rep, rule='R6.3'):
    """time_point / duration with a sub-second period -> CBinTimestamp, interpreted over linear forms (rules/chronolin.py) with the source
    count X ranging over its whole representation: on every path  0 <= Nanoseconds <= 999999999,  Seconds * 10^9 + Nanoseconds is exactly the
    source value in nanoseconds, and no signed operation (including the conversions std::chrono performs) leaves its type."""
    from fractions import Fraction
    from rules import chronolin as CL
    from bsv.linear import Lin, entails, eq, le
    n63 = 0
    for f in sorted(prog.funcs.values(), key=lambda x: x.id):
        if f.q != 'BitSerializer::Detail::To' or not f.params or 'CBinTimestamp &' not in f.tu['types'][f.params[-1]['t']] \
                or f.tu['types'][f.params[-1]['t']].startswith('const') or f.body is None:
            continue
        src = CL.duration_of(f.tu['types'][f.params[0]['t']])
        if src is None:
            raise AnalysisBroken(rule + ': source type of %s is not a duration / time_point' % f.id[:100])
        rep.touch(f)
        if src[1] >= 1:
            continue   # period >= seconds: SafeDurationCast, nanoseconds is the constant 0 (C15 R15.1)
        n63 += 1
        k = Fraction(1) / src[1]
        if k.denominator != 1 or (10 ** 9) % k.numerator:
            raise AnalysisBroken(rule + ': sub-second period %s of %s is not a decimal fraction of a second' % (src[1], f.id[:100]))
        k = k.numerator
        model = CL.ChronoModel(CL.rep_range(src[0]))

        def setup(it, fr):
            fr.env[f.params[0]['d']] = CL.X
            fr.alias[f.params[-1]['d']] = 'OUT'
        site = '%s|%s|%s x %s' % (f.pq, 'time_point' if 'time_point' in f.id else 'duration', src[0], src[1])
        bad = None
        for p in CL.run(prog, f, model, setup):
            cons = list(p.facts or [])
            for lab, d in p.guards:
                if isinstance(lab, tuple) and lab and lab[0] == 'LIN':
                    from bsv.linmodel import rel, NEG
                    r = rel(lab[1] if d else NEG[lab[1]], lab[2], lab[3])
                    if r:
                        cons.extend(r)
            from bsv.linear import unsat
            if unsat(cons):
                continue
            ov = [a for a in p.actions if a[0] in ('OVERFLOW',)]
            if ov:
                bad = bad or (ov[0][2], '%s leaves the type %s for some source value (the expression is %s with X the source count in [%d, %d]): signed overflow - '
                              'undefined behaviour for values within one second of the most negative representable one' % (ov[0][1], ov[0][4], ov[0][3], model.xrange[0], model.xrange[1]))
                continue
            if p.outcome[0] == 'THROW':
                bad = bad or (f.loc(), 'throws %s for a representable value' % p.outcome[1])
                continue
            sec, ns = Lin.of(p.store.get('OUT.Seconds')), Lin.of(p.store.get('OUT.Nanoseconds'))
            if sec is None or ns is None:
                bad = bad or (f.loc(), 'Seconds / Nanoseconds are not stored as values derived from the source (%s, %s)' % (p.store.get('OUT.Seconds'), p.store.get('OUT.Nanoseconds')))
                continue
            if not (entails(cons, [le(0, ns)]) and entails(cons, [le(ns, 999999999)])):
                bad = bad or (f.loc(), 'the nanoseconds field (%s) is not confined to 0..999999999: instants before the epoch with a sub-second part get a '
                              'negative nanoseconds field (truncation toward zero instead of rounding toward minus infinity)' % (ns,))
                continue
            if not all(entails(cons, [c_]) for c_ in eq(sec.scale(10 ** 9) + ns, CL.X.scale(10 ** 9 // k))):
                bad = bad or (f.loc(), 'Seconds * 10^9 + Nanoseconds (%s, %s) is not the source value' % (sec, ns))
                continue
            if any(a[0] == 'WRAPCAST' for a in p.actions):
                w = [a for a in p.actions if a[0] == 'WRAPCAST'][0]
                bad = bad or (w[2], 'conversion to %s changes the value %s' % (w[1], w[3]))
        if bad:
            rep.finding(rule, site, bad[0], '%s: %s' % (site, bad[1]), {'instantiation': f.id}, func=f.id)
        else:
            rep.ok(rule, site, sample={'function': f.id[:150], 'source': '%s x %s' % src, 'proved': 'no overflow; 0 <= ns <= 999999999; sec*10^9 + ns == value'})
    if n63 == 0:
        raise AnalysisBroken(rule + ': no sub-second instantiation of To(time_point|duration -> CBinTimestamp) in the analysed program')




def check_scope_headers(prog, rep):
    """R6.7: every Open{Array,Object,Binary}Scope of the MsgPack write scopes (root, array element, keyed object member) emits the header of
    its own family - BeginArray / BeginMap / BeginBinary - with the size it was given (a helper called from the method is followed)."""
    from rules import field_counter
    field_counter.check(prog, rep, 'R6.8')
    from rules import counted_written
    counted_written.check(prog, rep, 'R6.9')
    rep.rule('R6.7', 'MsgPack write scopes: OpenArrayScope -> BeginArray(size), OpenObjectScope -> BeginMap(size), OpenBinaryScope -> BeginBinary(size) '
                     'in the root, array and object scope', floor=9)
    want = {'OpenArrayScope': 'BeginArray', 'OpenObjectScope': 'BeginMap', 'OpenBinaryScope': 'BeginBinary'}
    n = 0
    seen = set()
    for f in sorted(prog.funcs.values(), key=lambda g: g.id):
        if f.body is None or f.name not in want or 'MsgPackWrite' not in (f.cls or ''):
            continue
        key = (strip_targs(f.cls), f.name, len(f.params))
        if key in seen:
            continue
        seen.add(key)
        rep.touch(f)
        n += 1
        calls = []

        def collect(g, argmap, depth):
            for x in g.walk():
                if x['k'] == 'CXXMemberCallExpr':
                    c = g.callee(x) or {}
                    if c.get('n', '').startswith('Begin') and strip_targs(c.get('cls') or '').endswith('Writer'):     # IMsgPackWriter / the two writers
                        a = strip(x['c'][1]) if len(x['c']) > 1 else None
                        d = a.get('d') if a is not None and a['k'] == 'DeclRefExpr' else None
                        calls.append((c['n'], argmap.get(d, d)))
                    elif c.get('repo') and c.get('cls') and strip_targs(c['cls']) == strip_targs(f.cls) and depth < 2:
                        h = prog.funcs.get(c.get('id'))
                        if h is not None:
                            am = {}
                            for i, p_ in enumerate(h.params):
                                if i + 1 < len(x['c']):
                                    a = strip(x['c'][i + 1])
                                    if a is not None and a['k'] == 'DeclRefExpr':
                                        am[p_['d']] = argmap.get(a.get('d'), a.get('d'))
                            collect(h, am, depth + 1)
        collect(f, {}, 0)
        size_params = [p_['d'] for p_ in f.params if f.tu['types'][p_['t']].replace('const ', '').strip() in ('unsigned long', 'size_t', 'std::size_t')]
        site = '%s::%s/%d' % (strip_targs(f.cls).rsplit('::', 1)[-1], f.name, len(f.params))
        if len(calls) == 1 and calls[0][0] == want[f.name] and (calls[0][1] in size_params):
            rep.ok('R6.7', site, sample={'scope': site, 'header': calls[0][0]})
        else:
            rep.finding('R6.7', site, f.loc(), '%s writes the header with %s, expected exactly one %s(<the size it was given>): the value is written under the '
                        'wrong MessagePack family (e.g. a byte container as an array of integers)' % (site, ['%s(%s)' % (c, 'size' if a in size_params else '?') for c, a in calls] or 'nothing', want[f.name]), func=f.id)
    if n < 9:
        raise AnalysisBroken('R6.7: expected the 9 Open*Scope methods of the three MsgPack write scopes, found %d' % n)
