"""No counter of input-driven events is narrower than 32 bits (C01 R1.10, C10 R10.16).

A local or member of an 8- or 16-bit integer type that is incremented, decremented or accumulated into inside a loop wraps after 256 / 65536
events. Where only its parity is used nothing shows; where it is compared with zero, used as a size or as an index, one input in 256 takes
the wrong branch (a CSV field with 256 quote characters is reported as having none). The library has no such object today - sizes and counters
are size_t - so the expected count is zero; a positive example in the witness must match on every run."""
from bsv.dtab import INT_TYPES, AnalysisBroken, base_type
from bsv.facts import strip


def check(prog, rep, rule):
    rep.rule(rule, 'no integer object narrower than 32 bits is incremented / accumulated inside a loop (a counter of input events that wraps '
                   'after 256 or 65536 of them); expected zero sites in the library, one positive example in the witness', floor=1)
    pos = False
    n_loops = 0
    seen = set()
    for f in sorted(prog.funcs.values(), key=lambda g: g.id):
        if f.body is None:
            continue
        lib = f.relfile.startswith(('include/bitserializer/', 'src/')) and 'testing_tools' not in f.relfile
        wit = 'positive_example' in f.id
        if not (lib or wit):
            continue
        for n in f.walk():
            t = None
            if n['k'] == 'UnaryOperator' and n.get('op') in ('++', '--'):
                t = strip(n['c'][0])
            elif n['k'] == 'CompoundAssignOperator' and n.get('op') in ('+=', '-='):
                t = strip(n['c'][0])
            if t is None or t['k'] not in ('DeclRefExpr', 'MemberExpr'):
                continue
            p, inloop = f.parent(n), False
            while p is not None:
                if p['k'] in ('ForStmt', 'WhileStmt', 'DoStmt', 'CXXForRangeStmt'):
                    inloop = True
                    break
                p = f.parent(p)
            if not inloop:
                continue
            n_loops += 1
            info = INT_TYPES.get(base_type(f.type(t)))
            if not info or info[0] >= 32 or info[0] == 1:
                continue
            nm = t.get('n') or t.get('m')
            if wit:
                pos = True
                rep.ok(rule, 'positive example matched|%s' % f.name, sample={'site': f.loc(n), 'type': base_type(f.type(t))})
                continue
            key = (f.relfile, n['l'], nm)
            if key in seen:
                continue
            seen.add(key)
            rep.touch(f)
            rep.finding(rule, '%s|%s' % (f.pq if f.cls else f.name, nm), f.loc(n),
                        '%s: "%s" of type %s (%d bits) is %s inside a loop: it wraps after %d events, so a test against zero, a size or an index '
                        'derived from it is wrong for one input in %d' % (f.pq if f.cls else f.name, nm, base_type(f.type(t)), info[0],
                                                                       'incremented' if n['k'] == 'UnaryOperator' else 'accumulated', 1 << info[0], 1 << info[0]),
                        func=f.id)
    if not pos:
        raise AnalysisBroken('%s: the positive example in the witness was not matched - the pattern no longer recognises the construct' % rule)
    if not seen:
        rep.ok(rule, 'library|no narrow counter', sample={'counter updates inside loops inspected': n_loops})
