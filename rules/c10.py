"""C10 - memory and stream loading are equivalent (sibling cross-checks of the duplicated implementations)."""
from rules import msgpack_tables as M

PROP = 'C10'
LEVEL = 'other'
EXPLANATION = ('The memory and stream code paths are separately written copies. R10.1: the two MsgPack readers have equal decision tables '
               '(outcome, payload reads, conversions, stores, skips, nested-skip loops) for all interface methods x all 256 first bytes. '
               'R10.2: the two MsgPack writers emit the same byte sequence shape for every value interval (see C06 tables). R10.3/R10.4: the '
               'two CSV readers / writers have equal statement skeletons modulo the enumerated refill/encoding blocks. R10.5: failure results '
               'of stream positioning are consumed and seekg after EOF is preceded by clear(). Not decided: behaviour at every chunk alignment '
               'and for every streambuf kind at value level.')
ASSUMPTIONS = ['the idiom map between sinks/sources of the twins is sound (push_back/append vs put/write; mInputData[mPos] vs PeekByte())']
TRUSTED = ['clang 14 AST + constant evaluation', 'bsfacts', 'bsv/dtab.py interpreter', 'tables/twins.json']


def run(prog, rep):
    M.check_reader_twins(prog, rep)
    try:
        from rules import twins_extra
    except ImportError:
        twins_extra = None
    if twins_extra is not None:
        twins_extra.run(prog, rep)
