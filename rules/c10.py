"""C10 - memory and stream loading are equivalent (sibling cross-checks of the duplicated implementations)."""
from rules import msgpack_tables as M

PROP = 'C10'
LEVEL = 'other'
EXPLANATION = ('The memory and stream code paths are separately written copies. R10.1: the two MsgPack readers have equal decision tables '
               '(outcome, payload reads, conversions, stores, skips, nested-skip loops) for all interface methods x all 256 first bytes. '
               'R10.2: the two MsgPack writers emit the same byte sequence shape for every value interval (see C06 tables). R10.3/R10.4: the '
               'two CSV readers / writers have equal statement skeletons modulo the enumerated refill/encoding blocks. R10.5: failure results '
               'of stream positioning are consumed and seekg after EOF is preceded by clear(). Not decided: behaviour at every chunk alignment '
               'and for every streambuf kind at value level.')
ASSUMPTIONS = ['the idiom map between sinks/sources of the twins is sound (push_back/append vs put/write; mInputData[mPos] vs PeekByte())']
TRUSTED = ['clang 14 AST + constant evaluation', 'bsfacts', 'bsv/dtab.py interpreter', 'tables/twins.json']


def run(prog, rep):
    from rules import adapter_twins
    adapter_twins.check(prog, rep, 'R10.18')
    from rules import narrow_counters
    narrow_counters.check(prog, rep, 'R10.16')
    from rules import csvunescape
    csvunescape.check(prog, rep, 'R10.15', twins=True)
    from rules import csv_header
    csv_header.check(prog, rep, 'R10.19')
    from rules import csv_options
    csv_options.check(prog, rep, 'R10.13')
    M.check_reader_twins(prog, rep)
    rep.rule('R10.1s', 'string and stream SkipValueImpl skip the same extent and the same number of nested values for every first byte', floor=256)
    M.check_skip_twins(prog, rep, 'R10.1s')
    rep.rule('R10.12', 'both MsgPack reader copies keep every length taken from the input in an integer object wide enough for its length field '
                       '(8 x field bytes, one more bit when something is added): a copy that narrows it agrees with its twin only for short payloads', floor=20)
    M.narrow_findings(prog, rep, 'R10.12')
    rep.rule('R10.17', 'ReadExtSize (both reader copies): the length field of k = 1, 2, 4 bytes is read once, unsigned, and returned', floor=6)
    M.check_ext_size(prog, rep, 'R10.17')
    from rules import c06
    from rules import msgpack_writer_tables as W
    rep.rule('R10.2', 'memory and stream MsgPack writers have equal emission tables for every overload and every value/length cell', floor=240)
    T = W.writer_tables(prog)
    for mkey in sorted(T['string'], key=str):
        fs, fam, ps = T['string'][mkey]
        ft, _, pt_ = T['stream'][mkey]
        rep.touch(fs)
        rep.touch(ft)
        diff = []
        for cell in sorted(ps):
            a = set(map(c06.twin_norm, ps[cell]))
            b = set(map(c06.twin_norm, pt_.get(cell, [])))
            if a == b:
                rep.ok('R10.2', '%s(%s)|%s' % (mkey[0], mkey[1], c06.cell_str(cell)),
                       sample={'overload': '%s(%s)' % mkey, 'cell': c06.cell_str(cell), 'emitted': str(sorted(a))} if cell[0] == 256 else None)
            else:
                diff.append((cell, sorted(a), sorted(b)))
        if diff:
            rep.finding('R10.2', '%s(%s)' % mkey, ft.loc(),
                        'string and stream MsgPack writers emit different bytes in %s(%s) for values %s'
                        % (mkey[0], mkey[1], ', '.join(c06.cell_str(c) for c, _, _ in diff[:6])),
                        {'string': str(diff[0][1]), 'stream': str(diff[0][2])}, func=ft.id, count=len(diff))
    from rules import stream_window
    stream_window.check(prog, rep, 'R10.5', floor=9)
    from rules import c09
    rep.rule('R10.7', 'CSV memory and stream readers select the same column for every (cursor, key) over a header row holding every prefix relation '
                      'to the key - the column whose header equals the key', floor=2)
    from rules import csvkey
    csvkey.check(prog, rep, 'R10.7')
    rep.rule('R10.8', 'CSV readers: reading a cell does not write the row storage (no store through a pointer into the row buffer), so a cell that is '
                      'requested twice reads the same in both readers', floor=4)
    csvkey.check_idempotent(prog, rep, 'R10.8')
    rep.rule('R10.9', 'the field scanners of the CSV memory and stream readers have the same transition table (the RFC 4180 one) over character class x '
                      'quotes seen x last CR', floor=2)
    from rules import csvscan
    csvscan.check(prog, rep, 'R10.9')
    rep.rule('R10.10', 'MsgPack stream reader: a string delivered in several chunks is assembled in order (the memory reader views the text in place)', floor=1)
    from rules import chunkasm
    chunkasm.check(prog, rep, 'R10.10')
    rep.rule('R10.11', 'the stream reader can go back after it met the end of the stream: seekg follows a clear() of the whole error state '
                       '(the memory reader repositions by an index assignment that cannot fail)', floor=1)
    from rules import c03
    c03.check_seek_after_eof(prog, rep, 'R10.11')
    c09.check_lookahead_fresh(prog, rep, 'R10.6')       # the stream reader must notice the end of input exactly where the memory reader does
    c09.check_scanner_reads(prog, rep, 'R10.14')

    try:
        from rules import twins_extra
    except ImportError:
        twins_extra = None
    if twins_extra is not None:
        twins_extra.run(prog, rep)
