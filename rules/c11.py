"""C11 - transcoding valid Unicode text is exact (abstract interpretation over scalar-value classes + dispatch checks)."""
from bsv.facts import AnalysisBroken, strip, strip_targs
from rules import utf_checks as K
from rules import utf_tables as U

PROP = 'C11'
LEVEL = 'other'
EXPLANATION = ('R11.2: for every well-formed class of the Unicode standard (all 256 UTF-8 lead bytes x second-byte classes of Table 3-7; all '
               'scalar-value classes for the encoders; surrogate pairs) the interval of code units the transcoder emits equals the interval the '
               'standard prescribes (Table 3-6 bit distribution, D91) and exactly the sequence is consumed - this decides lead-byte '
               'classification, length classes and the shift/mask constants at interval precision. R11.1: Transcode and the traits classes '
               'dispatch on code-unit width to the right codec, and the LE/BE wrappers apply the endianness adapters iff their endianness '
               'differs from the native one. R11.3: text reaches the transcoder with its length - no view/string is built from a bare c_str()/data() pointer '
               '(zero-expected rule with a positive example). Not decided: per-scalar bit exactness inside an interval class.')
ASSUMPTIONS = ['interval precision: a defect that permutes values inside one class without changing its bounds is not visible',
               'raw-pointer instantiations stand for all iterator types']
TRUSTED = ['clang 14 AST + constant evaluation', 'bsfacts', 'bsv/dtab.py + bsv/interval.py', 'spec/unicode_spec.py']
UNITS = ['w_convert.cpp', 'csv_readers.cpp', 'w_archives.cpp']   # w_archives: the archive-level transcoding (TranscodeStringByPolicy, key conversion)

WIDTH = {'char': 1, 'char16_t': 2, 'char32_t': 4, 'wchar_t': 4}
# (in width, out width) -> codec reached from Transcode (Unicode encoding forms); same width = plain copy
DISPATCH = {(2, 1): 'Utf8::Encode', (4, 1): 'Utf8::Encode', (1, 2): 'Utf16::Encode', (4, 2): 'Utf16::Encode', (1, 4): 'Utf32::Encode', (2, 4): 'Utf32::Encode'}
SECOND = {('Utf16::Encode', 1): 'Utf8::Decode', ('Utf32::Encode', 1): 'Utf8::Decode', ('Utf32::Encode', 2): 'Utf16::Decode',
          ('Utf16::Decode', 1): 'Utf8::Encode', ('Utf32::Decode', 1): 'Utf8::Encode', ('Utf32::Decode', 2): 'Utf16::Encode'}


def char_of(t):
    for c in ('char16_t', 'char32_t', 'wchar_t', 'char'):
        if c in t:
            return c
    return None


def callees(f):
    out = []
    for n in f.walk():
        if n['k'] in ('CallExpr', 'CXXMemberCallExpr'):
            s = f.callee(n)
            if s is not None:
                out.append(s)
    return out


def run(prog, rep):
    from rules import encoded_reader
    encoded_reader.check(prog, rep, ids={'R13.8': 'R11.4'})      # the stream reader rejects text only for a decoding error, never for a split sequence
    rep.rule('R11.2', 'well-formed classes: emitted code-unit intervals and consumed length equal the Unicode standard (Table 3-6/3-7, D91) '
                      'for every class', floor=500)
    rep.rule('R11.1', 'width dispatch of Transcode / Utf16 / Utf32 and endianness adapters of the LE/BE traits', floor=20)
    from rules import lengths
    lengths.check(prog, rep, 'R11.3')
    K.check_utf8_decode(prog, rep, 'R11.2', None, None)
    K.check_encode_from32(prog, rep, 'R11.2', None, None)
    K.check_from16(prog, rep, 'R11.2', None, None)

    # ------------------------------------------------------------------ R11.1 dispatch
    for f in sorted(prog.funcs.values(), key=lambda x: x.id):
        if f.q != U.NS + 'Transcode' or len(f.params) < 3:
            continue
        t0 = f.tu['types'][f.params[0]['t']]
        if 'basic_string_view' in t0:
            continue
        cin, cout = char_of(t0), char_of(f.tu['types'][f.params[2]['t']])
        if cin is None or cout is None:
            continue
        rep.touch(f)
        wi, wo = WIDTH[cin], WIDTH[cout]
        names = [strip_targs(s['q'])[len(U.NS):] for s in callees(f) if s['q'].startswith(U.NS)]
        site = 'Transcode|%d->%d|%s' % (wi * 8, wo * 8, cin + '>' + cout)
        if wi == wo:
            ok = not names and any(s['n'] == 'append' for s in callees(f))
            want = 'plain copy (append)'
        else:
            want = DISPATCH[(wi, wo)]
            ok = names == [want]
        if ok:
            rep.ok('R11.1', site, sample={'transcode': '%s -> %s' % (cin, cout), 'reaches': want})
        else:
            rep.finding('R11.1', 'Transcode|%d->%d' % (wi * 8, wo * 8), f.loc(),
                        'Transcode from %d-bit to %d-bit code units must reach %s but calls %s' % (wi * 8, wo * 8, want, names or 'nothing'),
                        {'instantiation': f.id}, func=f.id)
    # Utf16/Utf32 generic traits forwarding by input/output width
    for f in sorted(prog.funcs.values(), key=lambda x: x.id):
        for cls in ('Utf16', 'Utf32'):
            for nm in ('Encode', 'Decode'):
                if f.q != U.NS + cls + '::' + nm or len(f.params) < 3:
                    continue
                t0 = f.tu['types'][f.params[0]['t']]
                if not t0.replace(' ', '').startswith('const') or '*' not in t0:
                    continue
                cin, cout = char_of(t0), char_of(f.tu['types'][f.params[2]['t']])
                other = WIDTH[cin] if nm == 'Encode' else WIDTH[cout]
                own = 2 if cls == 'Utf16' else 4
                key = ('%s::%s' % (cls, nm), other)
                names = [strip_targs(s['q'])[len(U.NS):] for s in callees(f) if s['q'].startswith(U.NS) and s['n'] in ('Encode', 'Decode')]
                if other == own or key not in SECOND:
                    continue
                rep.touch(f)
                site = '%s::%s|other width %d' % (cls, nm, other * 8)
                if names == [SECOND[key]]:
                    rep.ok('R11.1', site + '|' + cin + '>' + cout, sample={'traits': '%s::%s' % (cls, nm), 'forwards_to': SECOND[key]})
                else:
                    rep.finding('R11.1', site, f.loc(), '%s::%s with %d-bit counterpart must forward to %s but calls %s'
                                % (cls, nm, other * 8, SECOND[key], names or 'nothing'), {'instantiation': f.id}, func=f.id)
    # LE/BE wrappers: adapters iff endianness differs from native (little endian host: BE wrappers swap, LE wrappers do not)
    native = None
    for key, gl in prog.globals.items():
        g = gl[0]
        if g['q'] == U.NS + 'Utf16::endianness':
            native = g.get('val')
    if native is None:
        raise AnalysisBroken('anchor vanished: Utf16::endianness')
    endian = {}
    for key, gl in prog.globals.items():
        g = gl[0]
        if g['q'].startswith(U.NS) and g['q'].endswith('::endianness'):
            endian[g['q'][len(U.NS):-len('::endianness')]] = g.get('val')
    # the byte order a traits class declares is the one its UtfType enumerator names (…le = little endian, …be = big endian)
    en = (prog.enums.get('BitSerializer::Memory::Endian') or {}).get('items')
    ut = (prog.enums.get(U.NS + 'UtfType') or {}).get('items')
    if not en or not ut:
        raise AnalysisBroken('anchor vanished: enum Memory::Endian / UtfType')
    utf_of = {}
    for key, gl in prog.globals.items():
        g = gl[0]
        if g['q'].startswith(U.NS) and g['q'].endswith('::utfType'):
            utf_of[g['q'][len(U.NS):-len('::utfType')]] = g.get('val')
    rev_ut = dict((v, k) for k, v in ut.items())
    for cls in ('Utf16Le', 'Utf16Be', 'Utf32Le', 'Utf32Be'):
        name = rev_ut.get(utf_of.get(cls))
        if name is None or cls not in endian:
            raise AnalysisBroken('anchor vanished: %s::utfType / endianness' % cls)
        want = en['big'] if name.lower().endswith('be') else en['little']
        if endian[cls] == want:
            rep.ok('R11.1', '%s|declared byte order' % cls, sample={'traits': cls, 'utfType': name, 'endianness': 'big' if want == en['big'] else 'little'})
        else:
            rep.finding('R11.1', '%s|declared byte order' % cls, 'include/bitserializer/conversion_detail/convert_utf.h',
                        '%s (UtfType::%s) declares %s-endian code units' % (cls, name, 'big' if endian[cls] == en['big'] else 'little'))
    for f in sorted(prog.funcs.values(), key=lambda x: x.id):
        for cls in ('Utf16Le', 'Utf16Be', 'Utf32Le', 'Utf32Be'):
            for nm in ('Encode', 'Decode'):
                if f.q != U.NS + cls + '::' + nm:
                    continue
                t0 = f.tu['types'][f.params[0]['t']]
                if '*' not in t0:
                    continue
                rep.touch(f)
                differs = endian.get(cls) != native
                base = cls[:5]
                cs = callees(f)
                fw = [strip_targs(s['q'])[len(U.NS):] for s in cs if s['q'].startswith(U.NS) and s['n'] in ('Encode', 'Decode')]
                site = '%s::%s|%s' % (cls, nm, char_of(t0) + '>' + (char_of(f.tu['types'][f.params[2]['t']]) or '?'))
                problems = []
                if fw != ['%s::%s' % (base, nm)]:
                    problems.append('must forward to %s::%s, calls %s' % (base, nm, fw))
                if nm == 'Decode':
                    # MakeIteratorAdapter<endianness>: its instantiation returns a ReverseEndianIterator iff the byte order differs
                    adapters = [s for s in cs if s['n'] == 'MakeIteratorAdapter']
                    if len(adapters) < 2:
                        problems.append('input iterators are not passed through MakeIteratorAdapter<endianness>')
                    else:
                        rets = [f.tu['types'][s['ret']] for s in adapters]
                        swaps = ['ReverseEndianIterator' in r for r in rets]
                        if any(sw != differs for sw in swaps):
                            problems.append('iterator adapter %s bytes although endianness %s the native one' % ('swaps' if swaps[0] else 'does not swap',
                                                                                                              'differs from' if differs else 'equals'))
                else:
                    # the reversal may sit in a repo helper the encoder calls (instantiated for this pair of byte orders): helpers are
                    # followed, the width-generic Encode/Decode the traits class forwards to is not
                    seen_h, todo, rev = set(), list(cs), []
                    while todo:
                        s = todo.pop()
                        if s['n'] == 'Reverse' and 'Memory' in s['q']:
                            rev.append(s)
                            continue
                        g = prog.funcs.get(s['id'])
                        if g is None or g.id in seen_h or not s.get('repo') or s['n'] in ('Encode', 'Decode') or len(seen_h) > 20:
                            continue
                        seen_h.add(g.id)
                        todo.extend(callees(g))
                    if bool(rev) != differs:
                        problems.append('output is %sbyte-reversed although endianness %s the native one' % ('' if rev else 'not ', 'differs from' if differs else 'equals'))
                if problems:
                    rep.finding('R11.1', '%s::%s|endianness' % (cls, nm), f.loc(), '%s::%s: %s' % (cls, nm, '; '.join(problems)), {'instantiation': f.id}, func=f.id)
                else:
                    rep.ok('R11.1', site, sample={'traits': '%s::%s' % (cls, nm), 'swaps_bytes': differs})
