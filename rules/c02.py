"""C02 - no input can crash, hang or exhaust the loader (structural clauses)."""
from bsv.effects import live_walk
from bsv.facts import AnalysisBroken, child, strip, strip_targs
from rules import msgpack_tables as M
from rules.c20 import pattern_in_lib, run_noescape
from bsv.nothrow import short

PROP = 'C02'
LEVEL = 'other'
EXPLANATION = ('R2.1 no library/I-O raised exception can escape a destructor or noexcept function on the load paths and in the converters '
               '(may-throw closure, see C20) - otherwise malformed input terminates the process. R2.2 no recursion in library code whose depth '
               'is taken from the input (call-graph SCCs of the instantiated program; tabled exemptions bounded by the static type). '
               'R2.3 header-declared element counts never reach resize/reserve/sized construction unclamped. R2.4 every indexed read of the '
               'MsgPack input buffer, every pointer dereference into it and every string_view built over it is covered, on every abstract path '
               'for every first byte, by a bounds guard on the same offset (abstract interpretation of both readers and their helpers). '
               'R2.5 in every array read scope the guard protecting element fetch agrees with IsEnd(). Not decided: termination of the CSV '
               'scanner, arithmetic UB, memory proportionality beyond pre-sizing.')
ASSUMPTIONS = ['external callees as classified in tables/externals.json', 'paths per first byte enumerated by the E3 interpreter with unknown conditions forked']
TRUSTED = ['clang 14 AST/CFG', 'bsfacts', 'bsv/dtab.py', 'tables/externals.json']

SAVE_ONLY = ('Write', 'Writer')

# recursion bounded by the nesting of the static C++ type (not by the input): one reason per entry
RECURSION_EXEMPT = {
    'GetPath': 'walks the chain of parent scopes; its length is the nesting depth of the scopes opened by the (finite) static type being loaded',
}


def run(prog, rep):
    from rules import unaligned_loads
    unaligned_loads.check(prog, rep, 'R2.13')
    from rules import keycmp
    keycmp.check_reflexive(prog, rep, 'R2.11')
    from rules import definite_init
    definite_init.check(prog, rep, 'R2.10')
    from rules import encoded_reader
    encoded_reader.check(prog, rep, ids={'R13.6': 'R2.8', 'R13.7': 'R2.9', 'R13.12': 'R2.12'})     # window memory safety; progress at end of file (no hang)
    # ---------------------------------------------------------------- R2.1
    def load_side(f):
        c = strip_targs(f.cls).rsplit('::', 1)[-1]
        if any(w in c for w in SAVE_ONLY):
            return False
        return True
    nt = run_noescape(prog, rep, 'R2.1', restrict=load_side, floor=30)

    # ---------------------------------------------------------------- R2.2 recursion
    rep.rule('R2.2', 'no recursion whose depth is controlled by the input: every cycle of the instantiated call graph through library code '
                     'is either depth-bounded by a compared counter or a tabled static-type-bounded walk', floor=1)
    graph = {}
    for fid, evs in nt.events.items():
        f = prog.funcs[fid]
        if not pattern_in_lib(f):
            continue
        outs = set()
        for kind, what, node, handlers, vcall in evs:
            if kind != 'call':
                continue
            for s in (nt.targets(f, node, what) if (vcall and node is not None) else [what]):
                if s['id'] in prog.funcs and pattern_in_lib(prog.funcs[s['id']]):
                    outs.add(s['id'])
        graph[fid] = outs
    sccs = tarjan(graph)
    n_cycles = 0
    for comp in sccs:
        if len(comp) == 1 and comp[0] not in graph.get(comp[0], ()):
            continue
        n_cycles += 1
        fs = [prog.funcs[c] for c in comp]
        names = sorted(set(f.name for f in fs))
        for f in fs:
            rep.touch(f)
        key = '|'.join(sorted(set(f.pq + ('(stream)' if 'CBinaryStreamReader' in f.id else '') for f in fs)))
        if all(n in RECURSION_EXEMPT for n in names):
            rep.ok('R2.2', key, sample={'cycle': [short(f.id) for f in fs][:4], 'exempt_because': RECURSION_EXEMPT[names[0]]})
            continue
        if any(has_depth_bound(f) for f in fs):
            rep.ok('R2.2', key, sample={'cycle': [short(f.id) for f in fs][:4], 'bounded_by': 'depth counter compared with a limit'})
            continue
        rep.finding('R2.2', key, fs[0].loc(),
                    'recursion without depth bound: %s - nesting depth of the input drives the native stack (deeply nested arrays/maps overflow it)'
                    % ', '.join(short(f.id) for f in fs[:3]), {'cycle': [f.id for f in fs]}, func=fs[0].id)
    if n_cycles == 0:
        rep.ok('R2.2', '<no cycles>', sample={'call_graph_nodes': len(graph), 'cycles': 0}, nontrivial=False)
    rep.extra['call_graph_nodes'] = len(graph)
    rep.extra['cycles'] = n_cycles

    # ---------------------------------------------------------------- R2.3 untrusted counts
    rep.rule('R2.3', 'an element count taken from an untrusted header (MsgPack scope size, str/bin length) must not reach '
                     'resize/reserve/sized construction without a clamp (std::min / comparison with the remaining input)', floor=4)
    for f in sorted(prog.funcs.values(), key=lambda x: x.id):
        if not pattern_in_lib(f):
            continue
        tainted = {}
        for n in live_walk(f):
            if n['k'] == 'DeclStmt':
                for d, init in zip(n.get('decls', ()), [c for c, r in zip(n['c'], n.get('r', [])) if r == 'init']):
                    src = taint_source(f, init)
                    if src:
                        tainted[d['d']] = src
            elif n['k'] == 'BinaryOperator' and n.get('op') == '=':
                lhs = strip(n['c'][0])
                src = taint_source(f, n['c'][1])
                if src and lhs is not None and lhs['k'] == 'DeclRefExpr':
                    tainted[lhs['d']] = src
        if not tainted and not any(True for _ in ()):
            pass
        for n in live_walk(f):
            if n['k'] != 'CXXMemberCallExpr':
                continue
            s = f.callee(n)
            if s is None or s['n'] not in ('resize', 'reserve') or len(n['c']) < 2:
                continue
            arg = strip(n['c'][1])
            src = None
            if arg is not None and arg['k'] == 'DeclRefExpr' and arg['d'] in tainted:
                src = tainted[arg['d']]
            elif arg is not None:
                src = taint_source(f, arg)
            if src is None:
                continue
            rep.touch(f)
            # the site is named by file, operation and source of the count (not by the enclosing function: extracting the pre-sizing into a
            # helper of the same header leaves the defect - and its identity - as it is)
            site = '%s|%s(%s)' % (f.relfile.rsplit('/', 1)[-1], s['n'], src[0])
            if src[1] == 'dom':
                rep.ok('R2.3', site + '|' + f.sym.get('targs', '')[:60],
                       sample={'function': f.pq, 'call': s['n'], 'count_from': src[0], 'why_safe': 'count of already materialised DOM nodes, bounded by the parsed input'},
                       nontrivial=False)
            else:
                rep.finding('R2.3', site, f.loc(n),
                            '%s pre-sizes a container with %s() from %s - a count declared by a few header bytes (up to 2^32-1) before any element exists: '
                            'a 5-byte document requests gigabytes' % (f.pq, s['n'], src[0]), {'instantiation': f.id}, func=f.id)

    # ---------------------------------------------------------------- R2.4 guard-dominated reads
    rep.rule('R2.4', 'every read of the MsgPack input (indexed byte, pointer dereference, string_view over the buffer, optional/block result) '
                     'is covered by a bounds guard on the same offset on every abstract path, for all 256 first bytes', floor=5000)
    table = M.bytecode_table(prog)
    entries = []
    T = M.tables(prog)
    for kind in sorted(T):
        for mkey, (f, fam, per) in sorted(T[kind].items(), key=lambda kv: str(kv[0])):
            entries.append((kind, f, per))
    ST = M.skip_tables(prog)
    for kind in sorted(ST):
        f, per = ST[kind]
        entries.append((kind, f, per))
    for g in sorted(prog.funcs.values(), key=lambda x: x.id):
        if g.name in ('GetValue', 'ReadExtSize') and 'msgpack_readers' in g.file:
            kind = 'stream' if 'CBinaryStreamReader' in g.id else 'string'
            entries.append((kind, g, {0: M.run_method(prog, g, kind, 0, table)}))
    n_paths = 0
    for kind, f, per in entries:
        rep.touch(f)
        bad = {}
        for b, paths in per.items():
            for p in paths:
                n_paths += 1
                for a in p.actions:
                    if a[0] == 'UNGUARDED':
                        bad.setdefault((a[1], a[2]), set()).add(b)
        if bad:
            for (what, where), bs in sorted(bad.items()):
                rep.finding('R2.4', '%s|%s|%s' % (kind, f.pq if f.cls else f.name, what), where,
                            '%s reader, %s: %s is not dominated by a bounds check on that offset (first bytes %s) - truncated input reads past the buffer'
                            % (kind, short(f.id), what, M.fmt_bytes(bs)), {'bytes': M.fmt_bytes(bs)}, func=f.id, count=len(bs))
        else:
            for b in per:
                rep.ok('R2.4', '%s|%s|%02x' % (kind, short(f.id), b), nontrivial=len(per[b]) > 1,
                       sample={'reader': kind, 'function': short(f.id), 'first_byte': '0x%02x' % b, 'paths': len(per[b])} if b == 0xdb else None)
    rep.extra['abstract_paths_examined'] = n_paths

    from rules import stream_window
    stream_window.check(prog, rep, 'R2.6', floor=9)

    # ---------------------------------------------------------------- R2.7 CSV unescape stays inside the cell
    from rules import c09 as C9
    from bsv.linear import Lin as _Lin, le as _le
    rep.rule('R2.7', 'CSV UnescapeValue (both readers), cell [B, B+L) with symbolic length L >= 1 (callers pass cells that contain a quote): every '
                     'dereference / index lies inside the cell, unsigned subtractions do not wrap, and pointer loops with != termination '
                     'start at or before their end - each entailed by the guards on the path (linear constraints, Fourier-Motzkin)', floor=6)
    for cls in ('CCsvStringReader', 'CCsvStreamReader'):
        fs = [g for g in prog.funcs.values() if g.q == C9.NS + cls + '::UnescapeValue']
        if len(fs) != 1:
            raise AnalysisBroken('anchor vanished: %s::UnescapeValue' % cls)
        f = fs[0]
        rep.touch(f)
        # precondition: every call site sits under a test of HasEscapedChars (set by the row parser when the cell contains a quote)
        n_calls = 0
        for g in prog.funcs.values():
            if g.cls != C9.NS + cls:
                continue
            for n in g.walk():
                if n['k'] in ('CallExpr', 'CXXMemberCallExpr') and (g.callee(n) or {}).get('id') == f.id:
                    n_calls += 1
                    p, guarded, below = g.parent(n), False, n
                    while p is not None:
                        # an if statement or a conditional expression whose condition tests HasEscapedChars, the call being in the 'true' arm
                        if p['k'] in ('IfStmt', 'ConditionalOperator'):
                            cond = child(p, 'cond') if p['k'] == 'IfStmt' else p['c'][0]
                            arm = child(p, 'then') if p['k'] == 'IfStmt' else p['c'][1]
                            tests = cond is not None and any(m.get('m') == 'HasEscapedChars' for m in g.walk(cond))
                            negated = cond is not None and strip(cond) is not None and strip(cond)['k'] == 'UnaryOperator' and strip(cond).get('op') == '!'
                            if negated:
                                arm = child(p, 'else') if p['k'] == 'IfStmt' else p['c'][2]
                            if tests and arm is not None and (below is arm or any(x is below for x in g.walk(arm))):
                                guarded = True
                                break
                        below = p
                        p = g.parent(p)
                    if guarded:
                        rep.ok('R2.7', '%s|call %s' % (cls, g.loc(n)))
                    else:
                        rep.finding('R2.7', '%s|unguarded call in %s' % (cls, g.name), g.loc(n),
                                    '%s::UnescapeValue is called outside a test of HasEscapedChars: the cell may be empty' % cls, func=g.id)
        if not n_calls:
            raise AnalysisBroken('R2.7: no call of %s::UnescapeValue found' % cls)
        needs = []
        C9.unescape_outcomes(prog, f, [_le(1, _Lin.sym('L'))], needs)
        if not needs:
            raise AnalysisBroken('R2.7: no memory obligation generated for %s::UnescapeValue' % cls)
        byloc = {}
        for _, what, where, ok in needs:
            byloc.setdefault((what, where), []).append(ok)
        for (what, where), oks in sorted(byloc.items()):
            if all(oks):
                rep.ok('R2.7', '%s|%s|%s' % (cls, what, where), sample={'reader': cls, 'obligation': what, 'at': where, 'paths': len(oks)})
            else:
                rep.finding('R2.7', '%s::UnescapeValue|%s' % (cls, what), where,
                            '%s::UnescapeValue: "%s" is not entailed by the guards on %d of %d path(s) - a short or unterminated quoted cell '
                            'makes the unescape loop leave the cell' % (cls, what, len([o for o in oks if not o]), len(oks)), func=f.id)

    # ---------------------------------------------------------------- R2.5 end-guard agreement
    rep.rule('R2.5', 'array read scope: the comparison guarding the element fetch (LoadNextItem/CheckEnd) tests the same iterator against '
                     'the same end as IsEnd()', floor=2)
    classes = {}
    for f in prog.funcs.values():
        if f.name in ('IsEnd', 'LoadNextItem') and pattern_in_lib(f) and 'Load' in f.cls:
            classes.setdefault(f.cls, {})[f.name] = f
    for cls, ms in sorted(classes.items()):
        if 'IsEnd' not in ms or 'LoadNextItem' not in ms:
            continue
        a = end_comparison(ms['IsEnd'])
        b = end_comparison(ms['LoadNextItem'])
        rep.touch(ms['IsEnd'])
        rep.touch(ms['LoadNextItem'])
        site = strip_targs(cls)
        if a is None or b is None:
            raise AnalysisBroken('R2.5: cannot find the end comparison in %s' % cls)
        if a == b:
            rep.ok('R2.5', site, sample={'scope': site, 'compared': sorted(a)})
        else:
            rep.finding('R2.5', site, ms['LoadNextItem'].loc(),
                        '%s::LoadNextItem compares %s but IsEnd() compares %s: the guard cannot detect the end of the array, '
                        'reading past the last element dereferences an end iterator' % (site.rsplit('::', 1)[-1], sorted(b), sorted(a)),
                        {'IsEnd': sorted(a), 'LoadNextItem': sorted(b)}, func=ms['LoadNextItem'].id)


def taint_source(f, e):
    """(description, kind) if expression e yields a header-declared count"""
    for x in f.walk(e):
        if x['k'] == 'CallExpr':
            s = f.callee(x)
            if s is not None and strip_targs(s['q']) in ('std::min',):
                return None
    for x in f.walk(e):
        if x['k'] == 'CXXMemberCallExpr':
            s = f.callee(x)
            if s is not None and s['n'] == 'GetEstimatedSize':
                cls = strip_targs(s.get('cls', ''))
                if 'MsgPack' in cls:
                    return ('%s::GetEstimatedSize()' % cls.rsplit('::', 1)[-1], 'header')
                if 'Csv' in cls:
                    return ('%s::GetEstimatedSize()' % cls.rsplit('::', 1)[-1], 'dom')
                return ('%s::GetEstimatedSize()' % cls.rsplit('::', 1)[-1], 'dom')
    e0 = strip(e)
    if e0 is not None and e0['k'] == 'DeclRefExpr' and e0.get('n') in ('remainingSize',) and 'msgpack_readers' in f.file:
        return ('the str length field (remainingSize)', 'header')
    return None


def has_depth_bound(f):
    for p in f.params:
        if 'depth' in (p['n'] or '').lower() or 'level' in (p['n'] or '').lower():
            for n in f.walk():
                if n['k'] == 'BinaryOperator' and n.get('op') in ('<', '>', '<=', '>=', '=='):
                    for c in n['c']:
                        s = strip(c)
                        if s is not None and s['k'] == 'DeclRefExpr' and s.get('d') == p['d']:
                            return True
    return False


def end_comparison(f):
    """root objects of the two operands of the first ==/!= comparison in f: the iterator and the container whose end it is compared with
    (mNode.end(), mNode.GetArray().End() and mNode->End() all have root mNode; mValueIt->end() has root mValueIt)"""
    for n in f.walk():
        op = n.get('op')
        if n['k'] in ('BinaryOperator', 'CXXOperatorCallExpr') and op in ('==', '!='):
            ops = n['c'] if n['k'] == 'BinaryOperator' else n['c'][1:]
            return frozenset(root_object(f, o) for o in ops)
    return None


def root_object(f, e):
    e = strip(e)
    while e is not None:
        k = e['k']
        if k == 'MemberExpr':
            if e.get('dk') == 'Field':
                base = strip(e['c'][0]) if e.get('c') else None
                if base is None or base['k'] == 'CXXThisExpr':
                    return e['m']
                e = base
                continue
            e = strip(e['c'][0]) if e.get('c') else None
            continue
        if k in ('CXXMemberCallExpr', 'CallExpr'):
            e = strip(e['c'][0], casts=False)
            continue
        if k == 'CXXOperatorCallExpr':
            e = strip(e['c'][1]) if len(e['c']) > 1 else None
            continue
        if k == 'UnaryOperator':
            e = strip(e['c'][0])
            continue
        if k == 'DeclRefExpr':
            return e['n']
        if k == 'CXXThisExpr':
            return 'this'
        return k
    return '?'


def descr(f, e):
    e = strip(e)
    if e is None:
        return '?'
    k = e['k']
    if k == 'MemberExpr':
        base = descr(f, e['c'][0]) if e.get('c') else ''
        return (base + '.' if base and base != 'this' else '') + e['m']
    if k == 'CXXThisExpr':
        return 'this'
    if k == 'DeclRefExpr':
        return e['n']
    if k in ('CXXMemberCallExpr', 'CallExpr'):
        s = f.callee(e)
        me = strip(e['c'][0], casts=False)
        base = descr(f, me['c'][0]) if me is not None and me.get('c') else ''
        return '%s%s()' % ((base + '.') if base and base != 'this' else '', (s['n'].lower() if s else '?'))
    if k == 'CXXOperatorCallExpr':
        return '%s(%s)' % (e.get('op'), ','.join(descr(f, c) for c in e['c'][1:]))
    if k == 'UnaryOperator':
        return '%s%s' % (e.get('op'), descr(f, e['c'][0]))
    return k


def tarjan(graph):
    index = {}
    low = {}
    onst = set()
    st = []
    out = []
    counter = [0]
    import sys
    sys.setrecursionlimit(100000)

    def visit(v):
        index[v] = low[v] = counter[0]
        counter[0] += 1
        st.append(v)
        onst.add(v)
        for w in graph.get(v, ()):
            if w not in graph:
                continue
            if w not in index:
                visit(w)
                low[v] = min(low[v], low[w])
            elif w in onst:
                low[v] = min(low[v], index[w])
        if low[v] == index[v]:
            comp = []
            while True:
                w = st.pop()
                onst.discard(w)
                comp.append(w)
                if w == v:
                    break
            out.append(comp)
    for v in list(graph):
        if v not in index:
            visit(v)
    return out
