"""Assembly of a value that the stream reader delivers in several chunks (C01 R1.8, C10 R10.10).

For every loop that calls CBinaryStreamReader::ReadByChunks(remaining): one generic iteration is interpreted over linear forms with the
loop state symbolic (REM = bytes still wanted, OFF_v = every other integral local the loop assigns, C = size of the chunk just read,
1 <= C <= REM). The inductive step of 'the buffer holds the first TOTAL - REM bytes of the value, in order' must hold:
   - the chunk is appended to the buffer (operator+= / append of the whole chunk), or copied to buffer.data() + o with o equal to the
     number of bytes assembled so far - i.e. o is a local that starts at 0 and is advanced by exactly C on the copying path;
   - REM is reduced by exactly C;  - nothing else rewrites the buffer inside the loop;
and before the loop the buffer is emptied (append form) or sized to the total (copy form)."""
from bsv.dtab import TOP, AnalysisBroken, Interp, Ret, Sym, _LoopExit
from bsv.facts import child, strip, strip_targs
from bsv.linear import Lin, entails, eq, le
from bsv.linmodel import LinInterp, LinModel

REM, C, D = Lin.sym('REM'), Lin.sym('C'), Lin.sym('D')


class ChunkModel(LinModel):
    def __init__(self, buf_key):
        self.buf_key = buf_key      # ('member', name) or ('local', decl)

    def is_buf(self, fr, e):
        e = strip(e)
        if e is None:
            return False
        if self.buf_key[0] == 'member':
            return e['k'] == 'MemberExpr' and e.get('m') == self.buf_key[1]
        return e['k'] == 'DeclRefExpr' and e.get('d') == self.buf_key[1]

    def initial_store(self, it, key):
        return TOP

    def construct(self, it, fr, n, depth):
        vals = [it.ev(fr, a, depth) for a in n.get('c', ())]
        return vals[0] if len(vals) == 1 else TOP

    def primitive(self, it, fr, n, callee, depth):
        name = callee['n']
        obj, args = it.call_args(fr, n)
        operands = ([obj] if obj is not None else []) + list(args)
        if name == 'ReadByChunks':
            for a in args:
                it.ev(fr, a, depth)
            it.facts.extend([le(0, C), le(C, REM)])
            it.act('READCHUNK')
            return Sym('CHUNK')
        if name == 'operator=' and obj is not None and len(args) == 1 and not self.is_buf(fr, obj):
            o = strip(obj)
            if o is not None and o['k'] == 'DeclRefExpr' and o.get('d') in fr.env:
                v = it.ev(fr, args[0], depth)         # a view declared before the loop and assigned in it
                fr.env[o['d']] = v
                return v
        if obj is not None:
            ov = it.ev(fr, obj, depth) if not self.is_buf(fr, obj) else Sym('BUF')
            if isinstance(ov, Sym) and ov.tag == 'CHUNK':
                if name in ('size', 'length'):
                    return C
                if name == 'empty':
                    return self.lin_compare(it, fr, n, '==', C, Lin.of(0))
                if name in ('data', 'begin', 'cbegin'):
                    return Sym('SRC')
                if name in ('end', 'cend'):
                    return Sym('SRCEND')
                return TOP
            if isinstance(ov, Sym) and ov.tag == 'BUF':
                vals = [it.ev(fr, a, depth) for a in args]
                if name in ('data', 'begin'):
                    return D
                if name in ('operator+=', 'append'):
                    whole = (len(vals) == 1 and isinstance(vals[0], Sym) and vals[0].tag == 'CHUNK') or \
                            (len(vals) == 2 and isinstance(vals[0], Sym) and vals[0].tag == 'SRC' and Lin.of(vals[1]) is not None
                             and entails(self.cons(it), eq(Lin.of(vals[1]), C))) or \
                            (len(vals) == 2 and isinstance(vals[0], Sym) and vals[0].tag == 'SRC' and isinstance(vals[1], Sym) and vals[1].tag == 'SRCEND')
                    it.act('APPEND', whole)
                    return TOP
                if name in ('size', 'length', 'capacity', 'reserve', 'empty'):
                    return TOP
                it.act('MUTATE', name, fr.f.loc(n))
                return TOP
        if name in ('memcpy', 'memmove', 'copy_n', 'copy') and len(args) == 3:
            vals = [it.ev(fr, a, depth) for a in args]
            if name in ('memcpy', 'memmove'):
                dst, src, cnt = vals
            elif name == 'copy_n':
                src, cnt, dst = vals
            else:
                src, srcend, dst = vals
                cnt = C if (isinstance(srcend, Sym) and srcend.tag == 'SRCEND') else TOP
            it.act('COPY', Lin.of(dst) - D if Lin.of(dst) is not None else None, cnt if not isinstance(cnt, Sym) else None,
                   isinstance(src, Sym) and src.tag == 'SRC', fr.f.loc(n))
            return TOP
        for a in args:
            it.ev(fr, a, depth)
        return TOP


class ChunkInterp(LinInterp, Interp):
    pass


def find_loops(prog):
    out = []
    for f in prog.funcs.values():
        if f.body is None or not f.sym.get('repo'):
            continue
        for lp in f.walk():
            if lp['k'] in ('WhileStmt', 'ForStmt', 'DoStmt') and any(
                    x['k'] == 'CXXMemberCallExpr' and (f.callee(x) or {}).get('n') == 'ReadByChunks' for x in f.walk(lp)):
                out.append((f, lp))
    return out


def analyse(prog, f, lp):
    """returns (problem text or None, description)"""
    call = [x for x in f.walk(lp) if x['k'] == 'CXXMemberCallExpr' and (f.callee(x) or {}).get('n') == 'ReadByChunks'][0]
    arg = strip(call['c'][1]) if len(call['c']) > 1 else None
    if arg is None or arg['k'] != 'DeclRefExpr':
        raise AnalysisBroken('R1.8: ReadByChunks is not called with a local byte counter at %s' % f.loc(call))
    rem_decl = arg['d']
    # the buffer: the string object appended to / copied into inside the loop
    buf = None
    for x in f.walk(lp):
        if x['k'] in ('CXXMemberCallExpr', 'CXXOperatorCallExpr'):
            c = f.callee(x) or {}
            if c.get('n') in ('operator+=', 'append', 'data') and 'basic_string<' in strip_targs(c.get('q', '')) + c.get('q', ''):
                o = strip(x['c'][0]['c'][0]) if x['k'] == 'CXXMemberCallExpr' and x['c'][0].get('c') else (strip(x['c'][1]) if len(x['c']) > 1 else None)
                if o is not None and o['k'] == 'MemberExpr':
                    buf = ('member', o['m'])
                elif o is not None and o['k'] == 'DeclRefExpr':
                    buf = ('local', o['d'])
    if buf is None:
        return 'the chunks are neither appended to nor copied into a string buffer', {}
    # locals assigned in the loop
    assigned, views = set(), set()
    for x in f.walk(lp):
        t = None
        if x['k'] in ('BinaryOperator', 'CompoundAssignOperator') and x.get('op', '').endswith('=') and x.get('op') not in ('==', '!=', '<=', '>='):
            t = strip(x['c'][0])
        elif x['k'] == 'UnaryOperator' and x.get('op') in ('++', '--'):
            t = strip(x['c'][0])
        if t is not None and t['k'] == 'DeclRefExpr':
            assigned.add(t['d'])
        if x['k'] == 'CXXOperatorCallExpr' and (f.callee(x) or {}).get('n') == 'operator=' and len(x['c']) > 1:
            t = strip(x['c'][1])
            if t is not None and t['k'] == 'DeclRefExpr':
                views.add(t['d'])
    body = child(lp, 'body')
    for x in f.walk(body):
        for dcl in x.get('decls', []) or []:
            assigned.discard(dcl['d'])
    others = sorted(assigned - {rem_decl})
    syms = dict((d, Lin.sym('V%d' % i)) for i, d in enumerate(others))
    model = ChunkModel(buf)
    it = ChunkInterp(prog, model, max_depth=1, max_paths=60)
    node = body

    def init(it_, fr):
        it_.n_fresh = 0
        it_.facts = [le(1, REM), le(REM, 1 << 40)] + [le(0, s) for s in syms.values()]
        for p in f.params:
            fr.env[p['d']] = TOP
        fr.env[rem_decl] = REM
        for d, s in syms.items():
            fr.env[d] = s
        for d in views:
            fr.env.setdefault(d, TOP)
    ends = {}

    class Wrap(ChunkInterp):
        def run_body(self):
            pass
    results = []
    # interpret the body once; the final values are read from the frame through an action recorded at the end
    orig_exec = it.exec

    def exec_and_record(fr, n, depth):
        if n is node and depth == 0 and not getattr(it, 'in_body', False):
            it.in_body = True
            try:
                orig_exec(fr, n, depth)
            except _LoopExit:
                pass
            finally:
                it.in_body = False
            if lp['k'] == 'ForStmt' and child(lp, 'inc') is not None:
                it.ev(fr, child(lp, 'inc'), depth)       # the increment clause belongs to the iteration
            it.act('END', fr.env.get(rem_decl), dict((d, fr.env.get(d)) for d in others))
            return
        return orig_exec(fr, n, depth)
    it.exec = exec_and_record
    paths = it.run(f, init, body=node)
    problems = []
    form = set()
    for p in paths:
        if p.outcome[0] == 'THROW':
            continue        # the "no more data" path ends the load with an exception
        if not any(a[0] == 'READCHUNK' for a in p.actions):
            problems.append('a path through the loop body does not read a chunk')
            continue
        cons = list(p.facts or [])
        from bsv.linmodel import rel, NEG
        for lab, d in p.guards:
            if isinstance(lab, tuple) and lab and lab[0] == 'LIN':
                r = rel(lab[1] if d else NEG[lab[1]], lab[2], lab[3])
                if r:
                    cons.extend(r)
        end = [a for a in p.actions if a[0] == 'END']
        if not end:
            continue
        rem1, oth1 = end[0][1], end[0][2]
        appends = [a for a in p.actions if a[0] == 'APPEND']
        copies = [a for a in p.actions if a[0] == 'COPY']
        mut = [a for a in p.actions if a[0] == 'MUTATE']
        if mut:
            problems.append('%s() rewrites the buffer inside the loop (%s)' % (mut[0][1], mut[0][2]))
            continue
        if len(appends) + len(copies) != 1:
            problems.append('a chunk is placed %d times (append %d, copy %d) on one path' % (len(appends) + len(copies), len(appends), len(copies)))
            continue
        lr = Lin.of(rem1)
        if lr is None or not entails(cons, eq(lr, REM - C)):
            problems.append('the byte counter becomes %s after a chunk of C bytes, expected REM - C' % (rem1,))
            continue
        if appends:
            form.add('append')
            if not appends[0][1]:
                problems.append('only a part of the chunk is appended')
            continue
        form.add('copy')
        _, off, cnt, from_chunk, where = copies[0]
        lc = Lin.of(cnt) if cnt is not None else None
        if off is None or lc is None or not from_chunk or not entails(cons, eq(lc, C)):
            problems.append('the copy at %s does not move the whole chunk (count %s)' % (where, cnt))
            continue
        # the destination offset must be a loop variable v with v' = v + C (then v = bytes assembled so far, given v = 0 on entry)
        holder = [d for d, s in syms.items() if entails(cons, eq(off, s))]
        if not holder:
            problems.append('the chunk is copied to buffer + (%s), which is not a running offset kept by the loop' % (off,))
            continue
        v1 = Lin.of(oth1.get(holder[0]))
        if v1 is None or not entails(cons, eq(v1, syms[holder[0]] + C)):
            nm = [x['decls'][0]['n'] for x in f.walk() if x['k'] == 'DeclStmt' and x.get('decls') and x['decls'][0]['d'] == holder[0]]
            problems.append('the write offset "%s" becomes %s after a chunk of C bytes is copied to buffer + %s: it must advance by C (bytes assembled so far), '
                            'otherwise the third and later chunks overwrite earlier ones' % (nm[0] if nm else '?', v1, off))
            continue
        # entry value of the offset: its declaration initialises it with 0
        ini = [x for x in f.walk() if x['k'] == 'DeclStmt' and x.get('decls') and x['decls'][0]['d'] == holder[0]]
        if not ini or not ini[0].get('c') or strip(ini[0]['c'][0]).get('cv', ini[0]['c'][0].get('cv')) != 0:
            problems.append('the write offset does not start at 0')
    return (problems[0] if problems else None), {'buffer': buf[1] if buf[0] == 'member' else 'local', 'form': sorted(form), 'paths': len(paths)}


def check(prog, rep, rule):
    loops = find_loops(prog)
    if not loops:
        raise AnalysisBroken('%s: no loop over ReadByChunks found (anchor vanished)' % rule)
    for f, lp in sorted(loops, key=lambda t: t[0].id):
        rep.touch(f)
        problem, info = analyse(prog, f, lp)
        site = '%s|chunk loop' % f.pq
        # before the loop: append form needs the buffer emptied, copy form needs it sized
        if problem is None:
            pre = [x for x in f.walk() if x['k'] == 'CXXMemberCallExpr' and (f.callee(x) or {}).get('n') in ('clear', 'resize', 'assign', 'erase')
                   and x['l'] < lp['l'] if 'l' in x and 'l' in lp]
            names = [(f.callee(x) or {}).get('n') for x in pre]
            if 'append' in info['form'] and 'clear' not in names:
                problem = 'the buffer is appended to but not emptied before the loop: the previous value stays in front'
            if 'copy' in info['form'] and 'resize' not in names:
                problem = 'the buffer is written by offset but not sized to the total before the loop'
        if problem:
            rep.finding(rule, site, f.loc(lp), '%s: a value delivered by the stream in several chunks is not assembled in order - %s' % (f.pq, problem),
                        {'info': str(info)}, func=f.id)
        else:
            rep.ok(rule, site, sample=dict(info, function=f.pq))
