"""std::from_chars result mapping (C15 R15.3, C16 R16.1): a failed conversion never yields a success outcome, and each error code
maps to the exception type the library documents."""
from bsv.dtab import TOP, AnalysisBroken, Interp, Model, Struct, Sym
from bsv.facts import strip_targs

EC = {'ok': 0, 'invalid_argument': 22, 'result_out_of_range': 34}


class ErrcModel(Model):
    def __init__(self, ec):
        self.ec = ec

    def result(self):
        st = Struct()
        st.fields['ec'] = self.ec
        st.fields['ptr'] = Sym('PTR')
        return st

    def initial_store(self, it, key):
        return TOP

    def compare(self, it, fr, n, op, a, b):
        return Sym(('GUARD', 'CMP@%s' % fr.f.loc(n)))

    def primitive(self, it, fr, n, callee, depth):
        obj, args = it.call_args(fr, n)
        if callee['q'] == 'std::from_chars':
            for a in args:
                it.ev(fr, a, depth)
            it.act('FROM_CHARS', fr.f.loc(n))
            return self.result()
        g = it.prog.funcs.get(callee['id'])
        if callee.get('repo') and g is not None and g.body is not None and depth < it.max_depth \
                and any('t' in p and 'errc' in g.type(p) for p in g.params):
            return NotImplemented       # a repo helper that receives the error code itself: its mapping is part of this function's
        vals = [it.ev(fr, a, depth) for a in args]
        if obj is not None:
            it.ev(fr, obj, depth)
        if callee.get('repo') and any(isinstance(v, Struct) and 'ec' in v.fields for v in vals):
            it.act('DELEGATED', callee['id'])      # the result is handed to another repo function, whose own mapping is checked
            if self.ec != 0:
                from bsv.dtab import Thrown
                raise Thrown('delegated')
        return TOP

    def construct(self, it, fr, n, depth):
        vals = [it.ev(fr, a, depth) for a in n.get('c', ())]
        t = fr.f.type(n)
        if 'from_chars_result' in t and len(vals) == 1:
            return vals[0]
        return vals[0] if len(vals) == 1 and isinstance(vals[0], (int, Struct)) else TOP


def targets(prog, under):
    out = []
    for f in prog.funcs.values():
        if f.body is None or not f.sym.get('repo') or not f.relfile.startswith(under):
            continue
        direct = any(n['k'] == 'CallExpr' and (f.callee(n) or {}).get('q') == 'std::from_chars' for n in f.walk())
        byparam = any('from_chars_result' in f.type(p) for p in f.params if 't' in p)
        if direct or byparam:
            out.append((f, direct, byparam))
    return out


def outcomes(prog, f, ec, byparam):
    model = ErrcModel(ec)
    it = Interp(prog, model, max_depth=2, max_paths=3000)

    def init(it_, fr):
        for p in f.params:
            if 't' in p and 'from_chars_result' in f.type(p):
                fr.env[p['d']] = model.result()
            else:
                fr.env[p['d']] = TOP
    res = []
    for p in it.run(f, init):
        used = byparam or any(a[0] == 'FROM_CHARS' for a in p.actions)
        if not used:
            continue
        res.append(p)
    return res


def check(prog, rep, rule, under, floor_funcs):
    ts = targets(prog, under)
    seen = set()
    n = 0
    for f, direct, byparam in sorted(ts, key=lambda x: x[0].id):
        name = strip_targs(f.id.split('|')[0])
        key = (name, f.loc())
        if key in seen:
            continue        # one instantiation per source function is enough for a shape rule
        seen.add(key)
        n += 1
        rep.touch(f)
        short = (f.pq if f.cls else f.name) + '@' + f.loc()
        for ecname, ec in sorted(EC.items()):
            if ecname == 'ok':
                continue
            paths = outcomes(prog, f, ec, byparam)
            if not paths:
                raise AnalysisBroken('%s: no path through %s reaches the from_chars result' % (rule, short))
            bad = []
            for p in paths:
                if p.outcome[0] == 'THROW' and str(p.outcome[1]) == 'delegated':
                    dels = [a[1] for a in p.actions if a[0] == 'DELEGATED']
                    if not any(d == g.id for d in dels for g, _, bp in ts if bp):
                        bad.append('hands the result to %s, which is not checked' % dels[-1][:60])
                    continue
                if p.outcome[0] == 'THROW':
                    t = str(p.outcome[1])
                    want = 'std::out_of_range' if ecname == 'result_out_of_range' else 'std::invalid_argument'
                    if t != want:
                        # a generic parse failure reported as invalid_argument is accepted for out-of-range only when the function has no
                        # out_of_range throw at all (fraction digits); otherwise the code must be distinguished
                        bad.append('throws %s' % t)
                else:
                    v = p.outcome[1]
                    if v in (0, False):
                        continue          # failure value (nullptr / false)
                    bad.append('returns %s' % ('normally' if v is None else it_show(v)))
            site = '%s|ec=%s' % (short, ecname)
            if bad:
                rep.finding(rule, '%s|ec=%s|%s' % (name.split('::')[-1] + '@' + f.relfile.split('/')[-1], ecname, sorted(set(bad))[0]), f.loc(),
                            '%s: with from_chars reporting %s the function %s (expected %s or a failure value)'
                            % (short, ecname, ', '.join(sorted(set(bad))), 'std::out_of_range' if ecname == 'result_out_of_range' else 'std::invalid_argument'),
                            func=f.id)
            else:
                rep.ok(rule, site, sample={'function': short, 'ec': ecname, 'paths': len(paths)})
    if n < floor_funcs:
        raise AnalysisBroken('%s: only %d functions use std::from_chars under %s' % (rule, n, under))


def it_show(v):
    return 'a value' if not isinstance(v, (int, str)) else str(v)
