"""No multi-byte scalar is loaded or stored through a pointer made by reinterpret_cast from a byte buffer (C02 R2.13).

`*reinterpret_cast<const uint64_t*>(buffer + pos)` is undefined behaviour when buffer + pos is not aligned for uint64_t (and an aliasing
violation in any case); the MsgPack readers did exactly that at input-chosen offsets. The portable form is memcpy into an object of the
type. Rule: the operand of a dereference / subscript is not a reinterpret_cast from a pointer to a character type to a pointer to a scalar
wider than one byte. Expected count in the library: zero; a positive example in the witness must match on every run."""
from bsv.dtab import INT_TYPES, AnalysisBroken, base_type
from bsv.facts import strip

BYTE_TYPES = ('char', 'signed char', 'unsigned char', 'std::byte', 'const char', 'const unsigned char', 'const signed char')


def pointee(t):
    t = t.strip()
    if not t.endswith('*'):
        return None
    return t[:-1].strip().replace('const ', '').replace(' const', '').strip()


def check(prog, rep, rule):
    rep.rule(rule, 'no load / store through reinterpret_cast<wider scalar*>(byte pointer): multi-byte values are taken from byte buffers with '
                   'memcpy (alignment and aliasing); expected zero sites in the library, one positive example in the witness', floor=1)
    pos = False
    seen = set()
    n_casts = 0
    for f in sorted(prog.funcs.values(), key=lambda g: g.id):
        if f.body is None:
            continue
        lib = f.relfile.startswith(('include/bitserializer/', 'src/')) and 'testing_tools' not in f.relfile
        wit = 'positive_example' in f.id
        if not (lib or wit):
            continue
        for n in f.walk():
            if n['k'] not in ('UnaryOperator', 'ArraySubscriptExpr') or (n['k'] == 'UnaryOperator' and n.get('op') != '*'):
                continue
            e = n['c'][0] if n.get('c') else None
            while e is not None and e['k'] in ('ParenExpr', 'ImplicitCastExpr') and e.get('c'):
                e = e['c'][0]
            if e is None or e['k'] != 'CXXReinterpretCastExpr' or not e.get('c'):
                continue
            n_casts += 1
            dst, src = pointee(f.type(e)), pointee(f.type(e['c'][0]))
            if dst is None or src is None or src not in ('char', 'signed char', 'unsigned char', 'std::byte'):
                continue
            info = INT_TYPES.get(dst)
            wide = (info is not None and info[0] > 8) or dst in ('float', 'double', 'long double', 'char16_t', 'char32_t', 'wchar_t')
            if not wide:
                continue
            if wit:
                pos = True
                rep.ok(rule, 'positive example matched|%s' % f.name, sample={'site': f.loc(n), 'type': dst})
                continue
            key = (f.relfile, n['l'])
            if key in seen:
                continue
            seen.add(key)
            rep.touch(f)
            rep.finding(rule, '%s@%s|line %d' % (f.pq if f.cls else f.name, f.relfile.rsplit('/', 1)[-1], n['l']), f.loc(n),
                        '%s: a %s is accessed through reinterpret_cast from a %s pointer: undefined behaviour when the address is not aligned for %s '
                        '(the offset is chosen by the input)' % (f.pq if f.cls else f.name, dst, src, dst), func=f.id)
    if not pos:
        raise AnalysisBroken('%s: the positive example in the witness was not matched' % rule)
    if not seen:
        rep.ok(rule, 'library|no load through a cast byte pointer', sample={'dereferenced reinterpret_casts inspected': n_casts})
