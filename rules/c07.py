"""C07 - MsgPack reader accepts every valid encoding (decision tables vs the specification)."""
from rules import msgpack_tables as M

PROP = 'C07'
LEVEL = 'other'
EXPLANATION = ('Abstract interpretation of both MsgPack readers over the exact domain of all 256 first bytes (everything else unknown): '
               'R7.1 accept tables of the 17 value-reading methods and ReadValueType equal the MessagePack specification (header, length-field '
               'width, payload width and signedness, embedded small values); R7.2 ByteCodeTable and SkipValueImpl skip exactly one value for '
               'every first byte; R7.3 ext type byte offsets; R7.4 accepting paths consume the full extent. The oracle (spec/msgpack_spec.py) '
               'is written from the specification, not from the code. Not decided: byte order arithmetic inside BigEndianToNative (C06 R6.4), '
               'rejection of every corruption, equality with a reference decoder on values.')
ASSUMPTIONS = ['input-sufficiency guards (position < size, optional has value) are taken as true for the tables; their false edges are checked to throw',
               'ConvertByPolicy / GetValue / stream primitives behave as modelled in rules/msgpack_tables.py (checked by C04 / C02 rules)']
TRUSTED = ['clang 14 AST + constant evaluation', 'bsfacts', 'bsv/dtab.py interpreter', 'spec/msgpack_spec.py']
UNITS = ['msgpack_readers.cpp', 'w_archives.cpp']


def run(prog, rep):
    from rules import keycmp
    keycmp.check(prog, rep, 'R7.6')      # a map key stored in either integer family is found by a request of either signedness
    from rules import msgpack_tables as _mt
    rep.rule('R7.7', 'ReadExtSize (both reader copies): the length field of k = 1, 2, 4 bytes is read once, unsigned, and returned', floor=6)
    _mt.check_ext_size(prog, rep, 'R7.7')
    from rules import byte_sequences
    byte_sequences.check(prog, rep, 'R7.8', 'Read')
    M.check_accept_tables(prog, rep)
    M.check_bytecode_table(prog, rep)
    M.check_ext_offsets(prog, rep)

    # ---------------------------------------------------------------- R7.5 the scope cursor stays in step with the reader (shared with C03 R3.5)
    rep.rule('R7.5', 'MsgPack object scope: on every normal path of every method the values consumed equal the cursor advances (a skipped or '
                     'mismatched member - nil in place of a nested object - leaves the following members readable)', floor=20)
    from rules import c03
    c03.check_object_scope(prog, rep, 'R7.5')
