"""R3.12 (C03) / R10.19 (C10) / R9.12 (C09): the column names of a CSV document are read through the reader's own cell path.

The writers put every column name through WriteEscapedValue (quotes doubled, the name quoted when it holds a quote, the separator, CR or LF).
A reader that fills its header table must therefore take each name from ReadValue / UnescapeValue - the path that removes that escaping - in the
memory reader and in the stream reader alike; a name copied from the raw line keeps its doubled quotes and the field requested under the real
name is reported absent."""
from bsv.dtab import AnalysisBroken
from bsv.facts import strip

NS = 'BitSerializer::Csv::Detail::'
FILL = ('resize', 'push_back', 'emplace_back', 'assign', 'reserve')
UNESCAPING = ('ReadValue', 'UnescapeValue')


def is_header_table(f, n):
    return n['k'] == 'MemberExpr' and n.get('dk') == 'Field' and 'vector<' in f.type(n) and 'basic_string<' in f.type(n)


def check(prog, rep, rule):
    rep.rule(rule, 'both CSV readers: in the function that fills the header table every name stored is the result of ReadValue / UnescapeValue '
                   '(the path that undoes WriteEscapedValue), never text taken from the raw line', floor=2)
    for cls in ('CCsvStringReader', 'CCsvStreamReader'):
        n_fill = 0
        for f in sorted(prog.funcs.values(), key=lambda g: g.id):
            if f.body is None or not f.q.startswith(NS + cls + '::'):
                continue
            fills = False
            for n in f.walk():
                if n['k'] == 'CXXMemberCallExpr' and (f.callee(n) or {}).get('n') in FILL:
                    callee = strip(n['c'][0]) if n.get('c') else None
                    obj = callee['c'][0] if callee is not None and callee['k'] == 'MemberExpr' and callee.get('c') else None
                    o = strip(obj) if obj is not None else None
                    if o is not None and is_header_table(f, o):
                        fills = True
            if not fills:
                continue
            n_fill += 1
            rep.touch(f)
            # locals filled by the unescaping reader path
            filled = set()
            for n in f.walk():
                if n['k'] in ('CXXMemberCallExpr', 'CallExpr') and (f.callee(n) or {}).get('n') in UNESCAPING:
                    for a in n.get('c', [])[1:]:
                        for x in f.walk(a):
                            if x['k'] == 'DeclRefExpr':
                                filled.add(x.get('d'))
            stores = []
            for n in f.walk():
                if n['k'] == 'CXXOperatorCallExpr' and (f.callee(n) or {}).get('n') == 'operator=':
                    ch = [x for x in n.get('c', []) if x]
                    if len(ch) < 3:
                        continue
                    lhs, rhs = ch[1], ch[2]
                    lt = f.type(lhs)
                    if 'basic_string<' not in lt or 'basic_string_view' in lt.split('basic_string<')[0]:
                        continue
                    stores.append((n, rhs))
                elif n['k'] == 'CXXMemberCallExpr' and (f.callee(n) or {}).get('n') in ('push_back', 'emplace_back'):
                    callee = strip(n['c'][0])
                    o = strip(callee['c'][0]) if callee is not None and callee.get('c') else None
                    if o is not None and is_header_table(f, o):
                        for a in n['c'][1:]:
                            stores.append((n, a))
            if not stores:
                rep.defer_broken('%s: %s fills the header table but no store of a name was recognised' % (rule, f.id[:100]))
                continue
            for n, rhs in stores:
                from_reader = any(x['k'] == 'DeclRefExpr' and x.get('d') in filled for x in f.walk(rhs)) or \
                    any(x['k'] in ('CXXMemberCallExpr', 'CallExpr') and (f.callee(x) or {}).get('n') in UNESCAPING for x in f.walk(rhs))
                site = '%s|%s' % (cls, f.name)
                if from_reader:
                    rep.ok(rule, site, sample={'reader': cls, 'function': f.name, 'site': f.loc(n)})
                else:
                    rep.finding(rule, site + '|raw name', f.loc(n), '%s::%s stores a column name that does not come from ReadValue / UnescapeValue: a name the writer '
                                'escaped (say "hi" -> "say ""hi""") keeps its doubled quotes, so the field is not found under its key' % (cls, f.name), func=f.id)
        if not n_fill:
            raise AnalysisBroken('%s: no function of %s fills a header table (std::vector<std::string> member)' % (rule, cls))
