"""R6.10 (C06, save side) / R7.8 (C07, load side): a sequence of bytes goes over the wire as MessagePack `bin`.

The generic serializers decide per instantiation (if constexpr over the element type) whether a C array / std::vector is handed to the archive's
binary scope. The MessagePack spec has one family for byte sequences (bin 8/16/32); an array of N integers is a different value for every other
decoder and up to twice as long. Rule: every instantiation of BitSerializer::Serialize over a MsgPack scope whose value is a C array or a std::vector
of char / signed char / unsigned char - with a key and without - reaches OpenBinaryScope. The witness instantiates the three element types in
both positions, so a trait that forgets one element type in one overload is seen."""
import re
from bsv.dtab import AnalysisBroken

BYTE_SEQ = re.compile(r'^(?:const )?(?:(?:signed |unsigned )?char \(&\)\[\d+\]|std::vector<(?:signed |unsigned )?char> &)$')


def check(prog, rep, rule, side):
    what = 'saved' if side == 'Write' else 'loaded'
    rep.rule(rule, 'every BitSerializer::Serialize instantiation over a MsgPack %s scope whose value is a C array or std::vector of char / signed char / '
                   'unsigned char (with a key, as array element and as root) reaches OpenBinaryScope: byte sequences are %s as bin, for all three '
                   'element types alike' % ('write' if side == 'Write' else 'read', what), floor=9)
    seen = {}
    for f in sorted(prog.funcs.values(), key=lambda g: g.id):
        if f.body is None or f.q != 'BitSerializer::Serialize' or not f.params:
            continue
        a0, pt = f.type(f.params[0]), f.type(f.params[-1])
        if 'MsgPack' not in a0 or side not in a0 or not BYTE_SEQ.match(pt):
            continue
        m = re.search(r'(C?MsgPack\w+Scope)', a0)
        scope = m.group(1) if m else a0[:40]
        site = '%s|%s|%s' % (scope, 'with key' if len(f.params) == 3 else 'without key', pt)
        opens = {(f.callee(x) or {}).get('n', '') for x in f.walk() if x['k'] == 'CXXMemberCallExpr'}
        ok = 'OpenBinaryScope' in opens
        if site in seen and seen[site] == ok:
            continue
        seen[site] = ok
        rep.touch(f)
        if ok:
            rep.ok(rule, site, sample={'scope': scope, 'value': pt, 'keyed': len(f.params) == 3})
        else:
            rep.finding(rule, site, f.loc(), 'Serialize(%s, %s%s) never opens the binary scope (opens: %s): the byte sequence is %s as an array of integers, '
                        'not as bin - its siblings for the other byte element types use bin' % (scope, 'key, ' if len(f.params) == 3 else '', pt,
                        sorted(o for o in opens if o.startswith('Open')), what), func=f.id)
    types = {s.split('|')[2] for s in seen}
    need = {'char (&)[4]', 'signed char (&)[4]', 'unsigned char (&)[4]'}
    if not need <= types:
        raise AnalysisBroken('%s: the witness no longer instantiates the C arrays of all three byte types (%s)' % (rule, sorted(types)))
