"""Whether a string field counts as loaded depends on its presence in the document, never on its text (C18 R18.5).

The generic string loader assigns the target only when the archive's SerializeValue(string_view&) returns true. CSV (and every archive when a
sequence is loaded into a populated target) reuses the existing elements, so a string that is present but reported as 'not loaded' keeps the
text of the previous content. An empty text is a value. The rule is an effect rule over the load-side string overloads of the archive scopes
and their LoadValue helpers: the `value` parameter is an out parameter - it is handed to the reader by reference or assigned; its content is
not read back (value.empty(), size(), comparison), so nothing that decides the result can depend on it."""
from bsv.dtab import AnalysisBroken
from bsv.effects import classify_use

OUT = ('escape', 'write', 'alias')


def check(prog, rep, rule):
    rep.rule(rule, 'load-side string overloads of the archive scopes (SerializeValue(string_view&), LoadValue): the value is only an out parameter, '
                   'so the loaded / not-loaded result cannot depend on the text (an empty text is a value)', floor=10)
    seen = {}
    for f in sorted(prog.funcs.values(), key=lambda g: g.id):
        if f.body is None or f.name not in ('SerializeValue', 'LoadValue'):
            continue
        if not f.relfile.startswith('include/bitserializer/') or not f.relfile.endswith('_archive.h'):
            continue
        sp = [p for p in f.params if 't' in p and p.get('n') == 'value' and 'basic_string_view<' in f.type(p) and f.type(p).rstrip().endswith('&')
              and not f.type(p).startswith('const')]
        if not sp:
            continue
        load = 'Read' in (f.cls or '') or 'SerializeMode::Load' in f.id or f.name == 'LoadValue'
        if not load:
            continue
        name = (f.pq if f.cls else f.name).replace('BitSerializer::', '')
        name = name.split('<')[0] if '<' in name and '::' not in name.split('<', 1)[1] else name
        bad = []
        n_use = 0
        for n in f.walk():
            if n['k'] == 'DeclRefExpr' and n.get('d') == sp[0]['d']:
                u, info = classify_use(f, n)
                cal = (info[1] or {}).get('n') if isinstance(info, tuple) else None
                n_use += 1
                if u in OUT or (u == 'mutcall' and cal == 'operator='):
                    continue
                bad.append((n, u, cal))
        key = (f.relfile, f.pq if f.cls else f.name)
        st = seen.setdefault(key, {'f': f, 'bad': [], 'uses': 0, 'name': name})
        st['uses'] += n_use
        for b in bad:
            if (b[0]['l'], b[1], b[2]) not in [(x[0]['l'], x[1], x[2]) for x in st['bad']]:
                st['bad'].append(b)
    if not seen:
        raise AnalysisBroken('%s: no load-side string overload found in the archive headers' % rule)
    for key, st in sorted(seen.items()):
        f = st['f']
        rep.touch(f)
        short = '%s@%s' % ('::'.join(key[1].split('::')[-2:]), key[0].rsplit('/', 1)[-1])
        if not st['bad']:
            rep.ok(rule, '%s|value is written only' % short, sample={'function': f.loc(), 'uses of the parameter': st['uses']})
            continue
        for n, u, cal in st['bad']:
            rep.finding(rule, '%s|text of the loaded value is read (%s)' % (short, cal or u), f.loc(n),
                        '%s reads the content of the string it has just loaded (%s): the loaded / not-loaded result (or the value) then depends on '
                        'the text, e.g. an empty text is reported as absent and a reused element keeps its previous string' % (short, cal or u),
                        func=f.id)
