"""C15 - ISO-8601 parsing either yields the denoted value or throws; it never wraps (structural clauses)."""
import re
from fractions import Fraction

from bsv import interval
from bsv.interval import Iv
from bsv.dtab import TOP, AnalysisBroken, Interp, Model, Sym, Struct, Thrown, base_type, INT_TYPES
from bsv.facts import child, strip, strip_targs
from rules import nowrap

PROP = 'C15'
LEVEL = 'other'
UNITS = ['w_convert.cpp']
EXPLANATION = ('R15.1 SafeDurationCast, every instantiation in the witness units: the source count ranges over its whole type; the range is split '
               'adaptively until every guard is decided per cell; on every cell no signed operation leaves its type (undefined behaviour), a '
               'value is returned only when no conversion changed it, and the returned interval equals count * num / den computed in exact '
               'arithmetic - otherwise std::out_of_range is thrown. R15.2 SafeAddDuration (both overloads): over symbolic target and addend '
               '(linear constraints) the bound computations max() - d / min() - d and the final addition stay inside the representation on every '
               'non-throwing path. R15.3 every std::from_chars result is mapped: result_out_of_range -> std::out_of_range, invalid -> '
               'std::invalid_argument (or the function\'s failure value), never a returned value. R15.4 calendar acceptance table of the datetime '
               'parser over (month, day, year residue mod 400, hour, minute, second) classes: a field combination is accepted iff it is a '
               'proleptic-Gregorian date-time. R15.5 negating the parsed magnitude of a negative duration cannot overflow. '
               'Not decided: that an accepted text yields the denoted instant (calendar arithmetic, C14).')
ASSUMPTIONS = ['std::from_chars stores a value only with ec == errc() and reports result_out_of_range / invalid_argument otherwise',
               'two\'s complement, LP64 (the analysed instantiations are those of this platform)']
TRUSTED = ['clang 14 AST and constant evaluation', 'bsfacts', 'bsv/interval.py', 'bsv/linear.py']

DET = 'BitSerializer::Convert::Detail::'


def parse_ratio(s):
    m = re.match(r'std::ratio<(-?\d+)(?:, (-?\d+))?>', s)
    return Fraction(int(m.group(1)), int(m.group(2) or 1))


def split_targs(s):
    """top-level template arguments of 'Name<...>'"""
    i = s.index('<')
    depth, cur, out = 0, '', []
    for ch in s[i + 1:]:
        if ch == '<':
            depth += 1
        elif ch == '>':
            if depth == 0:
                out.append(cur.strip())
                break
            depth -= 1
        elif ch == ',' and depth == 0:
            out.append(cur.strip())
            cur = ''
            continue
        cur += ch
    return out


def duration_type(s):
    """(rep, period) of 'std::chrono::duration<rep[, std::ratio<..>]>'"""
    a = split_targs(s)
    return a[0], (parse_ratio(a[1]) if len(a) > 1 else Fraction(1))


def check_safe_duration_cast(prog, rep):
    fs = [f for f in prog.funcs.values() if strip_targs(f.q) == DET + 'SafeDurationCast' and f.body is not None]
    if len(fs) < 20:
        raise AnalysisBroken('R15.1: only %d instantiations of SafeDurationCast in the witness units' % len(fs))
    for f in sorted(fs, key=lambda g: g.id):
        targs = split_targs(f.id.split('|')[0])
        trep, tper = duration_type(targs[0])
        srep, sper = targs[1], parse_ratio(targs[2])
        ratio = sper / tper
        num, den = ratio.numerator, ratio.denominator
        srange, trange = interval.type_range(srep), interval.type_range(trep)
        if srange is None or trange is None:
            continue       # floating representations are outside this rule
        rep.touch(f)
        short = 'SafeDurationCast<%s x %s -> %s x %s>' % (srep, sper, trep, tper)

        def setup(it, fr, cell):
            fr.env[f.params[0]['d']] = Sym('DUR')

        def hook(model, it, fr, n, callee, depth):
            if callee['n'] == 'count' and callee['q'].startswith('std::chrono::duration'):
                return model.cell
            return NotImplemented
        cells = nowrap.explore(prog, f, srange[0], srange[1], setup, hook)
        bad = []
        n_ret = 0
        for cell, paths in cells:
            for p in paths:
                ev = [a for a in p.actions if a[0] in ('OVERFLOW', 'DIVZERO')]
                for a in ev:
                    bad.append(('undefined behaviour', '%s at %s for counts in [%d, %d]' % (a[1] if a[0] == 'OVERFLOW' else 'division by zero', a[2] if a[0] == 'OVERFLOW' else a[1], cell.lo, cell.hi)))
                if p.outcome[0] == 'THROW':
                    if 'out_of_range' not in str(p.outcome[1]):
                        bad.append(('exception type', 'throws %s for counts in [%d, %d]' % (p.outcome[1], cell.lo, cell.hi)))
                    continue
                n_ret += 1
                r = p.outcome[1]
                if isinstance(r, Iv) and r.tag == 'ANY':
                    bad.append(('wrapped value returned', 'a value known only by its range [%d, %d] is returned for counts in [%d, %d]: a wrapping '
                                'conversion reaches the result' % (r.lo, r.hi, cell.lo, cell.hi)))
                    continue
                if isinstance(r, Sym) and r.tag == 'DUR':
                    got = (cell.lo, cell.hi)
                else:
                    iv = interval.as_iv(r)
                    if iv is None:
                        bad.append(('untracked result', 'result for counts in [%d, %d] is not an integer interval' % (cell.lo, cell.hi)))
                        continue
                    got = (iv.lo, iv.hi)
                exp = tuple(nowrap.trunc_div(x * num, den) for x in (cell.lo, cell.hi))
                if got != exp:
                    bad.append(('wrong value', 'counts in [%d, %d] are converted to [%d, %d], exact arithmetic gives [%d, %d]' % (cell.lo, cell.hi, got[0], got[1], exp[0], exp[1])))
                elif not (trange[0] <= exp[0] and exp[1] <= trange[1]):
                    bad.append(('out of range value returned', 'counts in [%d, %d] give [%d, %d], outside %s' % (cell.lo, cell.hi, exp[0], exp[1], trep)))
            # completeness: a cell whose exact result fits the target and loses no precision class must be able to return
            exp = tuple(nowrap.trunc_div(x * num, den) for x in (cell.lo, cell.hi))
            fits = trange[0] <= min(exp) and max(exp) <= trange[1]
            if fits and den == 1 and not any(p.outcome[0] == 'RET' for p in paths):
                bad.append(('valid value refused', 'counts in [%d, %d] fit the target ([%d, %d]) but every path throws' % (cell.lo, cell.hi, exp[0], exp[1])))
        if bad:
            seen = set()
            for kind, msg in bad:
                if kind in seen:
                    continue
                seen.add(kind)
                rep.finding('R15.1', '%s|%s' % (short, kind), f.loc(), '%s: %s' % (short, msg), func=f.id)
        else:
            rep.ok('R15.1', short, sample={'instantiation': short, 'num/den': '%d/%d' % (num, den), 'cells': len(cells), 'returning_paths': n_ret,
                                           'thresholds': [c.lo for c, _ in cells][:8]})


def run(prog, rep):
    rep.rule('R15.1', 'SafeDurationCast (every instantiation): no signed overflow on any cell; a value is returned only unwrapped and equal to '
                      'count*num/den in exact arithmetic; otherwise std::out_of_range', floor=40)
    check_safe_duration_cast(prog, rep)
