"""C15 - ISO-8601 parsing either yields the denoted value or throws; it never wraps (structural clauses)."""
import re
from fractions import Fraction

from bsv import interval
from bsv.interval import Iv
from bsv.dtab import TOP, AnalysisBroken, Interp, Model, Sym, Struct, Thrown, base_type, INT_TYPES
from bsv.facts import child, strip, strip_targs
from rules import nowrap

PROP = 'C15'
LEVEL = 'other'
UNITS = ['w_convert.cpp']
EXPLANATION = ('R15.1 SafeDurationCast, every instantiation in the witness units: the source count ranges over its whole type; the range is split '
               'adaptively until every guard is decided per cell; on every cell no signed operation leaves its type (undefined behaviour), a '
               'value is returned only when no conversion changed it, and the returned interval equals count * num / den computed in exact '
               'arithmetic - otherwise std::out_of_range is thrown. R15.2 SafeAddDuration (both overloads): over symbolic target and addend '
               '(linear constraints) the bound computations max() - d / min() - d and the final addition stay inside the representation on every '
               'non-throwing path. R15.3 every std::from_chars result is mapped: result_out_of_range -> std::out_of_range, invalid -> '
               'std::invalid_argument (or the function\'s failure value), never a returned value. R15.4 calendar acceptance table of the datetime '
               'parser over (month, day, year residue mod 400, hour, minute, second) classes: a field combination is accepted iff it is a '
               'proleptic-Gregorian date-time. R15.5 negating the parsed magnitude of a negative duration cannot overflow. '
               'Not decided: that an accepted text yields the denoted instant (calendar arithmetic, C14).')
ASSUMPTIONS = ['std::from_chars stores a value only with ec == errc() and reports result_out_of_range / invalid_argument otherwise',
               'two\'s complement, LP64 (the analysed instantiations are those of this platform)']
TRUSTED = ['clang 14 AST and constant evaluation', 'bsfacts', 'bsv/interval.py', 'bsv/linear.py']

DET = 'BitSerializer::Convert::Detail::'


def parse_ratio(s):
    m = re.match(r'std::ratio<(-?\d+)(?:, (-?\d+))?>', s)
    return Fraction(int(m.group(1)), int(m.group(2) or 1))


def split_targs(s):
    """top-level template arguments of 'Name<...>'"""
    i = s.index('<')
    depth, cur, out = 0, '', []
    for ch in s[i + 1:]:
        if ch == '<':
            depth += 1
        elif ch == '>':
            if depth == 0:
                out.append(cur.strip())
                break
            depth -= 1
        elif ch == ',' and depth == 0:
            out.append(cur.strip())
            cur = ''
            continue
        cur += ch
    return out


def duration_type(s):
    """(rep, period) of 'std::chrono::duration<rep[, std::ratio<..>]>'"""
    a = split_targs(s)
    return a[0], (parse_ratio(a[1]) if len(a) > 1 else Fraction(1))


def check_safe_duration_cast(prog, rep):
    fs = [f for f in prog.funcs.values() if strip_targs(f.q) == DET + 'SafeDurationCast' and f.body is not None]
    if len(fs) < 20:
        raise AnalysisBroken('R15.1: only %d instantiations of SafeDurationCast in the witness units' % len(fs))
    for f in sorted(fs, key=lambda g: g.id):
        targs = split_targs(f.id.split('|')[0])
        trep, tper = duration_type(targs[0])
        srep, sper = targs[1], parse_ratio(targs[2])
        ratio = sper / tper
        num, den = ratio.numerator, ratio.denominator
        srange, trange = interval.type_range(srep), interval.type_range(trep)
        if srange is None or trange is None:
            continue       # floating representations are outside this rule
        rep.touch(f)
        short = 'SafeDurationCast<%s x %s -> %s x %s>' % (srep, sper, trep, tper)

        def setup(it, fr, cell):
            fr.env[f.params[0]['d']] = Sym('DUR')

        def hook(model, it, fr, n, callee, depth):
            if callee['n'] == 'count' and callee['q'].startswith('std::chrono::duration'):
                return model.cell
            return NotImplemented
        cells = nowrap.explore(prog, f, srange[0], srange[1], setup, hook)
        bad = []
        n_ret = 0
        for cell, paths in cells:
            for p in paths:
                ev = [a for a in p.actions if a[0] in ('OVERFLOW', 'DIVZERO')]
                for a in ev:
                    bad.append(('undefined behaviour', '%s at %s for counts in [%d, %d]' % (a[1] if a[0] == 'OVERFLOW' else 'division by zero', a[2] if a[0] == 'OVERFLOW' else a[1], cell.lo, cell.hi)))
                if p.outcome[0] == 'THROW':
                    if 'out_of_range' not in str(p.outcome[1]):
                        bad.append(('exception type', 'throws %s for counts in [%d, %d]' % (p.outcome[1], cell.lo, cell.hi)))
                    continue
                n_ret += 1
                r = p.outcome[1]
                if isinstance(r, Iv) and r.tag == 'ANY':
                    bad.append(('wrapped value returned', 'a value known only by its range [%d, %d] is returned for counts in [%d, %d]: a wrapping '
                                'conversion reaches the result' % (r.lo, r.hi, cell.lo, cell.hi)))
                    continue
                if isinstance(r, Sym) and r.tag == 'DUR':
                    got = (cell.lo, cell.hi)
                else:
                    iv = interval.as_iv(r)
                    if iv is None:
                        bad.append(('untracked result', 'result for counts in [%d, %d] is not an integer interval' % (cell.lo, cell.hi)))
                        continue
                    got = (iv.lo, iv.hi)
                exp = tuple(nowrap.trunc_div(x * num, den) for x in (cell.lo, cell.hi))
                if got != exp:
                    bad.append(('wrong value', 'counts in [%d, %d] are converted to [%d, %d], exact arithmetic gives [%d, %d]' % (cell.lo, cell.hi, got[0], got[1], exp[0], exp[1])))
                elif not (trange[0] <= exp[0] and exp[1] <= trange[1]):
                    bad.append(('out of range value returned', 'counts in [%d, %d] give [%d, %d], outside %s' % (cell.lo, cell.hi, exp[0], exp[1], trep)))
            # completeness: a cell whose exact result fits the target and loses no precision class must be able to return
            exp = tuple(nowrap.trunc_div(x * num, den) for x in (cell.lo, cell.hi))
            fits = trange[0] <= min(exp) and max(exp) <= trange[1]
            if fits and den == 1 and not any(p.outcome[0] == 'RET' for p in paths):
                bad.append(('valid value refused', 'counts in [%d, %d] fit the target ([%d, %d]) but every path throws' % (cell.lo, cell.hi, exp[0], exp[1])))
        if bad:
            seen = set()
            for kind, msg in bad:
                if kind in seen:
                    continue
                seen.add(kind)
                rep.finding('R15.1', '%s|%s' % (short, kind), f.loc(), '%s: %s' % (short, msg), func=f.id)
        else:
            rep.ok('R15.1', short, sample={'instantiation': short, 'num/den': '%d/%d' % (num, den), 'cells': len(cells), 'returning_paths': n_ret,
                                           'thresholds': [c.lo for c, _ in cells][:8]})


def run(prog, rep):
    check_chrono_casts(prog, rep, 'R15.10')
    rep.rule('R15.1', 'SafeDurationCast (every instantiation): no signed overflow on any cell; a value is returned only unwrapped and equal to '
                      'count*num/den in exact arithmetic; otherwise std::out_of_range', floor=40)
    check_safe_duration_cast(prog, rep)
    rep.rule('R15.2', 'SafeAddDuration (both overloads, every instantiation): bound computations and the final addition stay representable on every '
                      'non-throwing path; the target becomes target + addend; only std::out_of_range is thrown', floor=20)
    check_safe_add(prog, rep)
    rep.rule('R15.3', 'every function of convert_chrono.h that uses std::from_chars: with ec = result_out_of_range every path throws '
                      'std::out_of_range (or returns the failure value), with ec = invalid_argument std::invalid_argument; never a success outcome', floor=6)
    from rules import errc_map
    errc_map.check(prog, rep, 'R15.3', 'include/bitserializer/conversion_detail/convert_chrono.h', 3)
    rep.rule('R15.4', 'ISO datetime parser: the six fields have the ISO ranges/delimiters; over every (year mod 400, month, day class) a combination '
                      'is accepted iff it is a proleptic-Gregorian date; the text ends at Z', floor=9)
    check_calendar(prog, rep)
    rep.rule('R15.5', 'ISO duration parser: negating the parsed unsigned magnitude of a negative duration never overflows and never uses a wrapped value', floor=3)
    check_negation(prog, rep)
    rep.rule('R15.6', 'datetime text -> time_point: with the parsed year ranging over int64 (month/day/time at their extremes) no signed operation '
                      'of the civil-date arithmetic leaves its type (floor-division lemma x - floor(x/k)*k in [0,k-1] built in)', floor=1)
    check_civil(prog, rep)
    rep.rule('R15.7', 'fractions of a second: ParseSecondFractions executed over (digit count 1..10) x (boundary values with that many digits): '
                      'd digits with value v are stored as v * 10^-d s in target periods; more than nine digits are refused', floor=10)
    check_fraction_scale(prog, rep)
    rep.rule('R15.8', 'text -> tm: executed over the boundary years of int and int64 - a year inside the int range is stored unchanged in tm_year, '
                      'any other year ends in std::out_of_range, never in a wrapped tm_year', floor=1)
    check_tm_year(prog, rep)
    rep.rule('R15.9', 'ISO duration parser, every instantiation: a text with a leading minus is refused with std::out_of_range up front exactly '
                      'when the target rep is unsigned (a negative fraction would otherwise wrap in round<unsigned>)', floor=2)
    check_negative_unsigned(prog, rep)


# ------------------------------------------------------------------------------------------------ R15.2 SafeAddDuration (linear)
from bsv.linear import Lin, entails, eq, le, lt, unsat
from bsv.linmodel import LinInterp, LinModel


def rep_range(type_str):
    m = re.search(r'std::chrono::duration<([^,<>]+)', type_str)
    if not m:
        return None
    return interval.type_range(m.group(1).strip())


class AddModel(LinModel):
    def __init__(self, prog):
        self.prog = prog

    def initial_store(self, it, key):
        if key == 'out.target':
            return Lin.sym('T')
        return TOP

    def in_range(self, it, fr, n, what, v, type_str):
        r = rep_range(type_str)
        if r is None:
            raise AnalysisBroken('R15.2: cannot find the representation of %s' % type_str[:80])
        return self.need(it, fr, n, what, [le(r[0], v), le(v, r[1])])

    def primitive(self, it, fr, n, callee, depth):
        q = strip_targs(callee['q'])
        name = callee['n']
        obj, args = it.call_args(fr, n)
        if name == 'SafeDurationCast':
            it.ev(fr, args[0], depth)
            if it.choose('CAST THROWS'):
                raise Thrown('std::out_of_range')
            r = rep_range(fr.f.type(n))
            a = self.fresh(it, 'A', r[0], r[1])
            return a
        if q.startswith('std::chrono::'):
            if name == 'count':
                v = it.ev(fr, obj, depth)
                if isinstance(v, Sym) and v.tag == 'SRC':
                    return Sym('SRCCOUNT')
                return v
            if name in ('max', 'min') and ('time_point' in q or 'duration' in q) and not args:
                r = rep_range(callee['q'])
                return Lin.of(r[1] if name == 'max' else r[0])
            if name in ('operator-', 'operator+'):
                a, b = [Lin.of(it.ev(fr, x, depth)) for x in args[:2]] if obj is None else [Lin.of(it.ev(fr, obj, depth)), Lin.of(it.ev(fr, args[0], depth))]
                if a is None or b is None:
                    raise AnalysisBroken('R15.2: untracked chrono operand at %s' % fr.f.loc(n))
                v = a + b if name == 'operator+' else a - b
                self.in_range(it, fr, n, '%s result is representable' % name, v, fr.f.type(n))
                return v
            if name in ('operator>', 'operator<', 'operator>=', 'operator<=', 'operator==', 'operator!='):
                a, b = [it.ev(fr, x, depth) for x in args[:2]]
                return self.compare(it, fr, n, name[8:], a, b)
            if name == 'operator+=':
                key = it.lvalue(fr, obj, depth)
                a, b = Lin.of(it.ev(fr, obj, depth)), Lin.of(it.ev(fr, args[0], depth))
                v = a + b
                self.in_range(it, fr, n, 'operator+= result is representable', v, fr.f.type(obj))
                it.write_key(fr, key, v)
                return v
            if name == 'operator=':
                key = it.lvalue(fr, obj, depth)
                v = it.ev(fr, args[0], depth)
                if key is not None:
                    it.write_key(fr, key, v)
                return v
            for a in args:
                it.ev(fr, a, depth)
            return TOP
        if not callee.get('repo'):
            for a in args:
                it.ev(fr, a, depth)
            return TOP
        return NotImplemented

    def compare(self, it, fr, n, op, a, b):
        for x, y in ((a, b), (b, a)):
            if isinstance(x, Sym) and x.tag == 'SRCCOUNT':
                return Sym(('GUARD', 'SRC %s 0' % op))
        return LinModel.compare(self, it, fr, n, op, a, b)

    def construct(self, it, fr, n, depth):
        vals = [it.ev(fr, a, depth) for a in n.get('c', ())]
        t = fr.f.type(n)
        if 'std::chrono::' in t:
            if not vals:
                return Lin.of(0)
            v = Lin.of(vals[0])
            if v is not None:
                self.in_range(it, fr, n, 'converted value fits the target representation', v, t)
                return v
        return vals[0] if len(vals) == 1 else TOP


class AddInterp(LinInterp, Interp):
    pass


def check_safe_add(prog, rep):
    fs = [f for f in prog.funcs.values() if strip_targs(f.q) == DET + 'SafeAddDuration' and f.body is not None]
    if len(fs) < 6:
        raise AnalysisBroken('R15.2: only %d instantiations of SafeAddDuration' % len(fs))
    for f in sorted(fs, key=lambda g: g.id):
        ttype = f.type(f.params[0])
        r = rep_range(ttype)
        if r is None:
            continue
        rep.touch(f)
        model = AddModel(prog)
        it = AddInterp(prog, model, max_depth=1, max_paths=200)
        T = Lin.sym('T')

        def init(it_, fr):
            it_.n_fresh = 0
            it_.facts = [le(r[0], T), le(T, r[1])]
            fr.alias[f.params[0]['d']] = 'out.target'
            fr.env[f.params[1]['d']] = Sym('SRC')
        short = re.sub(r'std::chrono::(_V2::)?', '', f.id.split('|')[0].replace(DET, ''))[:150]
        agg = {}
        n_ret = 0
        for p in it.run(f, init):
            it.path, it.facts = p, p.facts
            cns = model.cons(it)
            if unsat(cns):
                continue
            for a in p.actions:
                if a[0] == 'NEED':
                    agg.setdefault((a[1], a[2]), []).append(a[3])
            if p.outcome[0] == 'THROW':
                if 'out_of_range' not in str(p.outcome[1]):
                    agg.setdefault(('throws only std::out_of_range', f.loc()), []).append(False)
                continue
            n_ret += 1
            t1 = Lin.of(p.store.get('out.target', T))
            ok = t1 is not None and entails(cns, [le(r[0], t1), le(t1, r[1])])
            agg.setdefault(('the stored sum fits the target representation', f.loc()), []).append(ok)
            adds = [s for s in (t1.t if t1 is not None else {}) if s.startswith('A#')]
            src0 = [d for l, d in p.guards if l == 'SRC == 0']
            exact = (t1 is not None and ((src0 and src0[0] and t1.key() == T.key()) or (adds and t1.t.get('T') == 1 and t1.c == 0 and all(t1.t[a] == 1 for a in adds))))
            agg.setdefault(('the target becomes target + addend', f.loc()), []).append(bool(exact))
        if not n_ret:
            raise AnalysisBroken('R15.2: no returning path through %s' % short)
        for (what, where), oks in sorted(agg.items()):
            if all(oks):
                rep.ok('R15.2', '%s|%s|%s' % (short, what, where), sample={'function': short, 'obligation': what, 'paths': len(oks)})
            else:
                rep.finding('R15.2', '%s|%s' % (strip_targs(short), what), where, '%s: "%s" is not entailed on %d of %d feasible path(s) - the guarded '
                            'addition can leave the representation' % (short, what, len([o for o in oks if not o]), len(oks)), func=f.id)


# ------------------------------------------------------------------------------------------------ R15.4 calendar acceptance table
def valid_date(y, m, d):
    dim = [31, 29 if (y % 4 == 0 and (y % 100 != 0 or y % 400 == 0)) else 28, 31, 30, 31, 30, 31, 31, 30, 31, 30, 31]
    return 1 <= m <= 12 and 1 <= d <= dim[m - 1]


ISO_FIELDS = [('Year', None, None, '-'), ('Month', 1, 12, '-'), ('Day', 1, 'DIM', 'T'), ('Hour', 0, 23, ':'), ('Min', 0, 59, ':'), ('Sec', 0, 59, None)]


def check_calendar(prog, rep):
    outer = [f for f in prog.funcs.values() if f.name == 'operator()' and f.body is not None and 'convert_chrono.h' in f.id and 'CDateTimeParts' in f.id
             and len(f.params) == 2 and any(n['k'] == 'ArraySubscriptExpr' for n in f.walk())]
    if not outer:
        raise AnalysisBroken('anchor vanished: parseDatetime lambda of ParseIsoUtc')
    f = sorted(outer, key=lambda g: g.id)[0]
    rep.touch(f)
    dim = None
    for key, gs in prog.globals.items():
        if gs[0].get('q', '').endswith('Detail::DaysInMonth'):
            dim = gs[0].get('val')
    if not dim or len(dim) != 12:
        raise AnalysisBroken('anchor vanished: DaysInMonth table')
    # (1) field table from the call sites of the inner field parser
    calls = []
    for n in f.walk():
        # the field parser is an inner lambda or a helper function template: (pos, end, utc.<Field>, min, max, delimiter, ...)
        if n['k'] == 'CXXOperatorCallExpr' and (f.callee(n) or {}).get('n') == 'operator()' and len(n.get('c', [])) >= 5:
            args = n['c'][2:]
        elif n['k'] == 'CallExpr' and (f.callee(n) or {}).get('repo') and len(n.get('c', [])) >= 4:
            args = n['c'][1:]
        else:
            continue
        if True:
            tgt = [m.get('m') for m in f.walk(args[2]) if m['k'] == 'MemberExpr']
            if not tgt:
                continue

            def const_of(a):
                if a is None:
                    return None
                if any(x['k'] == 'ArraySubscriptExpr' for x in f.walk(a)):
                    idx = [x for x in f.walk(a) if x['k'] == 'ArraySubscriptExpr'][0]
                    names = [m.get('m') for m in f.walk(idx['c'][1]) if m['k'] == 'MemberExpr']
                    off = [x for x in f.walk(idx['c'][1]) if x['k'] == 'BinaryOperator' and x.get('op') == '-' and strip(x['c'][1]).get('cv') == 1]
                    return 'DIM' if names == ['Month'] and off else 'DIM?'
                cvs = [x['cv'] for x in f.walk(a) if 'cv' in x and x['k'] in ('IntegerLiteral', 'CharacterLiteral')]
                return cvs[0] if cvs else None
            mn = const_of(args[3]) if len(args) > 3 else None
            mx = const_of(args[4]) if len(args) > 4 else None
            dl = const_of(args[5]) if len(args) > 5 else None
            calls.append((tgt[0], mn, mx, chr(dl) if isinstance(dl, int) and dl else None, n))
    got = [(c[0], c[1], c[2], c[3]) for c in calls]
    for i, exp in enumerate(ISO_FIELDS):
        g = got[i] if i < len(got) else None
        if g == exp:
            rep.ok('R15.4', 'field %s: range [%s, %s], delimiter %r' % exp, sample={'field': exp[0], 'min': exp[1], 'max': exp[2], 'delimiter': exp[3]})
        else:
            rep.finding('R15.4', 'field %d %s' % (i, exp[0]), f.loc(calls[i][4]) if i < len(calls) else f.loc(),
                        'ISO datetime parser: field %d is parsed as %s, ISO 8601 / the documented format needs %s' % (i, g, exp), func=f.id)
    exp_dim = [31, None, 31, 30, 31, 30, 31, 31, 30, 31, 30, 31]
    for i in range(12):
        if i != 1 and dim[i] != exp_dim[i]:
            rep.finding('R15.4', 'DaysInMonth[%d]' % i, f.loc(), 'DaysInMonth[%d] is %d, the Gregorian calendar has %d' % (i, dim[i], exp_dim[i]), func=f.id)
    # (2) acceptance of (year residue, month, day): day bound from the table plus the guards that mention utc.Year
    utc = [n for n in f.walk() if n['k'] == 'DeclRefExpr' and n.get('n') == 'utc']
    if not utc:
        raise AnalysisBroken('R15.4: local "utc" not found')
    utc_d = utc[0]['d']
    from bsv.expr import named_inits
    inits = named_inits(f)
    temps = {}
    guards = []
    for n in f.walk():
        if n['k'] == 'IfStmt':
            c0 = child(n, 'cond')
            names = set(m.get('m') for m in f.walk(c0) if m['k'] == 'MemberExpr')
            tl = []
            for x in f.walk(c0):
                if x['k'] == 'DeclRefExpr' and x.get('d') in inits and x.get('d') != utc_d:
                    tl.append((x['d'], inits[x['d']]))
                    names |= set(m.get('m') for m in f.walk(inits[x['d']]) if m['k'] == 'MemberExpr')
            temps[id(c0)] = tl
            if 'Year' in names and names <= {'Year', 'Month', 'Day'}:
                th = [x for x in f.walk(child(n, 'then')) if x['k'] == 'CXXThrowExpr']
                if th:
                    guards.append((c0, 'invalid_argument' in f.type(strip(th[0]['c'][0])) if th[0].get('c') else False))
    class GuardModel(Model):
        """guards are closed integer expressions over the three fields; small library helpers are inlined, conversions wrap like the hardware"""
        def primitive(self, it, fr, n, callee, depth):
            return NotImplemented if callee.get('repo') else TOP
    it = Interp(prog, GuardModel(), max_depth=3)
    it.path = type('P', (), {'actions': [], 'guards': []})()
    it.decisions, it.dpos, it.new_choices, it.store, it.steps, it.off = [], 0, [], {}, 0, 0
    from bsv.dtab import Frame
    fr = Frame(f)
    it.frames = {id(fr): fr}
    bad_acc, bad_rej, n_cells = [], [], 0
    big = [b + r for b in (1 << 31, 1 << 32, (1 << 32) + 400 * 7, 1 << 40, 25252734927764000) for r in range(0, 400)]
    big = big + [-y for y in big]
    for m in range(1, 13):
        for d in (1, 28, 29, 30, 31, 32):
            for y in list(range(-400, 401)) + (big if (m == 2 and d in (28, 29)) else []):
                st = Struct()
                st.fields.update({'Year': y, 'Month': m, 'Day': d})
                fr.env[utc_d] = st
                acc = 1 <= d <= dim[m - 1]
                for c0, is_inv in guards:
                    it.steps = 0
                    it.path.actions = []
                    it.frames = {id(fr): fr}
                    for dd, ini in temps[id(c0)]:
                        fr.env[dd] = it.ev(fr, ini, 0)        # named temporaries of the guard, in declaration order
                    v = it.ev(fr, c0, 0)
                    if not isinstance(v, (int, bool)):
                        raise AnalysisBroken('R15.4: guard at %s is not decided for year %d, %02d-%02d' % (f.loc(c0), y, m, d))
                    if v:
                        acc = False
                n_cells += 1
                if acc and not valid_date(y, m, d):
                    bad_acc.append((y, m, d))
                if not acc and valid_date(y, m, d):
                    bad_rej.append((y, m, d))
    if bad_acc:
        y, m, d = bad_acc[0]
        rep.finding('R15.4', 'calendar|accepts a day that does not exist', f.loc(), 'ISO datetime parser accepts %d combination(s) of (year mod 400, month, day) '
                    'that are not dates, e.g. year %d, %02d-%02d (the text then denotes no instant and is silently moved to another day)' % (len(bad_acc), y, m, d),
                    func=f.id, count=len(bad_acc))
    else:
        rep.ok('R15.4', 'calendar|no non-existent day accepted', sample={'cells': n_cells, 'guards': len(guards), 'days_in_month': dim})
    if bad_rej:
        y, m, d = bad_rej[0]
        rep.finding('R15.4', 'calendar|rejects a valid date', f.loc(), 'ISO datetime parser rejects %d valid (year mod 400, month, day) combination(s), e.g. '
                    'year %d, %02d-%02d' % (len(bad_rej), y, m, d), func=f.id, count=len(bad_rej))
    else:
        rep.ok('R15.4', 'calendar|every valid date accepted', sample={'cells': n_cells})
    # (3) the text must end right after 'Z': the guard that throws is read as a boolean function of three atoms - the cursor is at the end (A),
    # the character under it is 'Z' (B), the cursor + 1 is the end (C) - and must throw exactly when not (not A and B and C); named flags,
    # De Morgan forms and operand order do not matter
    from bsv.expr import BoolExpr
    tail = False
    seen_guard = False

    def classify(e):
        if e['k'] != 'BinaryOperator' or e.get('op') not in ('==', '!='):
            return None
        l, r = strip(e['c'][0]), strip(e['c'][1])
        if l is None or r is None:
            return None
        pos_ = e['op'] == '=='

        def is_end(x):
            return x['k'] == 'DeclRefExpr' and (x.get('n') or '').lower().startswith('end') or (x['k'] == 'DeclRefExpr' and 'end' in (x.get('n') or '').lower())

        def is_cursor(x):
            return x['k'] == 'DeclRefExpr' and not is_end(x)

        def is_next(x):
            return x['k'] == 'BinaryOperator' and x.get('op') == '+' and any((strip(c) or {}).get('cv') == 1 for c in x['c']) and any(is_cursor(strip(c) or {'k': ''}) for c in x['c'])

        def is_deref(x):
            return (x['k'] == 'UnaryOperator' and x.get('op') == '*' and is_cursor(strip(x['c'][0]) or {'k': ''})) or \
                   (x['k'] == 'ArraySubscriptExpr' and (strip(x['c'][1]) or {}).get('cv') == 0)
        for x, y in ((l, r), (r, l)):
            if is_cursor(x) and is_end(y):
                return ('A', pos_)
            if is_deref(x) and y.get('cv') == 90:
                return ('B', pos_)
            if is_next(x) and is_end(y):
                return ('C', pos_)
        return None
    for n in f.walk():
        if n['k'] != 'IfStmt':
            continue
        c0 = child(n, 'cond')
        th = [x for x in f.walk(child(n, 'then')) if x['k'] == 'CXXThrowExpr'] if child(n, 'then') is not None else []
        if not th:
            continue
        be = BoolExpr(f, c0, classify)
        if 'B' not in be.atoms or be.unknown:
            continue
        seen_guard = True
        ok = set(be.atoms) == {'A', 'B', 'C'}
        if ok:
            for env, v in be.table():
                if env['A'] and (env['C']):
                    continue        # cursor at the end and cursor + 1 at the end cannot both hold
                want = not ((not env['A']) and env['B'] and env['C'])
                if env['A']:
                    want = True
                if v != want:
                    ok = False
        tail = tail or ok
    if tail:
        rep.ok('R15.4', "text ends right after 'Z'")
    else:
        rep.finding('R15.4', "trailing characters after 'Z'", f.loc(), "ISO datetime parser does not require the text to end after the closing 'Z'", func=f.id)


# ------------------------------------------------------------------------------------------------ R15.5 negation of the parsed magnitude
def check_negation(prog, rep):
    def shape(f):
        ts = [f.type(p) if 't' in p else '' for p in f.params]
        return len(ts) == 5 and ts[0].startswith('const char *') and ts[1].startswith('const char *') and ts[2] == 'bool' and ts[3] == 'bool' and 'duration' in ts[4]
    fs = [f for f in prog.funcs.values() if f.name == 'operator()' and f.body is not None and 'convert_chrono.h' in f.id and shape(f)]
    if not fs:
        raise AnalysisBroken('anchor vanished: parseNextPart lambda of the ISO duration parser')
    n_ok = 0
    for f in sorted(fs, key=lambda g: g.id):
        pd = {p['d']: p for p in f.params}
        # the negation of the parsed magnitude: a unary minus whose operand is (a cast of) a local of an unsigned 64-bit type
        negs = []
        for x in f.walk():
            if x['k'] == 'UnaryOperator' and x.get('op') == '-':
                loc_ = [y for y in f.walk(x) if y['k'] == 'DeclRefExpr' and y.get('dk') in ('Var', None) and y.get('d') not in pd
                        and 'unsigned long' in f.type(y)]
                if loc_:
                    negs.append((x, loc_[0]))
        if not negs:
            raise AnalysisBroken('R15.5: the negation of the parsed magnitude was not found in %s' % f.loc())
        rep.touch(f)
        vd = negs[0][1]['d']
        # region: everything that follows the parse of the number - the largest enclosing block that does not contain the from_chars call
        region = None
        p_ = f.parent(negs[0][0])
        while p_ is not None:
            if p_['k'] == 'CompoundStmt':
                if any(y['k'] == 'CallExpr' and (f.callee(y) or {}).get('n') == 'from_chars' for y in f.walk(p_)):
                    break
                region = p_
            p_ = f.parent(p_)
        # when the parse and the negation are statements of one block (guard clauses instead of nesting), the region is everything in
        # that block that follows the statement of the parse
        if p_ is not None and p_['k'] == 'CompoundStmt':
            kids = p_.get('c', [])
            idx = [i for i, st in enumerate(kids) if any(y['k'] == 'CallExpr' and (f.callee(y) or {}).get('n') == 'from_chars' for y in f.walk(st))]
            after = kids[idx[-1] + 1:] if idx else []
            if any(any(y is negs[0][0] for y in f.walk(st)) for st in after):
                region = {'k': 'CompoundStmt', 'i': -1, 'l': after[0].get('l', 0), 'c': after}
        if region is None:
            raise AnalysisBroken('R15.5: no block after the parse of the number encloses the negation in %s' % f.loc())
        ifs = [region]

        def setup(it, fr, cell):
            for p in f.params:
                fr.env[p['d']] = TOP
            for x in f.walk():
                for dcl in x.get('decls', []) or []:
                    fr.env.setdefault(dcl['d'], TOP)
            fr.env[vd] = cell
        cells = nowrap.explore(prog, f, 0, (1 << 64) - 1, setup, None, body=ifs[0], max_depth=0)
        bad = []
        for cell, paths in cells:
            for p in paths:
                for a in p.actions:
                    if a[0] == 'OVERFLOW':
                        bad.append('%s overflows for magnitudes in [%d, %d] (%s)' % (a[1], cell.lo, cell.hi, a[2]))
                    if a[0] == 'WRAPCAST' and p.outcome[0] != 'THROW' and cell.lo != cell.hi:
                        bad.append('a magnitude in [%d, %d] is converted to %s with a changed value and used (%s)' % (cell.lo, cell.hi, a[1], a[2]))
        target = f.id.split('|')[0][-8:]
        if bad:
            rep.finding('R15.5', 'parseNextPart|negation', f.loc(ifs[0]), 'ISO duration parser, negative duration: %s' % sorted(set(bad))[0], func=f.id)
        else:
            n_ok += 1
            rep.ok('R15.5', 'parseNextPart|negation|%s' % f.id[-60:], sample={'cells': [(c.lo, c.hi) for c, _ in cells][:6]})
    return n_ok


# ------------------------------------------------------------------------------------------------ R15.6 civil date -> days arithmetic
def check_civil(prog, rep):
    fs = [f for f in prog.funcs.values() if f.name == 'To' and f.body is not None and f.relfile.endswith('convert_chrono.h')
          and any(n['k'] == 'CallExpr' and (f.callee(n) or {}).get('n') == 'ParseIsoUtc' for n in f.walk())
          and any(n['k'] == 'DeclStmt' and any(x.get('cv') == 146097 for x in f.walk(n)) for n in f.walk())]
    if not fs:
        raise AnalysisBroken('anchor vanished: To(string_view, time_point&) with the civil->days arithmetic')
    thorough = getattr(rep, 'tier', 'quick') == 'thorough'
    for f in sorted(fs, key=lambda g: g.id)[:(4 if thorough else 1)]:
        rep.touch(f)
        short = re.sub(r'std::chrono::(_V2::)?', '', f.id.split('|')[0].replace('BitSerializer::Convert::Detail::', ''))[:110]
        bad = set()
        n_cells = 0
        combos = [(m, d, h, 59 if h else 0, 59 if h else 0) for m in range(1, 13) for d, h in ((1, 0), (28, 23))] if thorough else [(1, 1, 0, 0, 0), (12, 31, 23, 59, 59)]
        for (mo, dy, hh, mi, ss) in combos:
            def setup(it, fr, cell):
                for p in f.params:
                    fr.env[p['d']] = TOP

            def hook(model, it, fr, n, callee, depth):
                if callee['n'] == 'ParseIsoUtc':
                    st = Struct()
                    st.fields.update({'Year': model.cell, 'Month': mo, 'Day': dy, 'Hour': hh, 'Min': mi, 'Sec': ss, 'SecFractions': TOP})
                    return st
                return NotImplemented
            cells = nowrap.explore(prog, f, -(1 << 63), (1 << 63) - 1, setup, hook, max_depth=0)
            n_cells += len(cells)
            for cell, paths in cells:
                for p in paths:
                    for a in p.actions:
                        if a[0] == 'OVERFLOW':
                            bad.add((a[4], a[2], '%s in the computation of "%s" leaves %s for some year in [%d, %d] (month %d)' % (a[1], a[4], a[3], cell.lo, cell.hi, mo)))
        if bad:
            seen_w = set()
            for var, where, msg in sorted(bad):
                if var in seen_w:
                    continue
                seen_w.add(var)
                rep.finding('R15.6', 'To(time_point)|signed overflow computing %s' % var, where,
                            '%s: %s - undefined behaviour before the range guard' % (short, msg), func=f.id)
        else:
            rep.ok('R15.6', short, sample={'function': short, 'cells': n_cells})


# ------------------------------------------------------------------------------------------------ R15.7 scaling of the fraction digits
class FracModel(Model):
    """ParseSecondFractions executed over (number of digits d, parsed value v): std::from_chars delivers v and stops d characters after pos"""
    unroll_loops = True

    def __init__(self, d, v):
        self.d, self.v = d, v

    def initial_store(self, it, key):
        return TOP

    def compare(self, it, fr, n, op, a, b):
        from bsv.dtab import Pos
        if isinstance(a, Pos) and isinstance(b, Pos) and isinstance(a.k, int) and isinstance(b.k, int):
            return 1 if {'==': a.k == b.k, '!=': a.k != b.k, '<': a.k < b.k, '<=': a.k <= b.k, '>': a.k > b.k, '>=': a.k >= b.k}[op] else 0
        return Sym(('GUARD', 'CMP@%s' % fr.f.loc(n)))

    def arith(self, it, fr, n, op, a, b):
        from bsv.dtab import Pos
        if op == '-' and isinstance(a, Pos) and isinstance(b, Pos) and isinstance(a.k, int) and isinstance(b.k, int):
            return a.k - b.k
        return TOP

    def construct(self, it, fr, n, depth):
        vals = [it.ev(fr, a, depth) for a in n.get('c', ())]
        return vals[0] if len(vals) == 1 else TOP

    def primitive(self, it, fr, n, callee, depth):
        from bsv.dtab import Pos
        obj, args = it.call_args(fr, n)
        if callee['q'] == 'std::from_chars':
            key = it.lvalue(fr, args[2], depth)
            if key is None:
                raise AnalysisBroken('R15.7: std::from_chars target is not a local')
            it.write_key(fr, key, self.v)
            st = Struct()
            st.fields['ec'] = 0
            st.fields['ptr'] = Pos(self.d)
            it.act('FROM_CHARS')
            return st
        if callee['n'] == 'operator=' and obj is not None:
            key = it.lvalue(fr, obj, depth)
            v = it.ev(fr, args[0], depth) if args else TOP
            if key is not None:
                it.write_key(fr, key, v)
            return v
        if callee.get('repo'):
            return NotImplemented
        for a in args:
            it.ev(fr, a, depth)
        return TOP


class FracInterp(Interp):
    def ev(self, fr, n, depth):
        if n is not None and n['k'] == 'InitListExpr' and n.get('c') and all('cv' in c for c in n['c']):
            return [c['cv'] for c in n['c']]
        return Interp.ev(self, fr, n, depth)

    def cast_other(self, v, t):
        return v if isinstance(v, list) else Interp.cast_other(self, v, t)

    def coerce(self, v, t):
        return v if isinstance(v, list) else Interp.coerce(self, v, t)


def check_fraction_scale(prog, rep):
    """d digits denoting the value v (leading zeros included in d) are v * 10^-d seconds: the stored count is that many target periods, truncated"""
    from bsv.dtab import Pos
    fs = sorted((f for f in prog.funcs.values() if f.name == 'ParseSecondFractions' and f.body is not None and 'convert_chrono.h' in f.relfile),
                key=lambda g: g.id)
    if not fs:
        raise AnalysisBroken('anchor vanished: ParseSecondFractions')
    seen = set()
    for f in fs:
        m = re.search(r'std::ratio<1, (\d+)>', f.id)
        if not m or f.id in seen:
            continue
        seen.add(f.id)
        den = int(m.group(1))
        rep.touch(f)
        for d in range(1, 11):
            vals = sorted(set(v for v in (1, 9, 10 ** (d - 1), 10 ** (d - 1) + 1, 10 ** d - 1, 5 * 10 ** (d - 1), 123456789 % 10 ** d or 1,
                                          987654321 // 10 ** max(0, 9 - d) if d <= 9 else 1) if 0 < v < min(10 ** d, 1 << 32)))
            bad = None
            for v in vals:
                it = FracInterp(prog, FracModel(d, v), max_depth=2, max_paths=50)

                def init(it_, fr):
                    fr.env[f.params[0]['d']] = Pos(0)
                    fr.env[f.params[1]['d']] = Pos(d + 1)
                    fr.alias[f.params[2]['d']] = 'out.time'
                for p in it.run(f, init):
                    got = p.store.get('out.time', TOP)
                    ret = p.outcome[1] if p.outcome[0] == 'RET' else p.outcome
                    if d <= 9:
                        want = v * 10 ** (9 - d) * den // 10 ** 9
                        if not (isinstance(ret, Pos) and ret.k == d):
                            bad = 'with %d digit(s) the function does not return the end of the digits (%r)' % (d, ret)
                        elif got != want:
                            bad = '%d digit(s) with value %d (0.%0*d s) are stored as %s periods of 1/%d s, expected %d' % (d, v, d, v, got, den, want)
                    else:
                        if ret not in (0, None) or isinstance(ret, Pos):
                            bad = 'more than nine digits are accepted (returns %r)' % (ret,)
                if bad:
                    break
            site = 'ParseSecondFractions<1/%d>|%d digit(s)' % (den, d)
            if bad:
                rep.finding('R15.7', site, f.loc(), 'ParseSecondFractions (period 1/%d s): %s' % (den, bad), {'instantiation': f.id}, func=f.id)
            else:
                rep.ok('R15.7', site, sample={'period_den': den, 'digits': d, 'values': vals} if d in (1, 7) else None)


# ------------------------------------------------------------------------------------------------ R15.8 parsed year -> tm_year
class TmModel(Model):
    def __init__(self, year):
        self.year = year

    def initial_store(self, it, key):
        return TOP

    def construct(self, it, fr, n, depth):
        vals = [it.ev(fr, a, depth) for a in n.get('c', ())]
        return vals[0] if len(vals) == 1 else TOP

    def primitive(self, it, fr, n, callee, depth):
        obj, args = it.call_args(fr, n)
        if callee['n'] == 'ParseIsoUtc':
            st = Struct()
            st.fields.update({'Year': self.year, 'Month': 1, 'Day': 1, 'Hour': 0, 'Min': 0, 'Sec': 0})
            return st
        if callee.get('repo'):
            return NotImplemented
        for a in args:
            it.ev(fr, a, depth)
        return TOP


def check_tm_year(prog, rep):
    """To(text, tm&): the parsed year is a 64-bit value, tm_year an int. Executed over the boundary years of both types: inside the int range the
    year is stored unchanged, outside the function throws std::out_of_range - it never returns with a wrapped year."""
    fs = sorted((f for f in prog.funcs.values() if f.q == 'BitSerializer::Convert::Detail::To' and f.body is not None and len(f.params) == 2
                 and f.type(f.params[1]).replace('struct ', '').strip() in ('tm &', 'std::tm &')), key=lambda g: g.id)
    if not fs:
        raise AnalysisBroken('anchor vanished: To(string_view, tm&)')
    years = [0, 1970, -1, 2147483647, 2147483648, -2147483648, -2147483649, 4294967296 + 2024, -4294967296 + 2024, (1 << 63) - 1, -(1 << 63)]
    for f in fs:
        rep.touch(f)
        bad = None
        for y in years:
            it = Interp(prog, TmModel(y), max_depth=2, max_paths=50)

            def init(it_, fr):
                fr.env[f.params[0]['d']] = Sym('TEXT')
                fr.alias[f.params[1]['d']] = 'out'
            for p in it.run(f, init):
                inside = -2147483648 <= y <= 2147483647
                if p.outcome[0] == 'THROW':
                    if inside:
                        bad = 'year %d fits tm_year but the function throws %s' % (y, p.outcome[1])
                    elif str(p.outcome[1]) != 'std::out_of_range':
                        bad = 'year %d is reported with %s instead of std::out_of_range' % (y, p.outcome[1])
                else:
                    got = p.store.get('out.tm_year', TOP)
                    if not inside:
                        bad = 'year %d does not fit tm_year (int) but the function returns, tm_year = %s' % (y, got if isinstance(got, int) else '?')
                    elif got != y:
                        bad = 'year %d is stored as tm_year = %s' % (y, got if isinstance(got, int) else '?')
            if bad:
                break
        site = 'To(text, tm)|' + f.sym.get('targs', '')[:40]
        if bad:
            rep.finding('R15.8', 'To(text, tm)|year range', f.loc(), 'To(text, tm&): ' + bad, {'instantiation': f.id}, func=f.id)
        else:
            rep.ok('R15.8', site, sample={'years': years})


# ------------------------------------------------------------------------------------------------ R15.9 negative text, unsigned target
def check_negative_unsigned(prog, rep):
    """ISO duration parser: a text with a leading '-' cannot be represented by a duration whose rep is unsigned. The magnitude checks further
    down catch a non-zero integer part, but a negative fraction of a second ("-PT0.5S") reaches std::chrono::round<unsigned target>(-ns) and
    wraps. Per instantiation of the parser: the flag set from `*pos == '-'` guards a throw of std::out_of_range whose condition - with the
    flag true and the type-dependent parts as clang evaluated them for this instantiation - is true exactly when the rep is unsigned."""
    def ev(f, e, d):
        e = strip(e)
        if e is None:
            return None
        if 'cv' in e and e['k'] not in ('DeclRefExpr',):
            return bool(e['cv'])
        if e['k'] == 'DeclRefExpr':
            if e.get('d') == d:
                return True
            return bool(e['cv']) if 'cv' in e else None
        if e['k'] == 'UnaryOperator' and e.get('op') == '!':
            v = ev(f, e['c'][0], d)
            return None if v is None else not v
        if e['k'] == 'BinaryOperator' and e.get('op') in ('&&', '||'):
            a, b = ev(f, e['c'][0], d), ev(f, e['c'][1], d)
            if e['op'] == '&&':
                return False if (a is False or b is False) else (None if (a is None or b is None) else True)
            return True if (a is True or b is True) else (None if (a is None or b is None) else False)
        return None
    n = 0
    for f in sorted(prog.funcs.values(), key=lambda g: g.id):
        if f.body is None or 'convert_chrono.h' not in f.relfile:
            continue
        flags = set()
        for x in f.walk():
            if x['k'] == 'BinaryOperator' and x.get('op') == '=' or x['k'] == 'DeclStmt':
                rhs = x['c'][-1] if x.get('c') else None
                if rhs is not None and any(y['k'] == 'BinaryOperator' and y.get('op') == '==' and any(z.get('k') == 'CharacterLiteral' and z.get('cv') == 45
                                                                                                    for z in f.walk(y)) for y in f.walk(rhs)):
                    if x['k'] == 'DeclStmt':
                        flags.update(dd['d'] for dd in x.get('decls', []))
                    else:
                        lhs = strip(x['c'][0])
                        if lhs is not None and lhs['k'] == 'DeclRefExpr':
                            flags.add(lhs['d'])
        if not flags:
            continue
        m = re.search(r'std::chrono::duration<([\w ]+)[,>]', f.id)
        if not m:
            continue
        info = INT_TYPES.get(m.group(1).strip())
        if not info:
            continue
        unsigned_rep = not info[1]
        n += 1
        rep.touch(f)
        d = sorted(flags)[0]
        fires = False
        for x in f.walk():
            if x['k'] != 'IfStmt':
                continue
            c0, th = child(x, 'cond'), child(x, 'then')
            if c0 is None or th is None or not any(y['k'] == 'DeclRefExpr' and y.get('d') == d for y in f.walk(c0)):
                continue
            throws = [y for y in f.walk(th) if y['k'] == 'CXXThrowExpr' and 'out_of_range' in str(y.get('tt'))]
            if throws and ev(f, c0, d) is True:
                fires = True
        site = 'duration parser|rep %s|%s' % (m.group(1).strip(), f.id.split('|')[0][-40:])
        if fires == unsigned_rep:
            rep.ok('R15.9', site, sample={'rep': m.group(1).strip(), 'negative_text_refused_up_front': fires})
        elif unsigned_rep:
            rep.finding('R15.9', 'duration parser|negative text into unsigned rep', f.loc(),
                        'ISO duration parser for a target with rep %s: no std::out_of_range is thrown for a text that starts with \'-\' (the guard is '
                        'constant false for this instantiation): "-PT0.5S" reaches round<unsigned>(-ns) and returns a wrapped value' % m.group(1).strip(),
                        {'instantiation': f.id}, func=f.id)
        else:
            rep.finding('R15.9', 'duration parser|negative text refused for a signed rep', f.loc(),
                        'ISO duration parser for a target with signed rep %s refuses every negative text' % m.group(1).strip(), {'instantiation': f.id}, func=f.id)
    if n < 2:
        raise AnalysisBroken('R15.9: the sign flag of the ISO duration parser was found in %d instantiation(s) only' % n)


def check_chrono_casts(prog, rep, rule):
    """std::chrono::round / floor / ceil / duration_cast / time_point_cast convert to the target representation with a bare static_cast.
    Inside the parsers of convert_chrono.h the target may be any user-chosen duration, so such a call is allowed only when it cannot
    narrow: the representation it converts to is at least as wide as the one it converts from (the range of a narrower target is then
    checked by SafeDurationCast / SafeAddDuration, R15.1 / R15.2). Instantiations with 8- and 16-bit sub-second representations are in
    the witness."""
    import re
    from bsv.dtab import INT_TYPES
    rep.rule(rule, 'convert_chrono.h: no std::chrono rounding / cast converts into an integer representation narrower than its source '
                   '(a fraction of a second rounded straight into an 8- or 16-bit representation wraps before any range check)', floor=4)
    seen = {}
    narrow_inst = False
    for f in sorted(prog.funcs.values(), key=lambda g: g.id):
        if f.body is None or not f.relfile.endswith('conversion_detail/convert_chrono.h'):
            continue
        if 'signed char' in f.id or 'short' in f.id:
            narrow_inst = True      # a parser instantiated for an 8- / 16-bit representation exists in the facts
        frac_vars = set()
        for n in f.walk():
            if n['k'] == 'CallExpr' and (f.callee(n) or {}).get('n') == 'ParseSecondFractions':
                for a in n.get('c', [])[1:]:
                    for x in f.walk(a):
                        if x['k'] == 'DeclRefExpr' and x.get('dk') == 'Var':
                            frac_vars.add(x.get('d'))
        for n in f.walk():
            if n['k'] != 'CallExpr':
                continue
            c = f.callee(n) or {}
            if c.get('n') not in ('round', 'floor', 'ceil', 'duration_cast', 'time_point_cast') or not (c.get('q') or '').startswith('std::chrono'):
                continue
            ta = c.get('targs', '')
            m = re.match(r'\s*std::chrono::(?:time_point<[^,]+,\s*)?duration<([^,>]+)', ta)
            src = f.type(n['c'][1]) if len(n.get('c', [])) > 1 else ''
            ms = re.search(r'duration<([^,>]+)', src)
            if not m or not ms:
                continue
            trep, srep = m.group(1).strip(), ms.group(1).strip()
            ti, si = INT_TYPES.get(trep), INT_TYPES.get(srep)
            if ti is None or si is None:
                continue
            key = (f.relfile, n['l'])
            st = seen.setdefault(key, {'f': f, 'n': n, 'bad': None, 'count': 0})
            st['count'] += 1
            if ti[0] < si[0] and st['bad'] is None:
                # a source known to be a fraction of one second (the value ParseSecondFractions produced, R15.7) converts to at most
                # one second's worth of target units: no wrap when the target representation holds that many
                arg = n['c'][1]
                from bsv.expr import named_inits
                inits = named_inits(f)
                nodes = list(f.walk(arg))
                for _ in range(3):      # named temporaries on the way (const nanoseconds signedFractions = isNegative ? -ns : ns;)
                    extra = [y for x in nodes if x['k'] == 'DeclRefExpr' and x.get('d') in inits and x.get('d') not in frac_vars
                             for y in f.walk(inits[x['d']])]
                    if not extra:
                        break
                    nodes = nodes + [y for y in extra if all(y is not z for z in nodes)]
                frac = any((x['k'] == 'DeclRefExpr' and x.get('d') in frac_vars) or (x['k'] == 'MemberExpr' and x.get('m') == 'SecFractions')
                           for x in nodes)
                mr = re.search(r'duration<[^,>]+,\s*std::ratio<(\d+),\s*(\d+)>', ta)
                num, den = (int(mr.group(1)), int(mr.group(2))) if mr else (1, 1)
                per_second = -(-den // num) if den > num else 1
                limit = (1 << (ti[0] - 1)) - 1 if ti[1] else (1 << ti[0]) - 1
                if frac and per_second <= limit:
                    continue
                st['bad'] = (f, n, c.get('n'), trep, srep)
    if not seen:
        raise AnalysisBroken('%s: no std::chrono conversion found in convert_chrono.h' % rule)
    if not narrow_inst:
        rep.defer_broken('%s: no parser instantiation with an 8- or 16-bit representation in the facts (witness/w_convert.cpp)' % rule)
    for key, st in sorted(seen.items()):
        rep.touch(st['f'])
        site = 'convert_chrono.h:%d' % key[1]
        if st['bad'] is None:
            rep.ok(rule, site, sample={'site': st['f'].loc(st['n']), 'instantiations': st['count']})
        else:
            bf, bn, nm, trep, srep = st['bad']
            rep.finding(rule, '%s|std::chrono::%s into a narrower representation' % (site, nm), bf.loc(bn),
                        'std::chrono::%s converts a duration counted in %s into one counted in %s: the conversion wraps before any range check '
                        '(e.g. "PT0.2S" into duration<int8_t, std::milli> gives -56 ms instead of std::out_of_range)' % (nm, srep, trep),
                        {'instantiation': bf.id[:200]}, func=bf.id)
