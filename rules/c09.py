"""C09 - CSV written and read per RFC 4180 (structural clauses)."""
from bsv.cfg import CFG
from bsv.dtab import TOP, AnalysisBroken, Pos, Sym
from bsv.facts import child, strip, strip_targs
from bsv.expr import named_inits
from bsv.interval import Iv
from bsv.linear import Lin
from rules import utf_tables as U

PROP = 'C09'
LEVEL = 'other'
EXPLANATION = ('R9.1 (dimension discipline): in all four ReadValue bodies of the two CSV readers every view / pointer pair built from a cell '
               'descriptor covers exactly [Offset, Offset+Size) of the row buffer (symbolic linear evaluation of the arguments). '
               'R9.2: WriteEscapedValue quotes a field whenever it contains a double quote, the separator, CR or LF (abstract interpretation over '
               'all 256 byte values x 5 separators) and doubles inner quotes. R9.3: every row path compares the row width with the header / '
               'previous row and throws on mismatch (2 readers, 2 writers). R9.4: the separator is validated before any reader/writer is '
               'constructed, against the documented set. Not decided: the scanner state machine for all tables (twin equality in C10).')
ASSUMPTIONS = ['CValueMeta{Offset, Size} produced by ParseNextLine are as named (start offset, length)']
TRUSTED = ['clang 14 AST/CFG', 'bsfacts', 'bsv/dtab.py', 'bsv/linear.py']
UNITS = ['csv_readers.cpp', 'csv_writers.cpp', 'csv_archive.cpp']

NS = 'BitSerializer::Csv::Detail::'
DOCUMENTED_SEPARATORS = {',', ';', '\t', ' ', '|'}


def lin_of(f, e):
    """symbolic linear value of a pointer/size expression: X.data() -> D, meta.Offset -> Offset, meta.Size -> Size"""
    e = strip(e)
    if e is None:
        return None
    k = e['k']
    if 'cv' in e and k not in ('DeclRefExpr', 'MemberExpr'):
        return Lin.of(e['cv'])
    if k == 'MemberExpr' and e.get('dk') == 'Field' and e['m'] in ('Offset', 'Size'):
        return Lin.sym(e['m'])
    if k == 'CXXMemberCallExpr':
        s = f.callee(e)
        if s is not None and s['n'] == 'data':
            return Lin.sym('D')
        return None
    if k == 'DeclRefExpr' and e.get('dk') in ('Var', None) and not e.get('g'):
        # a named temporary: a local with one initialiser that is never assigned again stands for its initialiser
        inits = named_inits(f)
        if e.get('d') in inits:
            return lin_of(f, inits[e['d']])
        return None
    if k == 'BinaryOperator' and e.get('op') in ('+', '-'):
        a, b = lin_of(f, e['c'][0]), lin_of(f, e['c'][1])
        if a is None or b is None:
            return None
        return a + b if e['op'] == '+' else a - b
    return None


def run(prog, rep):
    from rules import csvunescape
    csvunescape.check(prog, rep, 'R9.10')
    from rules import csv_options
    csv_options.check(prog, rep, 'R9.8')
    rep.rule('R9.1', 'cell descriptor discipline: every (pointer,length) / (begin,end) built from CValueMeta covers exactly [Offset, Offset+Size)', floor=4)
    rep.rule('R9.2', 'WriteEscapedValue quotes a field containing a double quote, the separator, CR or LF, for every separator; inner quotes are doubled', floor=5)
    rep.rule('R9.3', 'row width is compared with the header / previous row on every row path and a mismatch throws (2 readers, 2 writers)', floor=4)
    rep.rule('R9.4', 'separator validated before reader/writer construction in the 4 root-scope constructors; allowed set = documented set', floor=5)

    # ---------------------------------------------------------------- R9.1
    for cls in ('CCsvStringReader', 'CCsvStreamReader'):
        fs = [f for f in prog.funcs.values() if f.q == NS + cls + '::ReadValue']
        if len(fs) != 2:
            raise AnalysisBroken('anchor: expected 2 overloads of %s::ReadValue, found %d' % (cls, len(fs)))
        for f in sorted(fs, key=lambda x: x.id):
            rep.touch(f)
            keyed = len(f.params) == 2
            n_sites = 0
            # the cell views may live in small helpers of the class (ExtractValue(meta), ...): sites of the closure over member callees
            scope = [f]
            for g0 in list(scope):
                for x in g0.walk():
                    if x['k'] == 'CXXMemberCallExpr':
                        c = g0.callee(x) or {}
                        h = prog.funcs.get(c.get('id'))
                        if h is not None and c.get('cls') == NS + cls and c.get('n') != 'UnescapeValue' and h not in scope and len(scope) < 6:
                            scope.append(h)
            f_entry = f
            for f, n in [(g0, x) for g0 in scope for x in g0.walk()]:
                begin = length = end = None
                what = None
                if n['k'] in ('CXXConstructExpr', 'CXXTemporaryObjectExpr') and 'basic_string_view' in f.type(n) and len(n.get('c', ())) == 2:
                    begin, length = lin_of(f, n['c'][0]), lin_of(f, n['c'][1])
                    what = 'string_view(ptr, len)'
                elif n['k'] == 'CXXMemberCallExpr' and (f.callee(n) or {}).get('n') == 'UnescapeValue' and len(n['c']) == 3:
                    begin, end = lin_of(f, n['c'][1]), lin_of(f, n['c'][2])
                    what = 'UnescapeValue(begin, end)'
                else:
                    continue
                if begin is None:
                    continue
                n_sites += 1
                site = '%s::ReadValue(%s)|%s@%d' % (cls, 'key' if keyed else 'next', what, n_sites)
                want_begin = Lin.sym('D') + Lin.sym('Offset')
                ok = begin.key() == want_begin.key()
                if length is not None:
                    ok = ok and length.key() == Lin.sym('Size').key()
                    got = 'ptr = %r, len = %r' % (begin, length)
                else:
                    ok = ok and end is not None and (end - begin).key() == Lin.sym('Size').key()
                    got = 'begin = %r, end = %r' % (begin, end)
                if ok:
                    rep.ok('R9.1', site, sample={'reader': cls, 'overload': 'keyed' if keyed else 'positional', 'site': what, 'value': got})
                else:
                    rep.finding('R9.1', '%s::ReadValue(%s)|%s' % (cls, 'key' if keyed else 'next', what), f.loc(n),
                                '%s::ReadValue (%s): %s is built with %s but the cell is [D+Offset, D+Offset+Size): a quoted value in any column '
                                'but the first is cut at the wrong end' % (cls, 'by key' if keyed else 'positional', what, got), func=f.id)
            f = f_entry
            if n_sites < 1:
                raise AnalysisBroken('R9.1: no cell view recognised in %s or the class helpers it calls' % f.id)

    # ---------------------------------------------------------------- R9.2
    wf = [f for f in prog.funcs.values() if f.name == 'WriteEscapedValue' and 'csv_writers' in f.file]
    if len(wf) != 1:
        raise AnalysisBroken('anchor vanished: WriteEscapedValue in csv_writers.cpp')
    f = wf[0]
    rep.touch(f)
    for sep in sorted(DOCUMENTED_SEPARATORS):
        must = {'"', sep, '\r', '\n'}
        missing = []
        for ch in sorted(must):
            quoted, doubled = quoting_outcome(prog, f, ord(ch), ord(sep))
            if not quoted:
                missing.append(ch)
            if ch == '"' and quoted and not doubled:
                missing.append('(inner quote not doubled)')
        # ordinary characters need no quotes but quoting them is allowed (RFC 4180: fields MAY be enclosed)
        site = 'WriteEscapedValue|sep=%r' % sep
        if not missing:
            rep.ok('R9.2', site, sample={'separator': sep, 'quoted_when_field_contains': sorted(repr(c) for c in must)})
        else:
            for ch in missing:
                rep.finding('R9.2', 'WriteEscapedValue|%r not quoted' % ch, f.loc(),
                            'a field containing %r is written without enclosing quotes (separator %r): RFC 4180 TEXTDATA excludes it, an '
                            'independent parser splits or alters the field' % (ch, sep), func=f.id)

    check_unescape(prog, rep)
    rep.rule('R9.7', 'field scanner of both readers (ParseNextLine), one generic iteration per abstract state (character class x quotes seen x last CR '
                     'x end of stream): quotes are counted, separator / LF end the field only outside quotes, only a CR directly before the LF is dropped '
                     'with it, the emitted cell is (field start, end - start) - RFC 4180 section 2', floor=2)
    from rules import csvscan
    csvscan.check(prog, rep, 'R9.7')
    check_lookahead_fresh(prog, rep)
    check_scanner_reads(prog, rep, 'R9.9')
    check_writer_separators(prog, rep, 'R9.11')
    from rules import csv_header
    csv_header.check(prog, rep, 'R9.12')

    # ---------------------------------------------------------------- R9.3
    for cls in ('CCsvStringReader', 'CCsvStreamReader'):
        check_reader_width(prog, rep, cls)
    for cls in ('CCsvStringWriter', 'CCsvStreamWriter'):
        check_writer_width(prog, rep, cls)

    # ---------------------------------------------------------------- R9.4
    ctors = [g for g in prog.funcs.values() if g.sym['kind'] == 'ctor' and g.cls in (NS + 'CsvWriteRootScope', NS + 'CsvReadRootScope')]
    if len(ctors) != 4:
        raise AnalysisBroken('anchor: expected 4 CSV root-scope constructors, found %d' % len(ctors))
    # a validating function: a repo function of the CSV sources whose call closure mentions the table of allowed separators and throws
    def is_validator(h, depth=0, seen=None):
        seen = seen if seen is not None else set()
        if h is None or h.body is None or h.id in seen or depth > 2:
            return (False, False)
        seen.add(h.id)
        tbl = any(x['k'] in ('DeclRefExpr', 'MemberExpr') and 'allowed_separators' in (x.get('q') or x.get('n') or x.get('m') or '') for x in h.walk())
        thr = any(x['k'] == 'CXXThrowExpr' for x in h.walk())
        for x in h.walk():
            if x['k'] == 'CallExpr':
                c = h.callee(x) or {}
                if c.get('repo') and c.get('id') in prog.funcs and prog.funcs[c['id']].relfile.startswith('src/csv/'):
                    t2, r2 = is_validator(prog.funcs[c['id']], depth + 1, seen)
                    tbl, thr = tbl or t2, thr or r2
        return (tbl, thr)
    for g in sorted(ctors, key=lambda x: x.id):
        rep.touch(g)
        order = []
        for n in g.walk():
            if n['k'] == 'CallExpr' and (g.callee(n) or {}).get('repo') and all(is_validator(prog.funcs.get((g.callee(n) or {}).get('id')))):
                order.append('validate')
            if n['k'] == 'CallExpr' and (g.callee(n) or {}).get('n') == 'make_unique':
                order.append('construct')
            if n['k'] == 'CXXNewExpr':
                order.append('construct')
        site = g.cls.rsplit('::', 1)[-1] + '|' + g.tu['types'][g.params[0]['t']][:30]
        if order and order[0] == 'validate' and 'construct' in order:
            rep.ok('R9.4', site, sample={'constructor': site, 'order': order})
        else:
            rep.finding('R9.4', site, g.loc(), '%s constructs the reader/writer without validating the separator first (order: %s)' % (site, order), func=g.id)
    allowed = None
    for key, gl in prog.globals.items():
        gq = gl[0]
        if gq['q'].endswith('CsvArchiveTraits::allowed_separators'):
            allowed = gq.get('val')
    if allowed is None:
        raise AnalysisBroken('anchor vanished: CsvArchiveTraits::allowed_separators (constant)')
    got = set(chr(c & 0xff) for c in allowed if isinstance(c, int))
    if got == DOCUMENTED_SEPARATORS:
        rep.ok('R9.4', 'allowed_separators', sample={'allowed': sorted(got)})
    else:
        rep.finding('R9.4', 'allowed_separators', 'include/bitserializer/csv_archive.h',
                    'allowed separators %s differ from the documented set %s' % (sorted(got), sorted(DOCUMENTED_SEPARATORS)))


class CsvWriteModel(U.UtfModel):
    def __init__(self, prog, ch, sep):
        U.UtfModel.__init__(self, prog, [Iv(ch, ch)])
        self.sep = sep

    def primitive(self, it, fr, n, callee, depth):
        q = strip_targs(callee['q'])
        name = callee['n']
        obj, args = it.call_args(fr, n)
        if q.startswith('std::basic_string_view'):
            if name == 'data':
                return Pos(0)
            if name in ('size', 'length'):
                return Sym('LEN')
            return TOP
        if q.startswith('std::basic_string'):
            vals = [it.ev(fr, a, depth) for a in args]
            if name == 'push_back':
                it.act('PUT', vals[0] if isinstance(vals[0], int) else (vals[0].lo if isinstance(vals[0], Iv) and vals[0].const() else 'T'))
                return TOP
            if name == 'append':
                it.act('APPEND', len(vals))
                return TOP
            return TOP
        return U.UtfModel.primitive(self, it, fr, n, callee, depth)

    def arith(self, it, fr, n, op, a, b):
        if isinstance(a, Pos) and isinstance(b, Sym) and b.tag == 'LEN' and op == '+':
            return Sym('END')
        return U.UtfModel.arith(self, it, fr, n, op, a, b)


def quoting_outcome(prog, f, ch, sep):
    """(quoted?, inner quote doubled?) for a field whose first character is ch"""
    model = CsvWriteModel(prog, ch, sep)
    it = U.UtfInterp(prog, model, max_depth=3, max_paths=200)

    def init(it_, fr):
        for p in f.params:
            t = f.tu['types'][p['t']] if 't' in p else ''
            if 'basic_string_view' in t:
                fr.env[p['d']] = Sym('VALUE')
            elif 'basic_string<' in t:
                fr.env[p['d']] = Sym('OUT')
            elif t.replace('const ', '').strip() == 'char':
                fr.env[p['d']] = sep
            else:
                fr.env[p['d']] = TOP
    paths = it.run(f, init)
    quoted_all = True
    doubled = True
    seen = False
    for p in paths:
        if not all(d for l, d in p.guards if l == 'AVAIL@0'):
            continue
        seen = True
        puts = [a[1] for a in p.actions if a[0] == 'PUT']
        first_out = [a for a in p.actions if a[0] in ('PUT', 'APPEND')][:1]
        # quoted: the first thing written to the output is the opening double quote
        if not (first_out and first_out[0][0] == 'PUT' and first_out[0][1] == 0x22):
            quoted_all = False
        if ch == 0x22:
            # after the opening quote the field's own quote must be written twice: PUT '"' (opening), PUT '"' (escape), PUT '"' (the character)
            if puts[:3] != [0x22, 0x22, 0x22]:
                doubled = False
    return (seen and quoted_all), doubled


# ---------------------------------------------------------------------------------------- R9.5 UnescapeValue acceptance table
from bsv.dtab import Interp, Model
from bsv.linear import entails, eq, le, lt, unsat
from bsv.linear import Lin as _Lin


class UnescapeModel(Model):
    """quoted cell of symbolic length L starting at B: first/last characters are opaque symbols, lengths are linear"""

    def __init__(self, facts):
        self.base_facts = facts

    def cons(self, it):
        out = list(self.base_facts) + list(getattr(it, 'extra_facts', ()))
        neq = []
        for lab, d in it.path.guards:
            if isinstance(lab, tuple) and lab[0] == 'LIN':
                op, a, b = lab[1], lab[2], lab[3]
                if not d:
                    op = {'<': '>=', '<=': '>', '>': '<=', '>=': '<', '==': '!=', '!=': '=='}[op]
                if op == '!=':
                    neq.append((a, b))
                    continue
                r = {'<': lambda: [lt(a, b)], '<=': lambda: [le(a, b)], '>': lambda: [lt(b, a)], '>=': lambda: [le(b, a)], '==': lambda: eq(a, b)}[op]()
                if r:
                    out.extend(r)
        # a != b together with a known order is a strict order
        for a, b in neq:
            if entails(out, [le(a, b)]):
                out.append(lt(a, b))
            elif entails(out, [le(b, a)]):
                out.append(lt(b, a))
        return out

    def char_at(self, it, p):
        c = self.cons(it)
        B, L = _Lin.sym('B'), _Lin.sym('L')
        if entails(c, eq(p, B)):
            return Sym('FIRST')
        if entails(c, eq(p, B + L - 1)):
            return Sym('LAST')
        return TOP

    def need(self, it, fr, n, what, cons_list):
        """memory-safety obligation (used by C02 R2.7): the constraint must follow from the guards passed so far"""
        c = self.cons(it)
        ok = all(entails(c, [x]) for x in cons_list)
        it.act('NEED', what, fr.f.loc(n), ok)

    def in_cell(self, it, fr, n, p, what):
        B, L = _Lin.sym('B'), _Lin.sym('L')
        self.need(it, fr, n, what, [le(B, p), le(p, B + L - 1)])

    def deref(self, it, fr, n, v):
        p = _Lin.of(v)
        if p is None:
            return TOP
        self.in_cell(it, fr, n, p, 'dereferenced pointer lies inside the cell')
        return self.char_at(it, p)

    def compare(self, it, fr, n, op, a, b):
        for x, y in ((a, b), (b, a)):
            if isinstance(x, Sym) and x.tag in ('FIRST', 'LAST') and y == 0x22 and op in ('==', '!='):
                lab = x.tag + 'Q'
                prev = [d for l, d in it.path.guards if l == lab]
                d = prev[0] if prev else it.choose(lab)
                return (1 if d else 0) if op == '==' else (0 if d else 1)
        la, lb = _Lin.of(a), _Lin.of(b)
        if la is None or lb is None:
            return Sym(('GUARD', 'OPAQUE@%s' % fr.f.loc(n)))
        c = self.cons(it)
        t = {'<': lambda: [lt(la, lb)], '<=': lambda: [le(la, lb)], '>': lambda: [lt(lb, la)], '>=': lambda: [le(lb, la)], '==': lambda: eq(la, lb), '!=': lambda: None}[op]()
        f = {'<': lambda: [le(lb, la)], '<=': lambda: [lt(lb, la)], '>': lambda: [le(la, lb)], '>=': lambda: [lt(la, lb)], '==': lambda: None, '!=': lambda: eq(la, lb)}[op]()
        if op == '!=' and 'char *' in fr.f.type(strip(n['c'][0])) and not entails(c, f):
            # pointer loop "p != end; ++p": terminates inside the cell only when it starts at or before its end
            self.need(it, fr, n, 'pointer loop with != termination starts at or before its end', [le(la, lb)])
        if t is not None and entails(c, t):
            return 1
        if f is not None and entails(c, f):
            return 0
        if t is None and unsat(c + f):
            return 1
        if f is None and unsat(c + t):
            return 0
        return Sym(('GUARD', ('LIN', op, la, lb)))

    def arith(self, it, fr, n, op, a, b):
        la, lb = _Lin.of(a), _Lin.of(b)
        if la is None or lb is None:
            return TOP
        if op == '+':
            return la + lb
        if op == '-':
            if 'unsigned' in fr.f.type(n):
                self.need(it, fr, n, 'unsigned subtraction does not wrap', [le(lb, la)])
            return la - lb
        return TOP

    def construct(self, it, fr, n, depth):
        vals = [it.ev(fr, a, depth) for a in n.get('c', ())]
        if 'basic_string_view' in fr.f.type(n):
            return Sym('VIEW')
        return vals[0] if len(vals) == 1 else TOP

    def primitive(self, it, fr, n, callee, depth):
        q = strip_targs(callee['q'])
        name = callee['n']
        obj, args = it.call_args(fr, n)
        if q.startswith('std::basic_string_view'):
            ov = it.ev(fr, obj, depth) if obj is not None else TOP
            if isinstance(ov, Sym) and ov.tag == 'VALUE':
                if name in ('size', 'length'):
                    return _Lin.sym('L')
                if name == 'empty':
                    return self.compare(it, fr, n, '==', _Lin.sym('L'), 0)
                if name in ('front', 'back'):
                    self.need(it, fr, n, '%s() of a non-empty view' % name, [le(1, _Lin.sym('L'))])
                    return Sym('FIRST' if name == 'front' else 'LAST')
                if name == 'operator[]':
                    i = _Lin.of(it.ev(fr, args[0], depth))
                    if i is None:
                        return TOP
                    self.in_cell(it, fr, n, _Lin.sym('B') + i, 'index lies inside the cell')
                    return self.char_at(it, _Lin.sym('B') + i)
                if name == 'data':
                    return _Lin.sym('B')
            return TOP
        if not callee.get('repo') or name in ('ToString',) or 'Convert' in q:
            for a in args:
                it.ev(fr, a, depth)
            return TOP
        return NotImplemented


class UnescapeInterp(Interp):
    """E3 + linear facts. Loops: the first iteration is interpreted from the entry state (base class); every later iteration is covered by
    an inductive argument - see loop_induction()."""
    loops = None            # [(loop node, env at entry, facts at entry)] recorded by the main run
    generic = None          # (loop node, candidates) while a generic iteration is interpreted

    def cast_other(self, v, t):
        return v

    def coerce(self, v, t):
        if isinstance(v, _Lin):
            return v
        return Interp.coerce(self, v, t)

    def exec_loop(self, fr, n, depth):
        if self.generic is not None or self.loops is None or n['k'] not in ('ForStmt', 'WhileStmt') or depth > 0:
            return Interp.exec_loop(self, fr, n, depth)
        if n['k'] == 'ForStmt':
            self.exec(fr, child(n, 'init'), depth)
        self.loops.append((n, dict(fr.env), list(self.model.cons(self))))
        n2 = dict(n)
        if n.get('r') and 'init' in n['r']:
            keep = [i for i, r in enumerate(n['r']) if r != 'init']
            n2['r'] = [n['r'][i] for i in keep]
            n2['c'] = [n['c'][i] for i in keep]
        return Interp.exec_loop(self, fr, n2, depth)

    def exec(self, fr, n, depth):
        if n is not None and n['k'] == 'GENERIC_ITERATION':
            return self.generic_iteration(fr, n['loop'], depth)
        return Interp.exec(self, fr, n, depth)

    def generic_iteration(self, fr, loop, depth):
        from bsv.dtab import _LoopExit
        cond = child(loop, 'cond')
        if cond is not None and not self.truth(fr, cond, depth):
            self.act('GENERIC', 'not entered')
            return
        try:
            Interp.exec(self, fr, child(loop, 'body'), depth)
        except _LoopExit as e:
            if e.kind == 'BreakStmt':
                self.act('GENERIC', 'break')
                return
        inc = child(loop, 'inc') if loop['k'] == 'ForStmt' else None
        if inc is not None:
            self.ev(fr, inc, depth)
        # which candidates hold again after the iteration?
        c = self.model.cons(self)
        for name, mk in self.generic[1]:
            cs = mk(fr.env)
            if cs is None or not all(entails(c, [x]) for x in cs):
                self.broken.add(name)
        self.act('GENERIC', 'iterated')


def loop_assigned(f, loop):
    out = set()
    for x in f.walk(loop):
        t = None
        if x['k'] in ('BinaryOperator', 'CompoundAssignOperator') and x.get('op', '').endswith('=') and x.get('op') not in ('==', '!=', '<=', '>='):
            t = strip(x['c'][0])
        elif x['k'] == 'UnaryOperator' and x.get('op') in ('++', '--'):
            t = strip(x['c'][0])
        if t is not None and t['k'] == 'DeclRefExpr':
            out.add(t['d'])
    body = child(loop, 'body')
    for x in f.walk(body):
        for dcl in x.get('decls', []) or []:
            out.discard(dcl['d'])
    return out


def loop_induction(prog, f, model_facts, it_main, needs):
    """Houdini over difference templates for every top-level loop the main run recorded: candidate facts (v >= entry(v), v <= bound of the
    loop condition, v - w = / <= / >= entry difference) are assumed for a generic iteration with fresh symbols for the loop-assigned
    variables; candidates that do not hold again at the end of the iteration (on some path) are dropped until the rest is inductive.
    The memory-safety obligations of the body are then decided under the inductive facts and appended to needs."""
    seen = set()
    for loop, env0, facts0 in it_main.loops:
        if id(loop) in seen:
            continue
        seen.add(id(loop))
        assigned = [d for d in sorted(loop_assigned(f, loop)) if isinstance(env0.get(d), (_Lin, int))]
        if not assigned:
            continue
        entry = dict((d, _Lin.of(env0[d])) for d in assigned)
        sym = dict((d, _Lin.sym('V%d' % i)) for i, d in enumerate(assigned))
        cands = []

        def add(name, mk):
            cands.append((name, mk))
        for d in assigned:
            add('lo:%s' % d, (lambda d: lambda env: None if _Lin.of(env.get(d)) is None else [le(entry[d], _Lin.of(env[d]))])(d))
            add('hi:%s' % d, (lambda d: lambda env: None if _Lin.of(env.get(d)) is None else [le(_Lin.of(env[d]), entry[d])])(d))
        cond = strip(child(loop, 'cond')) if child(loop, 'cond') is not None else None
        if cond is not None and cond['k'] == 'BinaryOperator' and cond.get('op') in ('!=', '<', '<='):
            l, r = strip(cond['c'][0]), strip(cond['c'][1])
            if l is not None and l['k'] == 'DeclRefExpr' and l.get('d') in assigned and r is not None and r['k'] == 'DeclRefExpr' and r.get('d') not in assigned:
                bound = _Lin.of(env0.get(r['d']))
                if bound is not None:
                    add('bound:%s' % l['d'], (lambda d, b: lambda env: None if _Lin.of(env.get(d)) is None else [le(_Lin.of(env[d]), b)])(l['d'], bound))
        for a in assigned:
            for b in assigned:
                if a < b:
                    diff = entry[a] - entry[b]
                    add('le:%s-%s' % (a, b), (lambda a, b, diff: lambda env: None if _Lin.of(env.get(a)) is None or _Lin.of(env.get(b)) is None
                                              else [le(_Lin.of(env[a]) - _Lin.of(env[b]), diff)])(a, b, diff))
                    add('ge:%s-%s' % (a, b), (lambda a, b, diff: lambda env: None if _Lin.of(env.get(a)) is None or _Lin.of(env.get(b)) is None
                                              else [le(diff, _Lin.of(env[a]) - _Lin.of(env[b]))])(a, b, diff))
        # candidates must hold on entry
        env_entry = dict(env0)
        cands = [(nm, mk) for nm, mk in cands if mk(env_entry) is not None and all(entails(facts0, [x]) for x in mk(env_entry))]
        gen_env = dict(env0)
        for d in assigned:
            gen_env[d] = sym[d]
        node = {'k': 'GENERIC_ITERATION', 'loop': loop, 'i': -1}

        def run_generic(active, collect):
            model = UnescapeModel(model_facts)
            it = UnescapeInterp(prog, model, max_depth=2, max_paths=300)
            it.generic = (loop, active)
            it.broken = set()
            assumed = []
            for nm, mk in active:
                assumed.extend(mk(gen_env))

            def init(it_, fr):
                fr.env.update(gen_env)
                it_.extra_facts = list(facts0) + assumed
            paths = it.run(f, init, body=node)
            if collect is not None:
                for p in paths:
                    collect.extend(a for a in p.actions if a[0] == 'NEED')
            return it.broken
        active = list(cands)
        for _ in range(len(cands) + 1):
            broken = run_generic(active, None)
            if not broken:
                break
            active = [(nm, mk) for nm, mk in active if nm not in broken]
        run_generic(active, needs)


def unescape_outcomes(prog, f, facts, needs=None):
    model = UnescapeModel(facts)
    it = UnescapeInterp(prog, model, max_depth=2, max_paths=300)
    if needs is not None:
        it.loops = []

    def init(it_, fr):
        ptrs = [p for p in f.params if 't' in p and f.type(p).rstrip().endswith('*')]
        for p in f.params:
            t = f.type(p) if 't' in p else ''
            if len(ptrs) == 2 and p is ptrs[0]:
                fr.env[p['d']] = _Lin.sym('B')                      # (begin, end) pointer pair, in this order
            elif len(ptrs) == 2 and p is ptrs[1]:
                fr.env[p['d']] = _Lin.sym('B') + _Lin.sym('L')
            elif 'basic_string_view' in t:
                fr.env[p['d']] = Sym('VALUE')
            else:
                fr.env[p['d']] = TOP
    res = {}
    for p in it.run(f, init):
        if needs is not None:
            needs.extend(a for a in p.actions if a[0] == 'NEED')
        g = dict((l, d) for l, d in p.guards if l in ('FIRSTQ', 'LASTQ'))
        key = (g.get('FIRSTQ'), g.get('LASTQ'))
        res.setdefault(key, set()).add('throw' if p.outcome[0] == 'THROW' else 'accept')
    if needs is not None and it.loops:
        loop_induction(prog, f, facts, it, needs)
    return res


def check_unescape(prog, rep):
    rep.rule('R9.5', 'UnescapeValue (both readers): a cell is accepted iff it has at least 2 characters and starts and ends with a double quote '
                     '(symbolic length cells 0, 1, 2, >=3 x first/last character is a quote or not)', floor=8)
    L = _Lin.sym('L')
    cells = [('L=0', eq(L, 0)), ('L=1', eq(L, 1)), ('L=2', eq(L, 2)), ('L>=3', [le(3, L)])]
    for cls in ('CCsvStringReader', 'CCsvStreamReader'):
        fs = [g for g in prog.funcs.values() if g.q == NS + cls + '::UnescapeValue']
        if len(fs) != 1:
            raise AnalysisBroken('anchor vanished: %s::UnescapeValue' % cls)
        f = fs[0]
        rep.touch(f)
        for nm, facts in cells:
            res = unescape_outcomes(prog, f, facts + [le(0, L)])
            problems = []
            long_enough = nm in ('L=2', 'L>=3')
            for (fq, lq), outs in res.items():
                if fq is False or lq is False:
                    if outs != {'throw'}:
                        problems.append('a cell without %s quote is accepted' % ('opening' if fq is False else 'closing'))
                elif long_enough:
                    if 'throw' in outs:
                        problems.append('a properly quoted cell of length %s is rejected' % nm[2:])
                elif not long_enough:
                    if 'accept' in outs:
                        problems.append('a cell shorter than 2 characters is accepted as quoted')
            site = '%s::UnescapeValue|%s' % (cls, nm)
            if problems:
                for pr in sorted(set(problems)):
                    rep.finding('R9.5', '%s::UnescapeValue|%s' % (cls, pr), f.loc(), '%s::UnescapeValue, cell length %s: %s (RFC 4180: "" is a valid, empty, quoted field)'
                                % (cls, nm[2:], pr), func=f.id)
            else:
                rep.ok('R9.5', site, sample={'reader': cls, 'cell_length': nm, 'outcomes': {str(k): sorted(v) for k, v in res.items()}})



def stream_reader_roles(prog, rule):
    """(cursor member, buffer member) of CCsvStreamReader, read off IsEnd(): whatever its spelling, it compares a data member (the parse
    cursor) with <buffer member>.size()"""
    ie = [g for g in prog.funcs.values() if g.q == NS + 'CCsvStreamReader::IsEnd' and g.body is not None]
    if ie:
        f = ie[0]
        for x in f.walk():
            if x['k'] == 'BinaryOperator' and x.get('op') in ('>=', '==', '<', '>', '<=', '!='):
                for a, b in ((x['c'][0], x['c'][1]), (x['c'][1], x['c'][0])):
                    sa = strip(a)
                    if sa is None or sa['k'] != 'MemberExpr' or sa.get('dk') != 'Field':
                        continue
                    for y in f.walk(b):
                        if y['k'] == 'CXXMemberCallExpr' and (f.callee(y) or {}).get('n') in ('size', 'length'):
                            me = strip(y['c'][0], casts=False)
                            o = strip(me['c'][0]) if me.get('c') else None
                            if o is not None and o['k'] == 'MemberExpr' and o.get('dk') == 'Field':
                                return sa['m'], o['m']
    raise AnalysisBroken(rule + ': CCsvStreamReader::IsEnd() no longer compares the parse cursor with the size of the decoded buffer')

# ---------------------------------------------------------------------------------------- R9.6 end-of-input look-ahead is fresh
def check_lookahead_fresh(prog, rep, rule='R9.6'):
    """CCsvStreamReader::IsEnd() is 'buffer fully parsed && decoder at end'. It is only meaningful when a refill was attempted after the
    buffer ran dry: on every normal return of ParseNextLine the last change of the parse cursor must be followed by the look-ahead test
    'mCurrentPos == mDecodedBuffer.size()' whose true branch calls ReadChunk (forward may-analysis over the CFG: FRESH / STALE)."""
    rep.rule(rule, 'CCsvStreamReader::ParseNextLine: on every normal return the parse cursor has not moved since the last look-ahead test '
                     '(cursor == buffer size -> ReadChunk), so IsEnd() polled between rows reflects the stream', floor=2)
    fs = [g for g in prog.funcs.values() if g.q == NS + 'CCsvStreamReader::ParseNextLine']
    if len(fs) != 1:
        raise AnalysisBroken('anchor vanished: CCsvStreamReader::ParseNextLine')
    f = fs[0]
    rep.touch(f)
    cfg = CFG(f)

    CUR, BUF = stream_reader_roles(prog, rule)

    def mentions(n, member):
        member = {'mCurrentPos': CUR, 'mDecodedBuffer': BUF}.get(member, member)
        return any(x['k'] == 'MemberExpr' and x.get('m') == member for x in f.walk(n))

    checks = set()
    for n in f.walk():
        if n['k'] == 'IfStmt':
            c0 = strip(child(n, 'cond'))
            if c0 is not None and c0['k'] == 'BinaryOperator' and c0.get('op') == '==' and mentions(c0, 'mCurrentPos') and mentions(c0, 'mDecodedBuffer') \
                    and not any(x['k'] == 'BinaryOperator' and x.get('op') == '+' for x in f.walk(c0)):
                then = child(n, 'then')
                if any(x['k'] == 'CXXMemberCallExpr' and (f.callee(x) or {}).get('n') == 'ReadChunk' for x in f.walk(then)):
                    checks.add(c0['i'])
    if not checks:
        rep.finding(rule, 'ParseNextLine|no look-ahead', f.loc(), 'CCsvStreamReader::ParseNextLine has no look-ahead test (cursor == buffer size -> ReadChunk)', func=f.id, count=2)
        return

    def is_adv(n):
        if n['k'] == 'UnaryOperator' and n.get('op') in ('++', '--') and mentions(n['c'][0], 'mCurrentPos'):
            return True
        if n['k'] in ('BinaryOperator', 'CompoundAssignOperator') and n.get('op') in ('=', '+=', '-='):
            # any assignment whose target chain contains mCurrentPos (including a = mCurrentPos = b)
            lhs = n['c'][0]
            if mentions(lhs, 'mCurrentPos') and strip(lhs)['k'] == 'MemberExpr':
                return True
        if n['k'] == 'CXXMemberCallExpr' and (f.callee(n) or {}).get('n') in ('erase', 'clear', 'resize', 'assign') and mentions(n['c'][0], 'mDecodedBuffer'):
            return True
        return False

    FRESH, STALE = 0, 1

    def transfer(b, st):
        for n in b.nodes:
            if n.get('i') in checks:
                st = FRESH
            elif is_adv(n):
                st = STALE
        return st
    state_in = cfg.forward(FRESH, transfer, max)
    n_ret = 0
    bad = []
    for bid, b in cfg.blocks.items():
        if bid not in state_in:
            continue
        rets = [n for n in b.nodes if n['k'] == 'ReturnStmt']
        if not rets:
            continue
        st = state_in[bid]
        for n in b.nodes:
            if n.get('i') in checks:
                st = FRESH
            elif is_adv(n):
                st = STALE
            if n['k'] == 'ReturnStmt':
                n_ret += 1
                if st == STALE:
                    bad.append(f.loc(n))
                else:
                    rep.ok(rule, 'return at %s' % f.loc(n), sample={'return': f.loc(n), 'look_ahead_tests': len(checks)})
    for loc in sorted(set(bad)):
        rep.finding(rule, 'ParseNextLine|stale look-ahead', loc, 'CCsvStreamReader::ParseNextLine can return at %s after moving the parse cursor without a later '
                    'look-ahead test: when the stream ended exactly at a chunk boundary IsEnd() stays false and the array loader reads one more (empty) row' % loc,
                    func=f.id)
    if not n_ret:
        raise AnalysisBroken(rule + ': no return statement reached in ParseNextLine')


# ---------------------------------------------------------------------------------------------------------------- R9.3 row width
INTEGRAL = ('unsigned long', 'unsigned int', 'unsigned long long', 'int', 'long', 'size_t', 'std::size_t')


def _fields(prog, cls):
    r = prog.records.get(NS + cls)
    if r is None:
        raise AnalysisBroken('anchor vanished: class %s' % cls)
    tu = r['_tu']
    return [(fl['n'], tu['types'][fl['t']]) for fl in r['fields']]


def _method(prog, cls, name, many=False):
    fs = [g for g in prog.funcs.values() if g.q == NS + cls + '::' + name]
    if many:
        return fs
    if len(fs) != 1:
        raise AnalysisBroken('anchor vanished: %s::%s' % (cls, name))
    return fs[0]


def _this_field(g, e):
    e = strip(e)
    if e is not None and e['k'] == 'MemberExpr' and e.get('dk') == 'Field' and e.get('c') and strip(e['c'][0])['k'] == 'CXXThisExpr':
        return e['m']
    return None


def _incremented(g):
    out = set()
    for x in g.walk():
        if x['k'] == 'UnaryOperator' and x.get('op') in ('++',):
            m = _this_field(g, x['c'][0])
            if m:
                out.add(m)
        if x['k'] == 'CompoundAssignOperator' and x.get('op') == '+=':
            m = _this_field(g, x['c'][0])
            if m:
                out.add(m)
    return out


def _assigned(g):
    """{field: [rhs, ...]} for plain assignments to members of this"""
    out = {}
    for x in g.walk():
        if x['k'] == 'BinaryOperator' and x.get('op') == '=':
            m = _this_field(g, x['c'][0])
            if m:
                out.setdefault(m, []).append(x['c'][1])
    return out


class RowModel(Model):
    def __init__(self, cls, store, sizes, parser=None, parsed=None, record=False):
        self.record = record
        self.cls = cls
        self.init = store
        self.sizes = sizes
        self.parser = parser
        self.parsed = parsed

    def initial_store(self, it, key):
        if isinstance(key, str) and key.startswith('this.') and key[5:] in self.init:
            return self.init[key[5:]]
        return TOP

    def compare(self, it, fr, n, op, a, b):
        for v in (a, b):
            if isinstance(v, Sym) and v.tag == 'IO_OK':
                return 1 if op == '==' else 0
        return Sym(('GUARD', 'CMP@%s' % fr.f.loc(n)))

    def construct(self, it, fr, n, depth):
        for a in n.get('c', ()):
            it.ev(fr, a, depth)
        return TOP

    def primitive(self, it, fr, n, callee, depth):
        obj, args = it.call_args(fr, n)
        name = callee['n']
        recv = _this_field(fr.f, obj) if obj is not None else None
        if name in ('size', 'length') and recv in self.sizes:
            return self.sizes[recv]
        if name == 'empty' and recv in self.sizes:
            return 1 if self.sizes[recv] == 0 else 0
        if self.parser is not None and callee.get('id') == self.parser:
            return self.parsed
        q = strip_targs(callee['q'])
        if callee.get('repo') and (callee.get('cls') in (None, NS + self.cls)) and not q.startswith('BitSerializer::Convert'):
            g = it.prog.funcs.get(callee['id'])
            loops = g is not None and any(x['k'] in ('ForStmt', 'WhileStmt', 'DoStmt', 'CXXForRangeStmt') for x in g.walk())
            if not (self.record and loops):
                return NotImplemented       # helpers of the class / of the unit are inlined
        for a in args:
            it.ev(fr, a, depth)
        if self.record and (callee.get('repo') or name in ('push_back', 'append', 'Write', 'write', 'put', 'clear')):
            it.act('CALLS', name)
        if callee.get('repo') and name == 'Write':
            return Sym('IO_OK')
        return TOP


def reader_roles(prog, cls):
    g = _method(prog, cls, 'ParseNextRow')
    fields = _fields(prog, cls)
    # roles: the line parser is the member call in ParseNextRow that receives a member by reference; that member is the row
    parser = row = None
    for x in g.walk():
        if x['k'] == 'CXXMemberCallExpr':
            c = g.callee(x) or {}
            if c.get('cls') == NS + cls and len(x['c']) > 1 and _this_field(g, x['c'][1]):
                parser, row = c, _this_field(g, x['c'][1])
                break
    if parser is None or parser['id'] not in prog.funcs:
        raise AnalysisBroken('R9.3: %s::ParseNextRow does not call a line parser of the class with the row buffer' % cls)
    pf = prog.funcs[parser['id']]
    read_here = set(_this_field(g, x) for x in g.walk() if x['k'] == 'MemberExpr')
    line = [m for m in sorted(_incremented(pf)) if dict(fields).get(m, '').replace('const ', '') in INTEGRAL and m in read_here]

    def size_of_param(r):
        r = strip(r)
        if r is None or r['k'] != 'CXXMemberCallExpr' or (pf.callee(r) or {}).get('n') != 'size':
            return False
        me = strip(r['c'][0], casts=False)
        o = strip(me['c'][0]) if me.get('c') else None
        return o is not None and o['k'] == 'DeclRefExpr' and o.get('d') in [p_['d'] for p_ in pf.params]
    prevs = [m for m, rhs in sorted(_assigned(pf).items()) if any(size_of_param(r) for r in rhs)]
    hdrs = [n_ for n_, t in fields if t.startswith('std::vector<std::basic_string<')]
    wh = [n_ for n_, t in fields if t in ('const bool', 'bool')]
    if len(line) != 1 or len(prevs) != 1 or len(hdrs) != 1 or len(wh) != 1:
        raise AnalysisBroken('R9.3: roles of %s not recognised (line counter %s, previous width %s, headers %s, header flag %s)' % (cls, line, prevs, hdrs, wh))
    others = [n_ for n_, t in fields if t in INTEGRAL and n_ not in (line[0], prevs[0])]
    return {'g': g, 'pf': pf, 'parser': parser, 'row': row, 'line': line[0], 'prev': prevs[0], 'hdr': hdrs[0], 'wh': wh[0], 'others': others}


def reader_cells():
    for parsed in (0, 1):
        for withhdr in (0, 1):
            for ln in (1, 2, 3):
                for h in (2, 3):
                    for r in (2, 3):
                        for p in ((0,) if ln == 1 else (2, 3)):
                            if withhdr and ln == 1:
                                continue
                            if not parsed and (h, r, p) != (2, 2, 2 if ln > 1 else 0):
                                continue
                            yield parsed, withhdr, ln, h, r, p


def effects_of(pth, init, names):
    """what a path did to the integral members: {role or 'other#k': '+1' | '=v'} (name independent for the members without a role)"""
    out = []
    k = 0
    for m, v0 in sorted(init.items()):
        v1 = pth.store.get('this.' + m, v0)
        role = names.get(m)
        if role is None:
            role = 'other'
        if v1 == v0:
            continue
        if isinstance(v1, int) and isinstance(v0, int) and v1 == v0 + 1:
            out.append((role, '+1'))
        else:
            out.append((role, '=%s' % (v1 if isinstance(v1, int) else '?')))
    return tuple(sorted(out))


def reader_row_effects(prog, cls):
    """ParseNextRow over the cells of R9.3 with visible effects: {cell: set of (outcome, calls, effects)} - used by the twin rule R10.3"""
    ro = reader_roles(prog, cls)
    res = {}
    for cell in reader_cells():
        parsed, withhdr, ln, h, r, p = cell
        init = {ro['line']: ln, ro['prev']: p, ro['wh']: withhdr}
        for i, m in enumerate(ro['others']):
            init[m] = 40 + 10 * i
        names = {ro['line']: 'line', ro['prev']: 'prev', ro['wh']: 'flag'}
        model = RowModel(cls, init, {ro['hdr']: h, ro['row']: r}, ro['parser']['id'], parsed, record=True)
        it = Interp(prog, model, max_depth=3, max_paths=60)
        sigs = set()
        for pth in it.run(ro['g'], lambda it_, fr: None):
            o = 'throw' if pth.outcome[0] == 'THROW' else 'return %s' % (int(pth.outcome[1]) if isinstance(pth.outcome[1], (int, bool)) else '?')
            calls = tuple(a[1] for a in pth.actions if a[0] == 'CALLS')
            sigs.add((o, calls, effects_of(pth, init, names)))
        res[cell] = sigs
    return res


def writer_roles(prog, cls):
    g = _method(prog, cls, 'NextLine')
    fields = dict(_fields(prog, cls))
    integral = set(n_ for n_, t in fields.items() if t in INTEGRAL)
    vals = set()
    for w in _method(prog, cls, 'WriteValue', many=True):
        vals |= _incremented(w) & integral
    rows = (_incremented(g) & integral) - vals
    if len(vals) != 1 or len(rows) != 1:
        raise AnalysisBroken('R9.3: roles of %s not recognised (value counter %s, row counter %s)' % (cls, sorted(vals), sorted(rows)))
    val, rowi = list(vals)[0], list(rows)[0]
    return {'g': g, 'val': val, 'row': rowi, 'prevs': integral - {val, rowi}, 'wh': [n_ for n_, t in fields.items() if t in ('const bool', 'bool')]}


def writer_value_effects(prog, cls):
    """WriteValue over (row index, values written so far, header flag): {cell: set of (outcome, calls, effects)} - used by R10.3"""
    ro = writer_roles(prog, cls)
    fs = _method(prog, cls, 'WriteValue', many=True)
    if len(fs) != 1:
        raise AnalysisBroken('R10.3: expected one %s::WriteValue, found %d' % (cls, len(fs)))
    res = {}
    for ri in (0, 1):
        for v in (0, 2):
            for withhdr in (0, 1):
                init = {ro['val']: v, ro['row']: ri}
                for m in ro['wh']:
                    init[m] = withhdr
                for i, m in enumerate(sorted(ro['prevs'])):
                    init[m] = 40 + 10 * i
                names = {ro['val']: 'values', ro['row']: 'row'}
                for m in ro['wh']:
                    names[m] = 'flag'
                model = RowModel(cls, init, {}, record=True)
                it = Interp(prog, model, max_depth=3, max_paths=60)
                sigs = set()
                for pth in it.run(fs[0], lambda it_, fr: None):
                    o = 'throw' if pth.outcome[0] == 'THROW' else 'return'
                    calls = tuple(a[1] for a in pth.actions if a[0] == 'CALLS')
                    sigs.add((o, calls, effects_of(pth, init, names)))
                res[(ri, v, withhdr)] = sigs
    return res


def check_writer_separators(prog, rep, rule):
    """RFC 4180 2.4: a line of n fields holds n - 1 separators. WriteValue of both writers over (row index, fields already in the line, header flag):
    on every abstract path one separator is put in front of a field iff the line already holds a field - in the row line and, in the first row with
    a header, in the header line too (an empty name is a field like any other)."""
    rep.rule(rule, 'WriteValue of both CSV writers: over (row index, fields already in the line, header flag) every path puts exactly one separator in '
                   'front of a field iff the line already holds a field, in the header line as in the row line (an empty name or value counts)', floor=16)
    for cls in ('CCsvStringWriter', 'CCsvStreamWriter'):
        eff = writer_value_effects(prog, cls)
        f = _method(prog, cls, 'WriteValue', many=True)[0]
        rep.touch(f)
        for (ri, v, withhdr), sigs in sorted(eff.items()):
            lines = 2 if (ri == 0 and withhdr) else 1
            want_sep, want_val = (lines if v else 0), lines
            site = '%s::WriteValue|row %d, %d field(s) in the line, header %s' % (cls, ri, v, 'on' if withhdr else 'off')
            bad = [sg for sg in sigs if sg[0] == 'return' and (sum(1 for c in sg[1] if c == 'push_back') != want_sep
                                                                 or sum(1 for c in sg[1] if c == 'WriteEscapedValue') != want_val)]
            if not sigs:
                raise AnalysisBroken('%s: no abstract path through %s' % (rule, site))
            if bad:
                rep.finding(rule, site, f.loc(), '%s: a path writes %d separator(s) and %d field(s) (calls %s); %d separator(s) and %d field(s) are required - '
                            'the header / row gets a different number of fields than its siblings' % (site, sum(1 for c in bad[0][1] if c == 'push_back'),
                            sum(1 for c in bad[0][1] if c == 'WriteEscapedValue'), list(bad[0][1]), want_sep, want_val), func=f.id)
            else:
                rep.ok(rule, site, sample={'writer': cls, 'cell': [ri, v, withhdr], 'separators': want_sep, 'fields': want_val, 'paths': len(sigs)})


def check_reader_width(prog, rep, cls):
    ro = reader_roles(prog, cls)
    g, pf, parser, row, line, prev, hdr, wh = ro['g'], ro['pf'], ro['parser'], ro['row'], ro['line'], ro['prev'], ro['hdr'], ro['wh']
    rep.touch(g)
    rep.touch(pf)
    cells = 0
    bad = None
    for parsed in (0, 1):
        for withhdr in (0, 1):
            for ln in (1, 2, 3):
                for h in (2, 3):
                    for r in (2, 3):
                        for p in ((0,) if ln == 1 else (2, 3)):
                            if withhdr and ln == 1:
                                continue
                            if not parsed and (h, r, p) != (2, 2, 2 if ln > 1 else 0):
                                continue
                            model = RowModel(cls, {line: ln, prev: p, wh: withhdr}, {hdr: h, row: r}, parser['id'], parsed)
                            it = Interp(prog, model, max_depth=3, max_paths=60)
                            cells += 1
                            want = bool(parsed) and ((withhdr and h != r) or (not withhdr and ln >= 2 and p != r))
                            for pth in it.run(g, lambda it_, fr: None):
                                threw = pth.outcome[0] == 'THROW'
                                if threw != want and bad is None:
                                    bad = 'line %d, %s, row of %d values, %s: %s, expected %s' % (
                                        ln, 'header of %d names' % h if withhdr else 'no header', r, 'previous row of %d' % p if not withhdr else 'any previous row',
                                        'throws' if threw else 'accepts the row', 'a throw' if want else 'no throw')
                                if not threw and not bad:
                                    v = pth.outcome[1]
                                    if isinstance(v, (int, bool)) and bool(v) != bool(parsed):
                                        bad = 'returns %s although the line parser returned %s' % (bool(v), bool(parsed))
    site = '%s::ParseNextRow' % cls
    if bad is None:
        rep.ok('R9.3', site, sample={'method': site, 'cells': cells, 'roles': {'row': row, 'headers': hdr, 'previous_width': prev, 'line': line, 'header_flag': wh}})
    else:
        rep.finding('R9.3', site, g.loc(), '%s no longer compares the row width with the header / the previous row and throws on a mismatch on every row kind: %s'
                    % (site, bad), func=g.id)


def check_writer_width(prog, rep, cls):
    g = _method(prog, cls, 'NextLine')
    rep.touch(g)
    fields = dict(_fields(prog, cls))
    integral = set(n_ for n_, t in fields.items() if t in INTEGRAL)
    vals = set()
    for w in _method(prog, cls, 'WriteValue', many=True):
        vals |= _incremented(w) & integral
    rows = (_incremented(g) & integral) - vals
    if len(vals) != 1 or len(rows) != 1:
        raise AnalysisBroken('R9.3: roles of %s not recognised (value counter %s, row counter %s)' % (cls, sorted(vals), sorted(rows)))
    val, rowi = list(vals)[0], list(rows)[0]
    prevs = integral - {val, rowi}
    wh = [n_ for n_, t in fields.items() if t in ('const bool', 'bool')]
    cells = 0
    bad = None
    for ri in (0, 1, 2):
        for v in (2, 3):
            for withhdr in (0, 1):
                for est in (0, 7):
                    # every other integral member is given the previous width in turn: the one that the code compares decides
                    for p in (2, 3):
                        init = {val: v, rowi: ri}
                        for m in prevs:
                            init[m] = p
                        for m in wh:
                            init[m] = withhdr
                        for m in prevs:
                            if 'stimat' in m:
                                init[m] = est
                        model = RowModel(cls, init, {})
                        it = Interp(prog, model, max_depth=3, max_paths=60)
                        cells += 1
                        want = ri > 0 and v != p
                        for pth in it.run(g, lambda it_, fr: None):
                            threw = pth.outcome[0] == 'THROW'
                            if threw != want and bad is None:
                                bad = 'row %d with %d values after rows of %d values: %s, expected %s' % (
                                    ri, v, p, 'throws' if threw else 'writes the row', 'a throw' if want else 'no throw')
                            if not threw and ri == 0 and bad is None:
                                rec = [m for m in prevs if pth.store.get('this.' + m) == v]
                                if v != p and not rec:
                                    bad = 'the first row (%d values) does not record its width for the comparison on the next rows' % v
    site = '%s::NextLine' % cls
    if bad is None:
        rep.ok('R9.3', site, sample={'method': site, 'cells': cells, 'roles': {'values_in_row': val, 'row': rowi, 'candidates_previous_width': sorted(prevs)}})
    else:
        rep.finding('R9.3', site, g.loc(), '%s no longer compares the row width with the previous row and throws on a mismatch on every row: %s'
                    % (site, bad), func=g.id)


# ---------------------------------------------------------------------------------------- R9.9 the stream scanner reads decoded text only
def expr_key(f, e):
    e = strip(e)
    if e is None:
        return '?'
    k = e['k']
    if k == 'MemberExpr':
        return 'm:' + str(e.get('m'))
    if k == 'DeclRefExpr':
        return 'v:' + str(e.get('d'))
    if 'cv' in e and k in ('IntegerLiteral', 'CharacterLiteral'):
        return 'c:%s' % e['cv']
    return k + ':' + str(e.get('op', '')) + '(' + ','.join(expr_key(f, c) for c in e.get('c', [])) + ')'


def check_scanner_reads(prog, rep, rule='R9.9'):
    """The CSV stream reader scans text that arrives chunk by chunk: what lies behind the last decoded character is not known yet (the
    std::string terminator reads as NUL, so an unguarded look-ahead compiles, never faults and answers 'not LF' exactly when a CRLF pair
    straddles two chunks). Every character read from the decoded buffer is therefore the one under the parse cursor - whose validity the
    refill test establishes - or its index is compared with the buffer's size() by a condition that dominates the read."""
    rep.rule(rule, 'CCsvStreamReader scanner: every character read from the decoded buffer is at the parse cursor, or at an index that a '
                   'dominating condition compares with the buffer size (no look-ahead into text that has not been decoded yet)', floor=1)
    n_reads = 0
    for f in sorted(prog.funcs.values(), key=lambda g: g.id):
        if f.body is None or f.cls != NS + 'CCsvStreamReader':
            continue
        CUR, BUF = stream_reader_roles(prog, rule)
        from bsv.expr import resolve
        for n in f.walk():
            if n['k'] not in ('CXXOperatorCallExpr', 'CXXMemberCallExpr'):
                continue
            c = f.callee(n) or {}
            if c.get('n') not in ('operator[]', 'at'):
                continue
            if n['k'] == 'CXXOperatorCallExpr':
                obj, idx = strip(n['c'][1]), n['c'][2] if len(n['c']) > 2 else None
            else:
                me = strip(n['c'][0], casts=False)
                obj, idx = strip(me['c'][0]) if me.get('c') else None, n['c'][1] if len(n['c']) > 1 else None
            if obj is None or obj['k'] != 'MemberExpr' or obj.get('m') != BUF or idx is None:
                continue
            n_reads += 1
            rep.touch(f)
            ri = resolve(f, idx)
            site = '%s|%s' % (f.name, f.loc(n))
            if ri is not None and ri['k'] == 'MemberExpr' and ri.get('m') == CUR:
                rep.ok(rule, site, sample={'read': 'character under the cursor', 'at': f.loc(n)})
                continue
            want = expr_key(f, ri)
            guarded = False
            p, cur = f.parent(n), n
            while p is not None and not guarded:
                conds = []
                if p['k'] == 'IfStmt' and child(p, 'then') is not None and any(y is cur for y in [child(p, 'then')]):
                    conds.append(child(p, 'cond'))
                if p['k'] == 'BinaryOperator' and p.get('op') == '&&' and len(p['c']) == 2 and p['c'][1] is cur:
                    conds.append(p['c'][0])
                if p['k'] == 'ConditionalOperator' and len(p['c']) == 3 and p['c'][1] is cur:
                    conds.append(p['c'][0])
                if p['k'] in ('WhileStmt', 'ForStmt') and child(p, 'body') is cur:
                    conds.append(child(p, 'cond'))
                for c0 in conds:
                    for x in f.walk(c0):
                        if x['k'] == 'BinaryOperator' and x.get('op') in ('<', '>', '!=', '<=', '>='):
                            a, b = x['c'][0], x['c'][1]
                            if x.get('op') in ('>', '>='):
                                a, b = b, a
                            size_side = any(y['k'] == 'CXXMemberCallExpr' and (f.callee(y) or {}).get('n') in ('size', 'length') for y in f.walk(b))
                            if size_side and x.get('op') in ('<', '>') and expr_key(f, resolve(f, a)) == want:
                                guarded = True
                cur, p = p, f.parent(p)
            if guarded:
                rep.ok(rule, site, sample={'read': 'guarded look-ahead', 'at': f.loc(n)})
            else:
                rep.finding(rule, '%s|unguarded read beside the cursor' % f.name, f.loc(n),
                            'CCsvStreamReader::%s reads the decoded buffer at an index other than the parse cursor without comparing it with the '
                            'buffer size: at the end of a decoded chunk it sees the string terminator instead of the next character (a CRLF pair '
                            'split by the chunk boundary is not recognised)' % f.name, func=f.id)
    if n_reads == 0:
        raise AnalysisBroken(rule + ': no character read of the decoded buffer found in CCsvStreamReader')
