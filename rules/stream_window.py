"""E9: buffer-window invariants of CBinaryStreamReader by abstract interpretation over linear constraints.

State: the pointers mBuffer (B), mEndBufferPtr (B+chunk), mStartDataPtr (S), mEndDataPtr (E) and mStreamPos (P) as linear
expressions over entry symbols; path conditions are linear constraints; entailment by Fourier-Motzkin.
Obligations, for every public method and every abstract path from a state satisfying the class invariant B <= S <= E <= B+chunk:
 (A) every dereference *p and every string_view(p, n) over the cache lies inside the window [S, E];
 (B) the invariant holds again at exit;
 (C) logical position accounting: LP = P - (E - S) moves forward exactly by the bytes the method consumed/delivered
     (refill and squeeze never change it; SetPosition(pos) == true sets it to pos) - unread bytes are never dropped or duplicated;
 (D) the stream read stores into the free tail [E, B+chunk) of the buffer only."""
from bsv.dtab import TOP, AnalysisBroken, Interp, Model, Sym, Opt
from bsv.facts import strip, strip_targs
from bsv.linear import Con, Lin, entails, eq, le, lt, negate, unsat

CLS = 'BitSerializer::Detail::CBinaryStreamReader'
FIELDS = {'mStartDataPtr': 'S', 'mEndDataPtr': 'E', 'mStreamPos': 'P'}


class WindowModel(Model):
    def __init__(self, prog, chunk):
        self.prog = prog
        self.chunk = chunk
        self.nfresh = 0

    def fresh(self, it, prefix, facts):
        self.nfresh += 1
        s = Lin.sym('%s%d' % (prefix, self.nfresh))
        it.facts.extend(facts(s))
        return s

    # ------------------------------------------------------------------ state
    def initial_store(self, it, key):
        if key == 'this.mBuffer':
            return Lin.sym('B')
        if key == 'this.mEndBufferPtr':
            return Lin.sym('B') + self.chunk
        if key == 'this.mStream':
            return Sym('STREAM')
        if isinstance(key, str) and key.startswith('this.') and key[5:] in FIELDS:
            return Lin.sym(FIELDS[key[5:]] + '0')
        return TOP

    def constraints(self, it):
        cons = list(it.facts)
        for lab, d in it.path.guards:
            if isinstance(lab, tuple) and lab[0] == 'LINCMP':
                cons.extend(self.decided(cons, lab[1], lab[2], lab[3], d))
        return cons

    @staticmethod
    def rel(op, a, b):
        """constraints for (a op b) being true; None for disequality"""
        if op == '<':
            return [lt(a, b)]
        if op == '<=':
            return [le(a, b)]
        if op == '>':
            return [lt(b, a)]
        if op == '>=':
            return [le(b, a)]
        if op == '==':
            return eq(a, b)
        return None

    def decided(self, cons, op, a, b, d):
        neg = {'<': '>=', '<=': '>', '>': '<=', '>=': '<', '==': '!=', '!=': '=='}
        if not d:
            op = neg[op]
        r = self.rel(op, a, b)
        if r is not None:
            return r
        # disequality: usable when the order of the operands is already known
        if entails(cons, le(a, b)):
            return [lt(a, b)]
        if entails(cons, le(b, a)):
            return [lt(b, a)]
        return []

    def compare(self, it, fr, n, op, a, b):
        la, lb = Lin.of(a), Lin.of(b)
        if la is None or lb is None:
            return Sym(('GUARD', 'OPAQUE@%s' % fr.f.loc(n)))
        cons = self.constraints(it)
        t = self.rel(op, la, lb)
        f = self.rel({'<': '>=', '<=': '>', '>': '<=', '>=': '<', '==': '!=', '!=': '=='}[op], la, lb)
        if t is not None and entails(cons, t):
            return 1
        if f is not None and entails(cons, f):
            return 0
        if t is None and f is not None:
            # a != b: true when a == b is refuted
            if unsat(cons + f):
                return 1
        if f is None and t is not None:
            if unsat(cons + t):
                return 0
        return Sym(('GUARD', ('LINCMP', op, la, lb)))

    def arith(self, it, fr, n, op, a, b):
        la, lb = Lin.of(a), Lin.of(b)
        if la is None or lb is None:
            return TOP
        if op == '+':
            return la + lb
        if op == '-':
            return la - lb
        if op == '*':
            if la.is_const():
                return lb.scale(la.c)
            if lb.is_const():
                return la.scale(lb.c)
        return TOP

    # ------------------------------------------------------------------ obligations
    def cur(self, it, fr, field):
        return Lin.of(it.read_key(fr, 'this.' + field))

    def require(self, it, fr, n, what, goals):
        cons = self.constraints(it)
        if not entails(cons, goals):
            it.act('OBLIGATION', what, fr.f.loc(n) if n is not None else '')

    def deref(self, it, fr, n, v):
        p = Lin.of(v)
        if p is None:
            return TOP
        E = self.cur(it, fr, 'mEndDataPtr')
        S = self.cur(it, fr, 'mStartDataPtr')
        # postfix increment has already advanced S: the dereferenced pointer may be S-1..; it must still be inside [B, E)
        self.require(it, fr, n, 'A: *(%r) must lie in the cached window [mBuffer, mEndDataPtr)' % (p,), [le(Lin.sym('B'), p), lt(p, E)])
        return TOP

    def construct(self, it, fr, n, depth):
        vals = [it.ev(fr, a, depth) for a in n.get('c', ())]
        t = fr.f.type(n)
        if len(vals) == 1 and isinstance(vals[0], Sym) and vals[0].tag in (('NONE',), ('SOME',)):
            return vals[0]
        if 'basic_string_view' in t:
            if len(vals) == 2:
                p, ln = Lin.of(vals[0]), Lin.of(vals[1])
                if p is not None and ln is not None:
                    S = self.cur(it, fr, 'mStartDataPtr')
                    E = self.cur(it, fr, 'mEndDataPtr')
                    self.require(it, fr, n, 'A: string_view(%r, %r) must lie inside the cached window [mStartDataPtr, mEndDataPtr]' % (p, ln),
                                 [le(S, p), le(p + ln, E), le(0, ln)])
                    return Sym(('VIEW', p, ln))
                return Sym(('VIEW', None, None))
            if len(vals) == 0:
                return Sym(('VIEW', None, Lin.of(0)))
            if len(vals) == 1:
                return vals[0]
        if t.startswith('std::optional'):
            if len(vals) == 1:
                if isinstance(vals[0], Sym) and vals[0].tag in (('NONE',), ('SOME',)):
                    return vals[0]
                return Sym(('SOME',))
            return Sym(('NONE',))
        return TOP

    def primitive(self, it, fr, n, callee, depth):
        q = strip_targs(callee['q'])
        name = callee['n']
        obj, args = it.call_args(fr, n)
        if q.startswith('std::basic_istream') or q.startswith('std::basic_ios') or q.startswith('std::ios_base'):
            vals = [it.ev(fr, a, depth) for a in args]
            if obj is not None:
                it.ev(fr, obj, depth)
            if name == 'read':
                p, cnt = Lin.of(vals[0]), Lin.of(vals[1])
                if p is None or cnt is None:
                    it.act('OBLIGATION', 'D: stream read into an untracked destination', fr.f.loc(n))
                else:
                    E = self.cur(it, fr, 'mEndDataPtr')
                    self.require(it, fr, n, 'D: istream::read(%r, %r) must store into the free tail [mEndDataPtr, mBuffer+chunk)' % (p, cnt),
                                 eq(p, E) + [le(p + cnt, Lin.sym('B') + self.chunk), le(0, cnt)])
                    it.lastreq = cnt
                it.act('STREAMREAD')
                return Sym('STREAM')
            if name == 'gcount':
                req = getattr(it, 'lastreq', None)
                return self.fresh(it, 'g', lambda s: [le(0, s)] + ([le(s, req)] if req is not None else []))
            if name in ('eof', 'fail', 'good', 'bad', 'operator bool', 'operator!'):
                return Sym(('GUARD', 'STREAM:%s@%s' % (name, fr.f.loc(n))))
            if name in ('seekg', 'clear', 'peek', 'ignore'):
                it.act('STREAM', name)
                return Sym('STREAM') if name in ('seekg',) else TOP
            return TOP
        if q == 'std::min':
            a, b = Lin.of(it.ev(fr, args[0], depth)), Lin.of(it.ev(fr, args[1], depth))
            if a is None or b is None:
                return TOP
            cons = self.constraints(it)
            nonneg = entails(cons, le(0, a)) and entails(cons, le(0, b))
            return self.fresh(it, 'm', lambda s: [le(s, a), le(s, b)] + ([le(0, s)] if nonneg else []))
        if q in ('std::memcpy', 'memcpy', 'std::memmove', 'memmove'):
            d, s_, ln = [Lin.of(it.ev(fr, a, depth)) for a in args[:3]]
            if d is None or s_ is None or ln is None:
                it.act('OBLIGATION', 'memcpy with untracked operands', fr.f.loc(n))
                return TOP
            E = self.cur(it, fr, 'mEndDataPtr')
            self.require(it, fr, n, 'memcpy(%r, %r, %r) must stay inside the buffer and read cached bytes only' % (d, s_, ln),
                         [le(0, ln), le(Lin.sym('B'), d), le(d + ln, Lin.sym('B') + self.chunk), le(Lin.sym('B'), s_), le(s_ + ln, E)])
            if q in ('std::memcpy', 'memcpy'):
                # memcpy requires disjoint regions (memmove does not): squeezing the unread bytes to the front overlaps whenever more bytes are
                # unread than have been consumed
                self.require(it, fr, n, 'memcpy(%r, %r, %r): source and destination must not overlap (use memmove to squeeze the buffer)' % (d, s_, ln),
                             [le(d + ln, s_)])
            it.act('MEMCPY', d, s_, ln)
            return TOP
        if q.startswith('std::make_optional'):
            for a in args:
                it.ev(fr, a, depth)
            return Sym(('SOME',))
        if not callee.get('repo'):
            for a in args:
                it.ev(fr, a, depth)
            return TOP
        return NotImplemented


class WindowInterp(Interp):
    def cast_other(self, v, t):
        return v

    def coerce(self, v, t):
        if isinstance(v, Lin):
            return v
        return Interp.coerce(self, v, t)

    def ev(self, fr, n, depth):
        k = n['k'] if n is not None else None
        if k == 'DeclRefExpr' and n.get('n') == 'nullopt':
            return Sym(('NONE',))
        if k == 'InitListExpr' and 'basic_string_view' in fr.f.type(n):
            return Sym(('VIEW', None, Lin.of(0)))
        return Interp.ev(self, fr, n, depth)


def chunk_size(prog):
    for key, gl in prog.globals.items():
        g = gl[0]
        if g['q'] == CLS + '::chunk_size' and isinstance(g.get('val'), int):
            return g['val']
    raise AnalysisBroken('anchor vanished: %s::chunk_size (constant)' % CLS)


def run_method(prog, f, chunk):
    model = WindowModel(prog, chunk)
    it = WindowInterp(prog, model, max_depth=4, max_paths=3000)

    def init(it_, fr):
        B = Lin.sym('B')
        S0, E0 = Lin.sym('S0'), Lin.sym('E0')
        it_.facts = [le(B, S0), le(S0, E0), le(E0, B + chunk)]
        it_.lastreq = None
        for p in f.params:
            pt = f.tu['types'][p['t']]
            if 'istream' in pt:
                fr.env[p['d']] = Sym('STREAM')
            else:
                s = Lin.sym('arg_' + (p['n'] or 'x'))
                if 'unsigned' in pt:
                    it_.facts.append(le(0, s))
                fr.env[p['d']] = s
    return it.run(f, init), model


def consumed_spec(f, path):
    """expected change of the logical position LP for this path, as a Lin (or None when unconstrained)"""
    name = f.name
    rv = path.outcome[1] if path.outcome[0] == 'RET' else None
    if name == 'PeekByte':
        return Lin.of(0)
    if name in ('ReadByte',):
        if isinstance(rv, Sym) and rv.tag == ('SOME',):
            return Lin.of(1)
        return Lin.of(0)
    if name in ('ReadSolidBlock', 'ReadByChunks'):
        if isinstance(rv, Sym) and isinstance(rv.tag, tuple) and rv.tag[0] == 'VIEW' and rv.tag[2] is not None:
            return rv.tag[2]
        return None
    if name in ('IsEnd', 'IsFailed', 'GetPosition', 'ReadNextChunk'):
        return Lin.of(0)
    return None


def check(prog, rep, rule, floor=20):
    rep.rule(rule, 'CBinaryStreamReader: on every abstract path of every method (A) reads stay inside the cached window, (B) the window '
                   'invariant B<=S<=E<=B+chunk is re-established, (C) the logical position P-(E-S) advances exactly by the bytes delivered '
                   '(refill/squeeze never drop or duplicate unread bytes; SetPosition(pos)==true lands on pos), (D) the stream is read into the '
                   'free tail only - decided by Fourier-Motzkin entailment over the path constraints', floor=floor)
    chunk = chunk_size(prog)
    methods = [f for f in prog.funcs.values() if f.cls == CLS and f.sym['kind'] in ('method', 'ctor')]
    if len(methods) < 8:
        raise AnalysisBroken('anchor: expected the methods of %s in the analysed program, found %d' % (CLS, len(methods)))
    B = Lin.sym('B')
    # helpers: methods that only other methods of the class call (ReadNextChunk, extracted TakeBlock(size), ...). They may rely on what
    # their callers have established, so they are analysed in the context of those callers (inlined there), not with an arbitrary state.
    ext_called, int_called = set(), set()
    for g in prog.funcs.values():
        for x in g.walk():
            if x['k'] in ('CXXMemberCallExpr', 'CallExpr'):
                c = g.callee(x) or {}
                if c.get('cls') == CLS:
                    (int_called if g.cls == CLS else ext_called).add(c.get('id'))
    for f in sorted(methods, key=lambda x: x.id):
        rep.touch(f)
        if f.id in int_called and f.id not in ext_called and f.params:
            rep.ok(rule, '%s|helper with parameters: analysed inside its callers' % f.name, nontrivial=False)
            continue
        paths, model = run_method(prog, f, chunk)
        problems = {}
        npaths = 0
        for p in paths:
            npaths += 1
            # rebuild the constraint system of this path
            it_facts = getattr(p, 'facts', None)
            cons = list(p.facts) if it_facts is not None else []
            for lab, d in p.guards:
                if isinstance(lab, tuple) and lab[0] == 'LINCMP':
                    cons.extend(model.decided(cons, lab[1], lab[2], lab[3], d))
            for a in p.actions:
                if a[0] == 'OBLIGATION':
                    problems.setdefault(a[1].split(':')[0] + ': ' + a[1].split(':', 1)[-1].strip()[:90], a[2])
            if p.outcome[0] != 'RET':
                continue
            st = p.store or {}
            S = Lin.of(st.get('this.mStartDataPtr', Lin.sym('S0')))
            E = Lin.of(st.get('this.mEndDataPtr', Lin.sym('E0')))
            P = Lin.of(st.get('this.mStreamPos', Lin.sym('P0')))
            if S is None or E is None or P is None:
                problems.setdefault('B: a window pointer is assigned a value the analysis cannot track', f.loc())
                continue
            if f.sym['kind'] == 'ctor':
                continue
            if not entails(cons, [le(B, S), le(S, E), le(E, B + chunk)]):
                problems.setdefault('B: window invariant mBuffer <= mStartDataPtr <= mEndDataPtr <= mBuffer+chunk not re-established at exit '
                                    '(S=%r, E=%r)' % (S, E), f.loc())
            lp0 = Lin.sym('P0') - (Lin.sym('E0') - Lin.sym('S0'))
            lp1 = P - (E - S)
            if f.name == 'SetPosition':
                rv = p.outcome[1]
                if rv == 1 or rv is True:
                    goal = eq(lp1, Lin.sym('arg_pos'))
                    what = 'C: SetPosition(pos) returned true but the logical position is %r, not pos' % (lp1,)
                elif rv == 0 or rv is False:
                    goal = eq(lp1, lp0)
                    what = 'C: SetPosition returned false but moved the logical position'
                else:
                    goal, what = None, None
                if goal is not None and not entails(cons, goal):
                    problems.setdefault(what, f.loc())
                continue
            spec = consumed_spec(f, p)
            if f.name == 'GotoNextByte':
                # advances by one byte iff data was available
                if not (entails(cons, eq(lp1, lp0)) or entails(cons, eq(lp1, lp0 + 1))):
                    problems.setdefault('C: GotoNextByte must advance the logical position by exactly 0 or 1 (got %r)' % (lp1 - lp0,), f.loc())
                continue
            if spec is not None and not entails(cons, eq(lp1, lp0 + spec)):
                problems.setdefault('C: logical position P-(E-S) changes by %r but the method delivers %r byte(s): unread bytes are dropped '
                                    'or duplicated' % (lp1 - lp0, spec), f.loc())
        site = f.pq
        if problems:
            for what, where in sorted(problems.items()):
                rep.finding(rule, '%s|%s' % (site, what.split(':')[0]), where or f.loc(), '%s: %s' % (f.pq.rsplit('::', 1)[-1], what),
                            {'paths_examined': npaths}, func=f.id)
        else:
            rep.ok(rule, site, sample={'method': f.pq, 'abstract_paths': npaths, 'obligations': 'A,B,C,D'})
