"""Arithmetic of the field counter (C06 R6.8).

The MsgPack map header of a class is FieldsCountVisitor::Count(obj); every entry the class then writes must have been counted exactly once.
The visitor's methods are interpreted over linear forms with the counter S0 symbolic:
   operator<<(TValue&&)          counts one entry                      : Size' = S0 + 1
   user Serialize / SerializeObject run on the visitor                 : Size' = Size + K   (K = entries of that class, unknown, >= 0)
   Count(obj)                    adds the entries of obj, returns total : Size' = S0 + K, result = S0 + K
   operator<<(BaseObject<B>&&)   adds the entries of the base          : Size' = S0 + K
A nested Count() on *this is summarised the same way (Size += K', result = new Size); on another visitor object it returns that object's
count. The forms accepted are whatever the interpreter proves equal - `Size += sub.Count(base)` with a fresh visitor is as good as the
shared counter."""
from bsv.dtab import TOP, AnalysisBroken, Interp, Sym
from bsv.facts import strip, strip_targs
from bsv.linear import Lin, entails, eq, le
from bsv.linmodel import LinInterp, LinModel

S0 = Lin.sym('S0')
CLS = 'BitSerializer::FieldsCountVisitor'


class CounterModel(LinModel):
    def __init__(self, field='Size'):
        self.k = []
        self.field = 'this.' + field

    def initial_store(self, it, key):
        if key == self.field:
            return S0
        return TOP

    def construct(self, it, fr, n, depth):
        vals = [it.ev(fr, a, depth) for a in n.get('c', ())]
        t = fr.f.type(n)
        if 'FieldsCountVisitor' in t:
            return Sym('FRESH-VISITOR')
        return vals[0] if len(vals) == 1 else TOP

    def on_this(self, it, fr, obj):
        if obj is None:
            return True
        o = strip(obj)
        while o is not None and o['k'] in ('UnaryOperator', 'ParenExpr', 'ImplicitCastExpr') and o.get('c'):
            o = strip(o['c'][0])
        return o is not None and o['k'] == 'CXXThisExpr'

    def passes_this(self, fr, args):
        for a in args:
            for x in fr.f.walk(a):
                if x['k'] == 'CXXThisExpr':
                    return True
        return False

    def primitive(self, it, fr, n, callee, depth):
        obj, args = it.call_args(fr, n)
        name = callee['n']
        q = callee.get('q', '')
        cls = strip_targs(callee.get('cls') or callee.get('clsq') or '')
        if name == 'Count' and cls == CLS:
            k = self.fresh(it, 'K', 0, None)
            if self.on_this(it, fr, obj):
                cur = Lin.of(it.read_key(fr, self.field))
                new = cur + k if cur is not None else TOP
                it.write_key(fr, self.field, new)
                it.act('COUNTED', 'this')
                return new
            it.act('COUNTED', 'other')
            return k
        if name in ('Serialize', 'SerializeObject') and (self.passes_this(fr, args)):
            # the user's serialization code runs on this visitor: it counts that class' entries
            k = self.fresh(it, 'K', 0, None)
            cur = Lin.of(it.read_key(fr, self.field))
            it.write_key(fr, self.field, cur + k if cur is not None else TOP)
            self.k.append(k)
            it.act('USER', name)
            return TOP
        if cls == CLS and callee['id'] in it.prog.funcs and depth < it.max_depth:
            return NotImplemented       # a private helper of the visitor (VisitFields, Increment(size_t&)): interpreted in place
        for a in args:
            it.ev(fr, a, depth)
        if obj is not None:
            it.ev(fr, obj, depth)
        return TOP


class CounterInterp(LinInterp, Interp):
    pass


def check(prog, rep, rule):
    rep.rule(rule, 'FieldsCountVisitor arithmetic: operator<<(value) adds exactly 1, Count(obj) and operator<<(BaseObject) add exactly the entries '
                   'of that class once (Size\' = Size + K), Count returns the total - the map header equals the number of entries written', floor=3)
    seen = {}
    # the counter: the integral data member of the visitor (its other member is the reference to the archive)
    from bsv.dtab import INT_TYPES, base_type
    counter = None
    for k, rec in prog.records.items():
        if rec.get('q') == CLS:
            ints = [fd['n'] for fd in rec.get('fields', []) if base_type(rec['_tu']['types'][fd['t']] if '_tu' in rec else '') in INT_TYPES] if '_tu' in rec else []
            if not ints:
                tu = next((g.tu for g in prog.funcs.values() if strip_targs(g.cls or '') == CLS), None)
                ints = [fd['n'] for fd in rec.get('fields', []) if tu is not None and base_type(tu['types'][fd['t']]) in INT_TYPES]
            if len(ints) == 1:
                counter = ints[0]
                break
    if counter is None:
        raise AnalysisBroken('%s: the integral counter member of FieldsCountVisitor not identified' % rule)
    for f in sorted(prog.funcs.values(), key=lambda g: g.id):
        if f.body is None or strip_targs(f.cls or '') != CLS:
            continue
        if not (f.name == 'Count' or f.name == 'operator<<'):
            continue
        is_base = f.name == 'operator<<' and f.params and 'BaseObject<' in f.type(f.params[0])
        kind = 'Count' if f.name == 'Count' else ('operator<<(BaseObject)' if is_base else 'operator<<(value)')
        model = CounterModel(counter)
        it = CounterInterp(prog, model, max_depth=3, max_paths=50)

        def init(it_, fr):
            it_.n_fresh = 0
            it_.facts = [le(0, S0)]
            for p in f.params:
                fr.env[p['d']] = TOP
        problems = []
        n_paths = 0
        for p in it.run(f, init):
            if p.outcome[0] != 'RET':
                continue
            n_paths += 1
            cons = list(p.facts or [])
            fin = Lin.of(p.store.get('this.' + counter, S0)) if hasattr(p, 'store') else None
            if fin is None:
                problems.append('the final value of the counter is not a linear form of its initial value')
                continue
            users = [a for a in p.actions if a[0] in ('USER', 'COUNTED')]
            if kind == 'operator<<(value)':
                if not entails(cons, eq(fin, S0 + 1)):
                    problems.append('the counter becomes %s, expected S0 + 1' % fin)
            else:
                if len(users) != 1:
                    problems.append('the entries of the class are counted %d time(s), expected once' % len(users))
                    continue
                k = Lin.sym('K#0')
                if not entails(cons, eq(fin, S0 + k)):
                    problems.append('the counter becomes %s, expected S0 + K (K = entries of the class): entries counted before it are %s'
                                    % (fin, 'counted again' if entails(cons + [le(1, S0)], [le(S0 + k + 1, fin)]) else 'not kept'))
                if kind == 'Count':
                    rv = Lin.of(p.outcome[1])
                    if rv is None or not entails(cons, eq(rv, S0 + k)):
                        problems.append('Count returns %s, expected the total S0 + K' % (p.outcome[1],))
        key = (f.relfile, kind)
        st = seen.setdefault(key, {'f': f, 'problems': [], 'paths': 0})
        st['paths'] += n_paths
        for pr in problems:
            if pr not in st['problems']:
                st['problems'].append(pr)
    if len(seen) < 3:
        raise AnalysisBroken('%s: Count / operator<<(value) / operator<<(BaseObject) of FieldsCountVisitor not all instantiated (%s)' % (rule, sorted(k[1] for k in seen)))
    for (rel, kind), st in sorted(seen.items()):
        f = st['f']
        rep.touch(f)
        if not st['paths']:
            rep.defer_broken('%s: no normal path of FieldsCountVisitor::%s could be interpreted' % (rule, kind))
        elif st['problems']:
            rep.finding(rule, 'FieldsCountVisitor::%s|%s' % (kind, st['problems'][0].split(',')[0][:60]), f.loc(),
                        'FieldsCountVisitor::%s: %s - the map header declares a different number of entries than the class writes' % (kind, st['problems'][0]),
                        func=f.id)
        else:
            rep.ok(rule, 'FieldsCountVisitor::%s' % kind, sample={'at': f.loc(), 'paths': st['paths']})
