"""C18 - loading into a populated target gives the same result as into a fresh one (stale-state eliminators, structural)."""
import re
from bsv.cfg import CFG
from bsv.effects import live_walk
from bsv.facts import AnalysisBroken, child, strip, strip_targs
from bsv.expr import BoolExpr, resolve
from rules.c20 import pattern_in_lib

PROP = 'C18'
LEVEL = 'other'
EXPLANATION = ('Every container/wrapper loader has, on every normal path of every load instantiation, the operation that eliminates stale '
               'state: sequence loaders end with resize(loaded-count) where the counter is incremented exactly once per element load (CFG path '
               'enumeration); set/multimap loaders clear() before the first insertion; the map loader clears iff mode == Clean; valarray resizes to '
               'the freshly loaded size; fixed-size arrays throw on a size mismatch; optional/unique_ptr/shared_ptr reset on the not-loaded path '
               'and only there; strings assign. R18.2: the OnlyExistKeys branch performs no inserting operation, the UpdateKeys branch no removing '
               'one. Not decided: equality of final values for all histories (bitset/array partial loads, hint iterators).')
ASSUMPTIONS = ['paths enumerated on clang CFGs with each loop taken zero and one time']
TRUSTED = ['clang 14 AST/CFG', 'bsfacts']

INSERTING = {'try_emplace', 'operator[]', 'emplace', 'emplace_hint', 'insert', 'insert_or_assign', 'emplace_back', 'push_back'}
REMOVING = {'erase', 'clear', 'extract'}


def is_load(f):
    for p in f.params[:1]:
        t = f.tu['types'][p['t']]
        if 'SerializeMode::Load' in t or 'Read' in t.split('<')[0].rsplit('::', 1)[-1] or 'ReadRootScope' in t or 'ReadArrayScope' in t \
                or 'ReadObjectScope' in t or 'ReadBinaryScope' in t:
            return True
    return False


def calls_named(f, n, names):
    if n['k'] in ('CallExpr', 'CXXMemberCallExpr', 'CXXOperatorCallExpr'):
        s = f.callee(n)
        if s is not None and s['n'] in names:
            return s['n']
    return None


def container_param(f):
    """decl id of the container/wrapper parameter (last reference parameter)"""
    for p in reversed(f.params):
        if f.tu['types'][p['t']].rstrip().endswith('&'):
            return p['d'], p['n']
    return None, None


def receiver_is(f, call, d):
    if call['k'] != 'CXXMemberCallExpr':
        return False
    me = strip(call['c'][0], casts=False)
    base = strip(me['c'][0]) if me is not None and me.get('c') else None
    return base is not None and base['k'] == 'DeclRefExpr' and base.get('d') == d


def map_clear_by_mode(prog, f, cont_decl, modes):
    """SerializeMapImpl interpreted once per load mode (the parameter of type MapLoadMode is bound to the enumerator, helpers are inlined):
    is clear() applied to the target on every path / on no path?  Returns None when it is 'iff Clean', else a description."""
    from bsv.dtab import TOP, Interp, Model, Sym

    class M(Model):
        def __init__(self):
            self.key = None

        def initial_store(self, it, key):
            return TOP

        def compare(self, it, fr, n, op, a, b):
            return Sym(('GUARD', 'CMP@%s' % fr.f.loc(n)))

        def construct(self, it, fr, n, depth):
            for a in n.get('c', ()):
                it.ev(fr, a, depth)
            return TOP

        def primitive(self, it, fr, n, callee, depth):
            obj, args = it.call_args(fr, n)
            if obj is not None and callee['n'] == 'clear' and it.lvalue(fr, obj, depth) == self.key:
                it.act('CLEAR')
                return TOP
            if callee.get('repo') and not callee.get('cls') and callee['q'].startswith('BitSerializer::Detail::') and callee['id'] in it.prog.funcs \
                    and len(list(it.prog.funcs[callee['id']].walk())) < 400 and callee['n'] not in ('Serialize', 'SerializeObject', 'SerializeArray'):
                return NotImplemented          # small helpers of the loader are inlined
            for a in args:
                it.ev(fr, a, depth)
            return TOP
    mode_param = [p for p in f.params if 'MapLoadMode' in f.tu['types'][p['t']]]
    if len(mode_param) != 1:
        raise AnalysisBroken('R18.1b: SerializeMapImpl has no parameter of type MapLoadMode (%s)' % f.id[:100])
    for name, val in sorted(modes['items'].items()):
        model = M()
        it = Interp(prog, model, max_depth=2, max_paths=200)

        def init(it_, fr):
            for p in f.params:
                fr.env[p['d']] = TOP
            fr.env[mode_param[0]['d']] = val
            model.key = ('L', id(fr), cont_decl)
        cleared = set()
        for p in it.run(f, init):
            if p.outcome[0] == 'THROW':
                continue
            cleared.add(any(a[0] == 'CLEAR' for a in p.actions))
        want = {True} if name == 'Clean' else {False}
        if cleared != want:
            return 'in mode %s the target is %s' % (name, 'cleared' if True in cleared and name != 'Clean' else 'not cleared on every path')
    return None


def run(prog, rep):
    from rules import string_presence
    string_presence.check(prog, rep, 'R18.5')
    rep.rule('R18.1a', 'sequence loaders: on every normal path the last container operation is resize(counter) and #element loads == #++counter', floor=20)
    rep.rule('R18.1b', 'set / multimap loaders: clear() precedes every insertion; map loader: clear() iff mode == Clean', floor=6)
    rep.rule('R18.1c', 'optional / unique_ptr / shared_ptr: reset exactly on the not-loaded path; strings: assign on the loaded path; '
                       'valarray: resize(fresh size); fixed-size arrays: size-mismatch throw', floor=20)
    rep.rule('R18.2', 'map load modes: OnlyExistKeys never inserts, UpdateKeys never removes, Clean clears first', floor=3)

    rep.rule('R18.3', 'sequence loaders executed over a container model (nodes with identity; prior size x items x estimated size known / unknown / too '
                      'large): the target ends as exactly the loaded items in the order of the archive, whatever it held before', floor=6)

    def select_seq(f):
        if not pattern_in_lib(f) or not is_load(f) or f.body is None:
            return None
        for q, tsub in seq:
            if f.pq != q:
                continue
            d, nm = container_param(f)
            ptype = next((f.type(p) for p in f.params if p.get('d') == d and 't' in p), '')
            if tsub and not ptype.replace('const ', '').startswith(tsub):
                continue
            if not f.params or f.params[0].get('d') == d:
                continue
            kind = ptype.replace('const ', '').split('<')[0].replace('std::', '')
            return d, f.params[0]['d'], kind
        return None
    modes_enum = prog.enums.get('BitSerializer::MapLoadMode')
    if modes_enum is None:
        raise AnalysisBroken('anchor vanished: enum MapLoadMode')
    seq = [('BitSerializer::Detail::SerializeContainer', None), ('BitSerializer::SerializeArray', 'std::vector<bool'), ('BitSerializer::SerializeArray', 'std::forward_list<')]
    n_seq = 0
    for f in sorted(prog.funcs.values(), key=lambda x: x.id):
        if not pattern_in_lib(f) or not is_load(f):
            continue
        pq = f.pq
        # ------------------------------------------------------------ R18.1a
        for q, tsub in seq:
            if pq != q:
                continue
            d, nm = container_param(f)
            if tsub:
                ptype = next((f.type(p) for p in f.params if p.get('d') == d and 't' in p), '')
                if not ptype.replace('const ', '').startswith(tsub):
                    continue        # e.g. vector<vector<bool>> goes through the generic overload, only its element is the special loader
            rep.touch(f)
            n_seq += 1
            g = CFG(f)
            bad = None
            counter = None
            for path, dec, kind in g.paths(max_paths=5000):
                if kind != 'return':
                    continue
                loads = 0
                incs = {}
                last_op = None
                for n in g.path_nodes(path):
                    if n['k'] == 'CallExpr' and (f.callee(n) or {}).get('n') == 'Serialize':
                        loads += 1
                    elif n['k'] in ('CXXOperatorCallExpr', 'CallExpr', 'CXXMemberCallExpr') and (f.callee(n) or {}).get('repo') \
                            and ((f.callee(n) or {}).get('kind') == 'lambda' or (f.callee(n) or {}).get('q', '').startswith('BitSerializer::Detail::')):
                        h = prog.funcs.get(f.callee(n)['id'])       # a local lambda / small helper that loads the element
                        if h is not None and h.body is not None and not any(x['k'] in ('ForStmt', 'WhileStmt', 'DoStmt', 'IfStmt') for x in h.walk()):
                            loads += sum(1 for x in h.walk() if x['k'] == 'CallExpr' and (h.callee(x) or {}).get('n') == 'Serialize')
                    if n['k'] == 'UnaryOperator' and n.get('op') == '++':
                        t = strip(n['c'][0])
                        if t is not None and t['k'] == 'DeclRefExpr' and 'size' in f.type(t).lower() or (t is not None and t['k'] == 'DeclRefExpr' and t.get('n', '').lower().startswith('loaded')):
                            incs[t['d']] = incs.get(t['d'], 0) + 1
                    if n['k'] == 'CXXMemberCallExpr' and receiver_is(f, n, d):
                        s = f.callee(n)
                        if s['n'] in ('resize', 'clear', 'push_back', 'emplace_back', 'emplace_after', 'erase', 'pop_back', 'assign', 'insert'):
                            arg = strip(n['c'][1]) if len(n['c']) > 1 else None
                            last_op = (s['n'], arg.get('d') if arg is not None and arg['k'] == 'DeclRefExpr' else None)
                if last_op is None or last_op[0] != 'resize' or last_op[1] is None:
                    bad = 'a normal path does not end with resize(<counter>) on the container (last container operation: %s)' % (last_op,)
                    break
                counter = last_op[1]
                if incs.get(counter, 0) != loads:
                    bad = 'a normal path performs %d element load(s) but increments the final-size counter %d time(s)' % (loads, incs.get(counter, 0))
                    break
            site = '%s|%s' % (pq, f.relfile.rsplit('/', 1)[-1])
            if bad:
                rep.finding('R18.1a', site, f.loc(), '%s: %s - stale elements of a longer target survive or loaded elements are cut' % (pq, bad),
                            {'instantiation': f.id}, func=f.id)
            else:
                rep.ok('R18.1a', site + '|' + f.sym.get('targs', '')[:60], sample={'loader': pq, 'file': f.relfile, 'final_op': 'resize(counter)'} if n_seq < 4 else None)

        # ------------------------------------------------------------ R18.1b sets / multimaps / maps
        if pq in ('BitSerializer::Detail::SerializeSetImpl', 'BitSerializer::Detail::SerializeMultiMapImpl'):
            d, nm = container_param(f)
            rep.touch(f)
            order = []
            for n in live_walk(f):
                if n['k'] == 'CXXMemberCallExpr' and receiver_is(f, n, d):
                    order.append(f.callee(n)['n'])
            ins = [i for i, x in enumerate(order) if x in ('insert', 'emplace_hint', 'emplace', 'try_emplace')]
            site = pq
            # every normal exit of the loader passes through clear() (also when the archive holds nothing: the result is then empty)
            unclear = None
            for path, dec, knd in CFG(f).paths(max_paths=5000):
                if knd != 'return':
                    continue
                ops = [f.callee(n)['n'] for n in CFG(f).path_nodes(path) if n['k'] == 'CXXMemberCallExpr' and receiver_is(f, n, d)]
                if 'clear' not in ops:
                    unclear = ops
                    break
            if unclear is not None:
                rep.finding('R18.1b', site + '|exit without clear', f.loc(), '%s has a normal exit that never clear()s the target (operations on that path: %s): '
                            'the previous content survives when the loader takes it' % (pq, unclear), {'instantiation': f.id}, func=f.id)
            elif 'clear' in order and ins and order.index('clear') < ins[0]:
                rep.ok('R18.1b', site + '|' + f.sym.get('targs', '')[:60], sample={'loader': pq, 'container_ops': order})
            else:
                rep.finding('R18.1b', site, f.loc(), '%s does not clear() the target before inserting the loaded elements (operations: %s): '
                            'elements of the previous content survive' % (pq, order), {'instantiation': f.id}, func=f.id)
        if pq == 'BitSerializer::Detail::SerializeMapImpl':
            d, nm = container_param(f)
            rep.touch(f)
            verdict = map_clear_by_mode(prog, f, d, modes_enum)
            if verdict is None:
                rep.ok('R18.1b', pq + '|' + f.sym.get('targs', '')[:60], sample={'loader': pq, 'clear': 'iff mapLoadMode == Clean'})
            else:
                rep.finding('R18.1b', pq, f.loc(), 'SerializeMapImpl must clear the target exactly when the load mode is MapLoadMode::Clean: %s' % verdict,
                            {'instantiation': f.id}, func=f.id)

        # ------------------------------------------------------------ R18.1c wrappers
        if pq == 'BitSerializer::Serialize' and f.params:
            lt = f.tu['types'][f.params[-1]['t']]
            kind = None
            if lt.startswith('std::optional<'):
                kind = 'optional'
            elif lt.startswith('std::unique_ptr<'):
                kind = 'unique_ptr'
            elif lt.startswith('std::shared_ptr<'):
                kind = 'shared_ptr'
            elif lt.startswith('std::basic_string<') and lt.rstrip().endswith('&') and not lt.startswith('const'):
                kind = 'string'
            if kind in ('optional', 'unique_ptr', 'shared_ptr'):
                d = f.params[-1]['d']
                rep.touch(f)
                g = CFG(f)
                bad = None
                for path, dec, knd in g.paths():
                    if knd != 'return':
                        continue
                    reset = False
                    ret = None
                    for n in g.path_nodes(path):
                        if n['k'] == 'CXXMemberCallExpr' and receiver_is(f, n, d) and f.callee(n)['n'] == 'reset':
                            reset = True
                        if n['k'] == 'CXXOperatorCallExpr' and n.get('op') == '=' and len(n['c']) > 2:
                            lhs = strip(n['c'][1])
                            if lhs is not None and lhs.get('d') == d and any(x.get('n') == 'nullopt' for x in f.walk(n['c'][2])):
                                reset = True
                        if n['k'] == 'ReturnStmt':
                            ret = ret_value(f, child(n, 'value'), path_bools(f, dec))
                    if ret == 0 and not reset:
                        bad = 'the not-loaded path (return false) leaves the previous / freshly created value in the %s' % kind
                    if ret == 1 and reset:
                        bad = 'the loaded path resets the %s' % kind
                    if reset and ret not in (0, 1):
                        bad = 'a path that resets the %s does not report "not loaded" (it returns the result of another call)' % kind
                site = 'Serialize(%s)|%s' % (kind, 'keyed' if len(f.params) == 3 else 'unkeyed')
                if bad:
                    rep.finding('R18.1c', site, f.loc(), 'Serialize(%s): %s' % (kind, bad), {'instantiation': f.id}, func=f.id)
                else:
                    rep.ok('R18.1c', site + '|' + f.sym.get('targs', '')[:50], sample={'wrapper': kind, 'keyed': len(f.params) == 3} if kind == 'optional' else None)
            if kind == 'string':
                d = f.params[-1]['d']
                rep.touch(f)
                has_assign = any(n['k'] == 'CXXMemberCallExpr' and receiver_is(f, n, d) and f.callee(n)['n'] in ('assign', 'operator=') for n in live_walk(f)) \
                    or any(n['k'] == 'CXXOperatorCallExpr' and n.get('op') == '=' and (strip(n['c'][1]) or {}).get('d') == d for n in live_walk(f))
                appends = any(n['k'] in ('CXXMemberCallExpr', 'CXXOperatorCallExpr') and (f.callee(n) or {}).get('n') in ('append', 'operator+=', 'push_back', 'insert')
                              and (receiver_is(f, n, d) or (n['k'] == 'CXXOperatorCallExpr' and (strip(n['c'][1]) or {}).get('d') == d)) for n in live_walk(f))
                site = 'Serialize(string)|%s' % ('keyed' if len(f.params) == 3 else 'unkeyed')
                if has_assign and not appends:
                    rep.ok('R18.1c', site + '|' + f.sym.get('targs', '')[:50], nontrivial=False)
                else:
                    rep.finding('R18.1c', site, f.loc(), 'string loader must assign() the loaded text (assign: %s, appending operation: %s): previous content would survive'
                                % (has_assign, appends), {'instantiation': f.id}, func=f.id)
        if pq == 'BitSerializer::SerializeArray' and 'std::valarray<' in f.id:
            d, nm = container_param(f)
            rep.touch(f)
            ok = False
            for n in live_walk(f):
                if n['k'] == 'CXXMemberCallExpr' and receiver_is(f, n, d) and f.callee(n)['n'] == 'resize' and len(n['c']) > 1:
                    arg = resolve(f, n['c'][1])       # temp.size(), possibly through a named temporary
                    if arg is not None and arg['k'] == 'CXXMemberCallExpr' and (f.callee(arg) or {}).get('n') == 'size' and not receiver_is(f, arg, d):
                        ok = True
            if ok:
                rep.ok('R18.1c', 'SerializeArray(valarray)|' + f.sym.get('targs', '')[:50], sample={'loader': 'valarray', 'op': 'resize(temp.size())'})
            else:
                rep.finding('R18.1c', 'SerializeArray(valarray)', f.loc(), 'valarray loader does not resize the target to the freshly loaded size', func=f.id)
        if pq == 'BitSerializer::Detail::SerializeFixedSizeArray':
            rep.touch(f)
            ok = False

            def classify(e):
                if e['k'] == 'CXXMemberCallExpr' and (f.callee(e) or {}).get('n') == 'IsEnd':
                    return ('SCOPE_END', True)
                if e['k'] in ('BinaryOperator', 'CXXOperatorCallExpr') and e.get('op') in ('==', '!='):
                    ops = e['c'][-2:]
                    if all(f.type(o).strip() not in ('bool', 'const bool') for o in ops):
                        return ('TARGET_END', e['op'] == '==')
                return None
            for n in live_walk(f):
                if n['k'] == 'IfStmt' and not n.get('cx'):
                    th, el = child(n, 'then'), child(n, 'else')
                    t_throw = th is not None and any(x['k'] == 'CXXThrowExpr' for x in f.walk(th))
                    e_throw = el is not None and any(x['k'] == 'CXXThrowExpr' for x in f.walk(el))
                    if t_throw == e_throw:
                        continue
                    be = BoolExpr(f, child(n, 'cond'), classify)
                    if be.unknown or set(be.atoms) != {'SCOPE_END', 'TARGET_END'}:
                        continue
                    # throws exactly unless both the target and the loaded array are exhausted
                    if all((v if t_throw else not v) == (not (env['SCOPE_END'] and env['TARGET_END'])) for env, v in be.table()):
                        ok = True
            if ok:
                rep.ok('R18.1c', 'SerializeFixedSizeArray|' + f.sym.get('targs', '')[:50], nontrivial=False)
            else:
                rep.finding('R18.1c', 'SerializeFixedSizeArray', f.loc(), 'fixed-size array loader no longer throws when the number of loaded items '
                            'differs from the array size (in either direction)', func=f.id)

    # ---------------------------------------------------------------- R18.4 fixed-size bit set: every position is loaded
    rep.rule('R18.4', 'std::bitset loader: the loop that sets the bits runs over all N positions - its condition does not ask the archive '
                      '(IsEnd / size) and its body has no break / return - or a throw follows a shortened loop: no position keeps its previous bit', floor=2)
    n_bs = 0
    for f in sorted(prog.funcs.values(), key=lambda x: x.id):
        if not pattern_in_lib(f) or not is_load(f) or f.body is None or f.pq != 'BitSerializer::SerializeArray':
            continue
        d, nm = container_param(f)
        ptype = next((f.type(p) for p in f.params if p.get('d') == d and 't' in p), '')
        if not ptype.replace('const ', '').startswith('std::bitset<'):
            continue
        n_bs += 1
        rep.touch(f)
        arch = f.params[0]['d']
        loops = [lp for lp in live_walk(f) if lp['k'] in ('ForStmt', 'WhileStmt', 'DoStmt', 'CXXForRangeStmt')
                 and any(x['k'] == 'CXXMemberCallExpr' and receiver_is(f, x, d) and f.callee(x)['n'] in ('set', 'reset', 'flip', 'operator[]') for x in f.walk(lp))]
        site = 'SerializeArray(bitset)|' + f.sym.get('targs', '')[:50]
        if not loops:
            rep.finding('R18.4', 'SerializeArray(bitset)|no loop', f.loc(), 'bitset loader: no loop that sets the bits of the target was found', func=f.id)
            continue
        bad = None
        for lp in loops:
            cond = child(lp, 'cond')
            asks = cond is not None and any(x['k'] == 'CXXMemberCallExpr' and receiver_is(f, x, arch) for x in f.walk(cond))
            body = child(lp, 'body')
            exits = [x for x in f.walk(body) if x['k'] in ('BreakStmt', 'ReturnStmt')] if body is not None else []
            later_throw = any(x['k'] == 'CXXThrowExpr' and x['l'] > lp['l'] and not any(y is x for y in f.walk(lp)) for x in live_walk(f))
            if (asks or exits) and not later_throw:
                bad = ('the loop condition asks the archive (%s)' % 'IsEnd' if asks else 'the loop body leaves the loop early') + \
                    ' and nothing throws afterwards: a document with fewer items than bits leaves the remaining bits of a populated target as they were'
        if bad:
            rep.finding('R18.4', 'SerializeArray(bitset)|shortened loop', f.loc(loops[0]), 'bitset loader: ' + bad, {'instantiation': f.id}, func=f.id)
        else:
            rep.ok('R18.4', site)
    if n_bs == 0 and getattr(rep, 'tier', 'quick') == 'thorough':
        raise AnalysisBroken('R18.4: no load instantiation of SerializeArray(std::bitset) in the analysed units')

    from rules import seqload
    seqload.check(prog, rep, 'R18.3', select_seq)

    # ---------------------------------------------------------------- R18.2: the key-visiting lambda of SerializeMapImpl, executed per mode
    modes = prog.enums.get('BitSerializer::MapLoadMode')
    if modes is None:
        raise AnalysisBroken('anchor vanished: enum MapLoadMode')
    seen = 0
    for f in sorted(prog.funcs.values(), key=lambda x: x.id):
        if f.sym['kind'] != 'lambda' or 'generic_map.h' not in f.file or f.body is None:
            continue
        mode_refs = [n for n in f.walk() if n['k'] == 'DeclRefExpr' and 'MapLoadMode' in f.type(n) and n.get('dk') in ('Var', 'ParmVar')]
        if not mode_refs:
            continue
        rep.touch(f)
        seen += 1
        problems = map_ops_by_mode(prog, f, mode_refs[0]['d'], modes)
        site = 'SerializeMapImpl::lambda|modes'
        if problems:
            for p in sorted(set(problems)):
                rep.finding('R18.2', site + '|' + p[:60], f.loc(), 'map load modes: ' + p, {'instantiation': f.id}, func=f.id)
        else:
            rep.ok('R18.2', site + '|' + f.id[-60:], sample={'modes_checked': ['OnlyExistKeys: no insert', 'UpdateKeys: no removal']} if seen < 2 else None)
    if seen == 0:
        raise AnalysisBroken('R18.2: the key-visiting lambda of SerializeMapImpl (the one that reads the MapLoadMode) was not found')


def map_ops_by_mode(prog, f, mode_decl, modes):
    """the key-visiting lambda interpreted once per load mode (captured mode bound to the enumerator; switch, if-chain or helper alike):
    which operations reach a map (any object whose type is a std::map / unordered_map) on some path"""
    from bsv.dtab import TOP, Interp, Model, Sym

    class M(Model):
        def initial_store(self, it, key):
            return TOP

        def compare(self, it, fr, n, op, a, b):
            return Sym(('GUARD', 'CMP@%s' % fr.f.loc(n)))

        def construct(self, it, fr, n, depth):
            for a in n.get('c', ()):
                it.ev(fr, a, depth)
            return TOP

        def primitive(self, it, fr, n, callee, depth):
            obj, args = it.call_args(fr, n)
            if obj is not None:
                t = fr.f.type(strip(obj)) if strip(obj) is not None else ''
                if re.match(r'(const )?std::(unordered_)?(multi)?map<', t):
                    it.act('MAPOP', callee['n'], fr.f.loc(n))
            if callee.get('repo') and not callee.get('cls') and callee['q'].startswith('BitSerializer::Detail::') and callee['id'] in it.prog.funcs \
                    and len(list(it.prog.funcs[callee['id']].walk())) < 400 and callee['n'] not in ('Serialize', 'SerializeObject', 'SerializeArray', 'ConvertByPolicy'):
                return NotImplemented
            for a in args:
                it.ev(fr, a, depth)
            if callee['n'] == 'ConvertByPolicy':
                return Sym(('GUARD', 'KEYCONVERTED'))
            return TOP
    problems = []
    for name, forbidden, label in (('OnlyExistKeys', INSERTING, 'inserting'), ('UpdateKeys', REMOVING, 'removing'), ('Clean', set(), '')):
        it = Interp(prog, M(), max_depth=2, max_paths=400)

        def init(it_, fr):
            for p in f.params:
                fr.env[p['d']] = TOP
            fr.env[mode_decl] = modes['items'][name]
        ops = set()
        for p in it.run(f, init):
            for a in p.actions:
                if a[0] == 'MAPOP':
                    ops.add(a[1])
        bad = sorted(ops & forbidden)
        for nm in bad:
            problems.append('%s branch performs the %s operation %s()' % (name, label, nm))
        if name == 'Clean' and not (ops & INSERTING):
            problems.append('in mode Clean no path inserts the loaded key')
    return problems


def path_bools(f, dec):
    """{decl id: 0/1} for bool locals (or anything tested bare) whose truth a branch decision of this path fixes: `if (x)` / `if (!x)`"""
    known = {}
    for cid, idx, _tk in dec:
        n = f.node(cid) if isinstance(cid, int) else None
        e = strip(n) if n is not None else None
        neg = False
        while e is not None and e['k'] == 'UnaryOperator' and e.get('op') == '!':
            neg = not neg
            e = strip(e['c'][0])
        if e is not None and e['k'] == 'DeclRefExpr' and e.get('d') is not None:
            val = (idx == 0)
            known[e['d']] = 0 if (val == neg) else 1
    return known


def ret_value(f, v, known):
    """constant returned, also through a local whose value the path decisions fix; None when unknown"""
    v = strip(v)
    if v is None:
        return None
    if 'cv' in v:
        return v['cv']
    if v['k'] == 'DeclRefExpr' and v.get('d') in known:
        return known[v['d']]
    return None


def check_wrapper_results(prog, rep, rule):
    """optional / unique_ptr / shared_ptr loaders (keyed and unkeyed, every load instantiation): a path that empties the wrapper returns the
    constant false and a path that returns true keeps the value - the 'loaded' flag the validators receive (Required) is false exactly when
    the field holds nothing."""
    n = 0
    for f in sorted(prog.funcs.values(), key=lambda x: x.id):
        if not pattern_in_lib(f) or not is_load(f) or f.body is None or f.pq != 'BitSerializer::Serialize' or not f.params:
            continue
        lt = f.tu['types'][f.params[-1]['t']]
        kind = next((k for k in ('optional', 'unique_ptr', 'shared_ptr') if lt.startswith('std::%s<' % k)), None)
        if kind is None:
            continue
        d = f.params[-1]['d']
        rep.touch(f)
        n += 1
        g = CFG(f)
        bad = None
        for path, dec, knd in g.paths():
            if knd != 'return':
                continue
            reset, ret = False, 'none'
            for x in g.path_nodes(path):
                if x['k'] == 'CXXMemberCallExpr' and receiver_is(f, x, d) and f.callee(x)['n'] == 'reset':
                    reset = True
                if x['k'] == 'CXXOperatorCallExpr' and x.get('op') == '=' and len(x['c']) > 2:
                    lhs = strip(x['c'][1])
                    if lhs is not None and lhs.get('d') == d and any(y.get('n') == 'nullopt' for y in f.walk(x['c'][2])):
                        reset = True
                if x['k'] == 'ReturnStmt':
                    rv = ret_value(f, child(x, 'value'), path_bools(f, dec))
                    ret = 'call' if rv is None else rv
            if reset and ret != 0:
                bad = 'a path that empties the %s returns %s instead of false: an explicit null / failed load is reported as loaded' % (
                    kind, 'true' if ret == 1 else 'the result of another call')
            if ret == 1 and reset:
                bad = 'the path that reports "loaded" empties the %s' % kind
        site = 'Serialize(%s)|%s' % (kind, 'keyed' if len(f.params) == 3 else 'unkeyed')
        if bad:
            rep.finding(rule, site, f.loc(), 'Serialize(%s): %s' % (kind, bad), {'instantiation': f.id}, func=f.id)
        else:
            rep.ok(rule, site + '|' + f.sym.get('targs', '')[:50])
    if n < 6:
        raise AnalysisBroken('%s: fewer than 6 wrapper loaders found (%d)' % (rule, n))
