"""Interval no-wrap analysis (engine E3 + interval domain with adaptive cell splitting), used by C15.

One integer input ranges over its whole type. The input range is split adaptively until every ordered comparison and every
range-changing cast is decided on each cell (all operations are monotone in the input, so bisection finds the thresholds).
Per cell the single path is interpreted; events: OVERFLOW (signed arithmetic leaves its type: undefined behaviour),
WRAP (unsigned arithmetic wraps), WRAPCAST (conversion changes the value)."""
from bsv import interval
from bsv.interval import Iv
from bsv.dtab import TOP, AnalysisBroken, Interp, Model, Sym, Thrown, base_type, INT_TYPES


class Split(Exception):
    def __init__(self, at=None):
        Exception.__init__(self)
        self.at = at      # threshold in input space: cells [lo, at-1] and [at, hi]; None = bisect


def trunc_div(a, b):
    q = abs(a) // abs(b)
    return q if (a >= 0) == (b >= 0) else -q


class WrapModel(Model):
    def __init__(self, cell, primitive_hook=None):
        self.cell = cell
        self.hook = primitive_hook

    def is_input(self, v):
        return v is self.cell

    def split_on_compare(self, op, a, b):
        """threshold in input space when the input itself is compared with a constant"""
        for x, y, o in ((a, b, op), (b, a, {'<': '>', '>': '<', '<=': '>=', '>=': '<='}[op])):
            if self.is_input(x) and y.const():
                c = y.lo
                at = {'<': c, '>=': c, '>': c + 1, '<=': c + 1}[o]
                if x.lo < at <= x.hi:
                    return Split(at)
        return Split(None)

    def compare(self, it, fr, n, op, a, b):
        if a is b and isinstance(a, Iv):
            return 1 if op in ('==', '<=', '>=') else 0
        ia, ib = interval.as_iv(a), interval.as_iv(b)
        if ia is None or ib is None:
            return Sym(('GUARD', 'OPAQUE@%s' % fr.f.loc(n)))
        if self.is_input(a):
            ia = a
        if self.is_input(b):
            ib = b
        r = interval.compare(op, ia, ib)
        if r is not None:
            return r
        for x, y in ((ia, ib), (ib, ia)):
            if self.is_input(x) and not self.is_input(y) and x.lo != x.hi:
                # refine the input cell at the bounds of the other operand, so that overlap is all-or-nothing
                for at in (y.lo, y.hi + 1):
                    if x.lo < at <= x.hi:
                        raise Split(at)
        if op in ('==', '!=') or getattr(it, 'poisoned', False) or ia.tag == 'ANY' or ib.tag == 'ANY':
            return Sym(('GUARD', 'EQ@%s' % fr.f.loc(n)))
        raise self.split_on_compare(op, ia, ib)

    def typed(self, it, fr, n, lo, hi, what, anyv=False):
        t = base_type(fr.f.type(n))
        info = INT_TYPES.get(t)
        tag = 'ANY' if anyv else ''
        if info is None:
            return Iv(lo, hi, tag)
        r = interval.type_range(t)
        if r[0] <= lo and hi <= r[1]:
            return Iv(lo, hi, tag)
        # some value of the cell leaves the type
        if ((lo < r[0] <= hi) or (lo <= r[1] < hi)) and anyv:
            it.act('OVERFLOW' if info[1] else 'WRAP', what + ' (operand known only by range)', fr.f.loc(n), t)
            it.poisoned = True
            return Iv(r[0], r[1], 'ANY')
        if (lo < r[0] <= hi) or (lo <= r[1] < hi):
            if self.cell.lo == self.cell.hi:
                raise AnalysisBroken('nowrap: non-singleton result on a singleton cell at %s' % fr.f.loc(n))
            raise Split(None)      # find the exact threshold first
        it.act('OVERFLOW' if info[1] else 'WRAP', what, fr.f.loc(n), t)
        bits = info[0]
        wl, wh = interval.cast(Iv(lo, lo), t).lo, interval.cast(Iv(hi, hi), t).lo
        if hi - lo < (1 << bits) and wl <= wh and (wh - wl) == (hi - lo):
            return Iv(wl, wh)          # two's complement image (what the hardware computes; for signed types formally undefined)
        it.poisoned = True
        return Iv(r[0], r[1])

    def arith(self, it, fr, n, op, a, b):
        ia, ib = interval.as_iv(a), interval.as_iv(b)
        if ia is None or ib is None:
            return TOP
        if op in ('+', '-', '*'):
            f = {'+': lambda x, y: x + y, '-': lambda x, y: x - y, '*': lambda x, y: x * y}[op]
            c = [f(x, y) for x in (ia.lo, ia.hi) for y in (ib.lo, ib.hi)]
            return self.typed(it, fr, n, min(c), max(c), 'operator %s' % op, anyv=(ia.tag == 'ANY' or ib.tag == 'ANY'))
        if op in ('/', '%'):
            if ib.lo <= 0 <= ib.hi:
                if ib.const():
                    it.act('DIVZERO', fr.f.loc(n))
                    return TOP
                raise Split(None)
            if op == '/':
                c = [trunc_div(x, y) for x in (ia.lo, ia.hi) for y in (ib.lo, ib.hi)]
                return self.typed(it, fr, n, min(c), max(c), 'operator /', anyv=(ia.tag == 'ANY' or ib.tag == 'ANY'))
            if ia.const() and ib.const():
                q = trunc_div(ia.lo, ib.lo)
                return Iv(ia.lo - q * ib.lo, ia.lo - q * ib.lo)
            m = max(abs(ib.lo), abs(ib.hi)) - 1
            return Iv(-m if ia.lo < 0 else 0, m if ia.hi > 0 else 0)
        return TOP

    def unary(self, it, fr, n, op, v):
        iv = interval.as_iv(v)
        if iv is None:
            return TOP
        if op == '-':
            return self.typed(it, fr, n, -iv.hi, -iv.lo, 'unary minus', anyv=(iv.tag == 'ANY'))
        if op == '+':
            return v
        return TOP

    def cast_iv(self, it, fr, n, v, t):
        r = interval.type_range(base_type(t))
        if r is None:
            return v
        if r[0] <= v.lo and v.hi <= r[1]:
            return v
        if ((v.lo < r[0] <= v.hi) or (v.lo <= r[1] < v.hi)) and v.tag == 'ANY':
            it.act('WRAPCAST', '%s' % base_type(t), fr.f.loc(n) if n is not None else '', (v.lo, v.hi))
            return self.pieces(it, fr, n, r)
        if (v.lo < r[0] <= v.hi) or (v.lo <= r[1] < v.hi):
            if self.is_input(v):
                raise Split(r[0] if v.lo < r[0] <= v.hi else r[1] + 1)
            raise Split(None)
        w = interval.cast(v, t)
        if not (w.hi - w.lo == v.hi - v.lo):
            # spans several wrap periods: only the range is known; signed targets are explored per sign piece
            w = self.pieces(it, fr, n, r)
        it.act('WRAPCAST', '%s' % base_type(t), fr.f.loc(n) if n is not None else '', (v.lo, v.hi))
        return w

    def pieces(self, it, fr, n, r):
        """a value known only to lie in the target range r: explored per value for byte-sized targets (exact), else per sign piece"""
        loc = fr.f.loc(n) if n is not None else ''
        lo, hi = r
        if hi - lo < 256:
            while lo < hi:
                mid = (lo + hi) // 2
                if it.choose('VALUE<=%d@%s' % (mid, loc)):
                    hi = mid
                else:
                    lo = mid + 1
            return Iv(lo, lo, 'ANY')
        if lo < 0 and it.choose('PIECE<0@%s' % loc):
            return Iv(lo, -1, 'ANY')
        return Iv(0, hi, 'ANY')

    def construct(self, it, fr, n, depth):
        vals = [it.ev(fr, a, depth) for a in n.get('c', ())]
        return vals[0] if len(vals) == 1 else TOP

    def primitive(self, it, fr, n, callee, depth):
        if self.hook is not None:
            r = self.hook(self, it, fr, n, callee, depth)
            if r is not NotImplemented:
                return r
        if not callee.get('repo'):
            obj, args = it.call_args(fr, n)
            for a in args:
                it.ev(fr, a, depth)
            return TOP
        return NotImplemented


class WrapInterp(Interp):
    cur_node = None

    def ev_cast(self, fr, n, depth):
        self.cur_node = (fr, n)
        return Interp.ev_cast(self, fr, n, depth)

    def cast_other(self, v, t):
        if isinstance(v, Iv):
            fr, n = self.cur_node if self.cur_node else (None, None)
            return self.model.cast_iv(self, fr, n, v, t)
        return v

    def coerce(self, v, t):
        if isinstance(v, Iv):
            fr, n = self.cur_node if self.cur_node else (None, None)
            return self.model.cast_iv(self, fr, n, v, t)
        return Interp.coerce(self, v, t)


def explore(prog, f, lo, hi, setup, primitive_hook=None, body=None, max_cells=4000, max_depth=2):
    """yields (cell Iv, [Path]) for the final partition of [lo, hi]; setup(it, fr, cell) binds the input"""
    work = [(lo, hi)]
    out = []
    n = 0
    while work:
        a, b = work.pop()
        n += 1
        if n > max_cells:
            raise AnalysisBroken('nowrap: more than %d cells exploring %s' % (max_cells, f.id[:100]))
        cell = Iv(a, b, 'ARG')
        model = WrapModel(cell, primitive_hook)
        it = WrapInterp(prog, model, max_depth=max_depth, max_paths=2000)
        try:
            paths = it.run(f, lambda it_, fr: setup(it_, fr, cell), body=body) if body is not None else it.run(f, lambda it_, fr: setup(it_, fr, cell))
        except Split as s:
            if a == b:
                raise AnalysisBroken('nowrap: undecided comparison on the singleton cell %d in %s' % (a, f.id[:100]))
            at = s.at if s.at is not None and a < s.at <= b else (a + (b - a + 1) // 2)
            work.append((at, b))
            work.append((a, at - 1))
            continue
        out.append((cell, paths))
    out.sort(key=lambda cp: cp[0].lo)
    return out
