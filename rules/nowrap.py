"""Interval no-wrap analysis (engine E3 + interval domain with adaptive cell splitting), used by C15.

One integer input ranges over its whole type. The input range is split adaptively until every ordered comparison and every
range-changing cast is decided on each cell (all operations are monotone in the input, so bisection finds the thresholds).
Per cell the single path is interpreted; events: OVERFLOW (signed arithmetic leaves its type: undefined behaviour),
WRAP (unsigned arithmetic wraps), WRAPCAST (conversion changes the value)."""
from bsv import interval
from bsv.interval import Iv
from bsv.dtab import TOP, AnalysisBroken, Interp, Model, Sym, Thrown, base_type, INT_TYPES


class Split(Exception):
    def __init__(self, at=None):
        Exception.__init__(self)
        self.at = at      # threshold in input space: cells [lo, at-1] and [at, hi]; None = bisect


def trunc_div(a, b):
    q = abs(a) // abs(b)
    return q if (a >= 0) == (b >= 0) else -q


class WrapModel(Model):
    def __init__(self, cell, primitive_hook=None, enum_mode=False):
        self.cell = cell
        self.hook = primitive_hook
        self.enum_mode = enum_mode
        self.org = {}        # id(Iv) -> algebraic origin, for the floor-division lemma  x - floor(x/k)*k in [0, k-1]
        self.keep = []

    @staticmethod
    def decl_of(fr, n):
        """name of the variable whose initialiser / assignment contains n (stable site name for reports)"""
        p = n
        while p is not None:
            if p['k'] == 'DeclStmt' and p.get('decls'):
                return p['decls'][0]['n']
            if p['k'] in ('BinaryOperator', 'CompoundAssignOperator') and p.get('op', '').endswith('=') and p.get('op') not in ('==', '!=', '<=', '>='):
                from bsv.facts import strip
                l = strip(p['c'][0])
                return (l.get('n') or l.get('m') or '?') if l is not None else '?'
            p = fr.f.parent(p)
        return 'expression'

    def mark(self, v, org):
        self.org[id(v)] = org
        self.keep.append(v)
        return v

    def lemma(self, op, a, b, ia, ib):
        """algebraic identities that intervals alone cannot see (x: any tracked value, k: positive constant)
             (x - (k-1)) / k == floor(x / k)  for x < 0 ;  x / k == floor(x / k) for x >= 0 ;  x - floor(x/k)*k in [0, k-1]"""
        oa, ob = self.org.get(id(a)), self.org.get(id(b))
        if op == '-' and ib.const() and ib.lo > 0 and isinstance(a, Iv):
            return ('mark', ('sub', a, ib.lo))
        if op == '/' and ib.const() and ib.lo > 0 and isinstance(a, Iv):
            k = ib.lo
            if ia.lo >= 0:
                return ('mark', ('floordiv', a, k))
            if oa is not None and oa[0] == 'sub' and oa[2] == k - 1 and interval.as_iv(oa[1]).hi < 0:
                return ('mark', ('floordiv', oa[1], k))
        if op == '*':
            for x, ox, y in ((a, oa, ib), (b, ob, ia)):
                if ox is not None and ox[0] == 'floordiv' and y.const() and y.lo == ox[2]:
                    return ('mark', ('kfloor', ox[1], ox[2]))
        if op == '-' and ob is not None and ob[0] == 'kfloor' and ob[1] is a:
            k = ob[2]
            if ia.const():
                return ('value', Iv(ia.lo % k, ia.lo % k))
            if k <= 512:
                return ('enum', k)         # small residue range: explored value by value (exact downstream arithmetic)
            return ('value', Iv(0, k - 1))
        return None

    def is_input(self, v):
        return v is self.cell

    def split_on_compare(self, op, a, b):
        """threshold in input space when the input itself is compared with a constant"""
        for x, y, o in ((a, b, op), (b, a, {'<': '>', '>': '<', '<=': '>=', '>=': '<='}[op])):
            if self.is_input(x) and y.const():
                c = y.lo
                at = {'<': c, '>=': c, '>': c + 1, '<=': c + 1}[o]
                if x.lo < at <= x.hi:
                    return Split(at)
        return Split(None)

    def compare(self, it, fr, n, op, a, b):
        if a is b and isinstance(a, Iv):
            return 1 if op in ('==', '<=', '>=') else 0
        ia, ib = interval.as_iv(a), interval.as_iv(b)
        if ia is None or ib is None:
            return Sym(('GUARD', 'OPAQUE@%s' % fr.f.loc(n)))
        if self.is_input(a):
            ia = a
        if self.is_input(b):
            ib = b
        r = interval.compare(op, ia, ib)
        if r is not None:
            return r
        for x, y in ((ia, ib), (ib, ia)):
            if self.is_input(x) and not self.is_input(y) and x.lo != x.hi:
                # refine the input cell at the bounds of the other operand, so that overlap is all-or-nothing
                for at in (y.lo, y.hi + 1):
                    if x.lo < at <= x.hi:
                        raise Split(at)
        if op in ('==', '!=') or getattr(it, 'poisoned', False) or ia.tag == 'ANY' or ib.tag == 'ANY':
            return Sym(('GUARD', 'EQ@%s' % fr.f.loc(n)))
        raise self.split_on_compare(op, ia, ib)

    def typed(self, it, fr, n, lo, hi, what, anyv=False):
        t = base_type(fr.f.type(n))
        info = INT_TYPES.get(t)
        tag = 'ANY' if anyv else ''
        if info is None:
            return Iv(lo, hi, tag)
        r = interval.type_range(t)
        if r[0] <= lo and hi <= r[1]:
            return Iv(lo, hi, tag)
        # some value of the cell leaves the type
        if ((lo < r[0] <= hi) or (lo <= r[1] < hi)) and anyv:
            it.act('OVERFLOW' if info[1] else 'WRAP', what + ' (operand known only by range)', fr.f.loc(n), t, self.decl_of(fr, n))
            it.poisoned = True
            return Iv(r[0], r[1], 'ANY')
        if (lo < r[0] <= hi) or (lo <= r[1] < hi):
            if self.cell.lo == self.cell.hi:
                raise AnalysisBroken('nowrap: non-singleton result on a singleton cell at %s' % fr.f.loc(n))
            raise Split(None)      # find the exact threshold first
        it.act('OVERFLOW' if info[1] else 'WRAP', what, fr.f.loc(n), t, self.decl_of(fr, n))
        bits = info[0]
        wl, wh = interval.cast(Iv(lo, lo), t).lo, interval.cast(Iv(hi, hi), t).lo
        if hi - lo < (1 << bits) and wl <= wh and (wh - wl) == (hi - lo):
            return Iv(wl, wh)          # two's complement image (what the hardware computes; for signed types formally undefined)
        it.poisoned = True
        return Iv(r[0], r[1])

    def arith(self, it, fr, n, op, a, b):
        ia, ib = interval.as_iv(a), interval.as_iv(b)
        if ia is None or ib is None:
            return TOP
        lem = self.lemma(op, a, b, ia, ib)
        if lem is not None and lem[0] == 'value':
            return lem[1]
        if lem is not None and lem[0] == 'enum':
            lo, hi = 0, lem[1] - 1
            it.enum_hit = True
            if not self.enum_mode:
                return Iv(lo, hi, 'ANY')    # first pass: range only; the final cells are re-run value by value
            if ia.hi - ia.lo + 1 < lem[1]:
                # narrow operand range: only the residues that really occur (floor modulus), possibly wrapping around k
                r0, r1 = ia.lo % lem[1], ia.hi % lem[1]
                if r0 <= r1:
                    lo, hi = r0, r1
                elif it.choose('RESIDUE WRAPS@%s' % fr.f.loc(n)):
                    lo, hi = r0, lem[1] - 1
                else:
                    lo, hi = 0, r1
            while lo < hi:
                mid = (lo + hi) // 2
                if it.choose('RESIDUE<=%d@%s' % (mid, fr.f.loc(n))):
                    hi = mid
                else:
                    lo = mid + 1
            return Iv(lo, lo)
        if op in ('+', '-', '*'):
            f = {'+': lambda x, y: x + y, '-': lambda x, y: x - y, '*': lambda x, y: x * y}[op]
            c = [f(x, y) for x in (ia.lo, ia.hi) for y in (ib.lo, ib.hi)]
            r = self.typed(it, fr, n, min(c), max(c), 'operator %s' % op, anyv=(ia.tag == 'ANY' or ib.tag == 'ANY'))
            return self.mark(r, lem[1]) if lem is not None else r
        if op in ('/', '%'):
            if ib.lo <= 0 <= ib.hi:
                if ib.const():
                    it.act('DIVZERO', fr.f.loc(n))
                    return TOP
                raise Split(None)
            if op == '/':
                c = [trunc_div(x, y) for x in (ia.lo, ia.hi) for y in (ib.lo, ib.hi)]
                r = self.typed(it, fr, n, min(c), max(c), 'operator /', anyv=(ia.tag == 'ANY' or ib.tag == 'ANY'))
                return self.mark(r, lem[1]) if lem is not None else r
            if ia.const() and ib.const():
                q = trunc_div(ia.lo, ib.lo)
                return Iv(ia.lo - q * ib.lo, ia.lo - q * ib.lo)
            m = max(abs(ib.lo), abs(ib.hi)) - 1
            return Iv(-m if ia.lo < 0 else 0, m if ia.hi > 0 else 0)
        return TOP

    def unary(self, it, fr, n, op, v):
        iv = interval.as_iv(v)
        if iv is None:
            return TOP
        if op == '-':
            return self.typed(it, fr, n, -iv.hi, -iv.lo, 'unary minus', anyv=(iv.tag == 'ANY'))
        if op == '+':
            return v
        return TOP

    def cast_iv(self, it, fr, n, v, t):
        r = interval.type_range(base_type(t))
        if r is None:
            return v
        if r[0] <= v.lo and v.hi <= r[1]:
            return v
        if ((v.lo < r[0] <= v.hi) or (v.lo <= r[1] < v.hi)) and v.tag == 'ANY':
            it.act('WRAPCAST', '%s' % base_type(t), fr.f.loc(n) if n is not None else '', (v.lo, v.hi))
            return self.pieces(it, fr, n, r)
        if (v.lo < r[0] <= v.hi) or (v.lo <= r[1] < v.hi):
            if self.is_input(v):
                raise Split(r[0] if v.lo < r[0] <= v.hi else r[1] + 1)
            raise Split(None)
        w = interval.cast(v, t)
        if not (w.hi - w.lo == v.hi - v.lo):
            # spans several wrap periods: only the range is known; signed targets are explored per sign piece
            w = self.pieces(it, fr, n, r)
        it.act('WRAPCAST', '%s' % base_type(t), fr.f.loc(n) if n is not None else '', (v.lo, v.hi))
        return w

    def pieces(self, it, fr, n, r):
        """a value known only to lie in the target range r: explored per value for byte-sized targets (exact), else per sign piece"""
        loc = fr.f.loc(n) if n is not None else ''
        lo, hi = r
        if hi - lo < 256:
            while lo < hi:
                mid = (lo + hi) // 2
                if it.choose('VALUE<=%d@%s' % (mid, loc)):
                    hi = mid
                else:
                    lo = mid + 1
            return Iv(lo, lo, 'ANY')
        if lo < 0 and it.choose('PIECE<0@%s' % loc):
            return Iv(lo, -1, 'ANY')
        return Iv(0, hi, 'ANY')

    def construct(self, it, fr, n, depth):
        vals = [it.ev(fr, a, depth) for a in n.get('c', ())]
        return vals[0] if len(vals) == 1 else TOP

    def primitive(self, it, fr, n, callee, depth):
        if self.hook is not None:
            r = self.hook(self, it, fr, n, callee, depth)
            if r is not NotImplemented:
                return r
        if not callee.get('repo'):
            obj, args = it.call_args(fr, n)
            for a in args:
                it.ev(fr, a, depth)
            return TOP
        return NotImplemented


class WrapInterp(Interp):
    cur_node = None

    def ev_cast(self, fr, n, depth):
        self.cur_node = (fr, n)
        return Interp.ev_cast(self, fr, n, depth)

    def cast_other(self, v, t):
        if isinstance(v, Iv):
            fr, n = self.cur_node if self.cur_node else (None, None)
            return self.model.cast_iv(self, fr, n, v, t)
        return v

    def coerce(self, v, t):
        if isinstance(v, Iv):
            fr, n = self.cur_node if self.cur_node else (None, None)
            return self.model.cast_iv(self, fr, n, v, t)
        return Interp.coerce(self, v, t)


def _run(prog, f, a, b, setup, primitive_hook, body, max_depth, enum_mode):
    cell = Iv(a, b, 'ARG')
    model = WrapModel(cell, primitive_hook, enum_mode=enum_mode)
    it = WrapInterp(prog, model, max_depth=max_depth, max_paths=4000)
    it.enum_hit = False
    paths = it.run(f, lambda it_, fr: setup(it_, fr, cell), body=body)
    return cell, paths, it.enum_hit


def _sig(paths):
    return tuple(sorted((p.outcome[0], str(p.outcome[1]) if p.outcome[0] == 'THROW' else '',
                         tuple((x[0], x[1], x[2]) for x in p.actions if x[0] in ('OVERFLOW', 'WRAP', 'WRAPCAST', 'DIVZERO')),
                         tuple((str(l), d) for l, d in p.guards)) for p in paths))


def explore(prog, f, lo, hi, setup, primitive_hook=None, body=None, max_cells=4000, max_depth=2):
    """(cell Iv, [Path]) for the final partition of [lo, hi]; setup(it, fr, cell) binds the input.
    Pass 1 bisects until every guard is decided per cell; neighbours with the same behaviour are merged again; cells that met a
    small residue range (floor-division lemma) are then re-run with that residue explored value by value."""
    work = [(lo, hi)]
    final = []
    n = 0
    while work:
        a, b = work.pop()
        n += 1
        if n > max_cells:
            raise AnalysisBroken('nowrap: more than %d cells exploring %s' % (max_cells, f.id[:100]))
        try:
            cell, paths, hit = _run(prog, f, a, b, setup, primitive_hook, body, max_depth, False)
        except Split as s:
            if a == b:
                raise AnalysisBroken('nowrap: undecided comparison on the singleton cell %d in %s' % (a, f.id[:100]))
            at = s.at if s.at is not None and a < s.at <= b else (a + (b - a + 1) // 2)
            work.append((at, b))
            work.append((a, at - 1))
            continue
        final.append([a, b, _sig(paths), paths, hit, cell])
    final.sort(key=lambda c: c[0])
    merged = []
    for c in final:
        if merged and merged[-1][2] == c[2] and merged[-1][1] + 1 == c[0]:
            try:
                cell, paths, hit = _run(prog, f, merged[-1][0], c[1], setup, primitive_hook, body, max_depth, False)
                if _sig(paths) == c[2]:
                    merged[-1] = [merged[-1][0], c[1], c[2], paths, hit, cell]
                    continue
            except Split:
                pass
        merged.append(c)
    out = []
    for a, b, sig, paths, hit, cell in merged:
        if not hit:
            out.append((cell, paths))
            continue
        sub = [(a, b)]
        k = 0
        while sub:
            x, y = sub.pop()
            k += 1
            if k > 400:
                raise AnalysisBroken('nowrap: cell [%d, %d] of %s keeps splitting in the value-by-value pass' % (a, b, f.id[:100]))
            try:
                cell2, paths2, _ = _run(prog, f, x, y, setup, primitive_hook, body, max_depth, True)
            except Split as s:
                if x == y:
                    raise AnalysisBroken('nowrap: undecided comparison on the singleton cell %d in %s' % (x, f.id[:100]))
                at = s.at if s.at is not None and x < s.at <= y else (x + (y - x + 1) // 2)
                sub.append((at, y))
                sub.append((x, at - 1))
                continue
            out.append((cell2, paths2))
    out.sort(key=lambda cp: cp[0].lo)
    return out
