"""The DOM adapters parse memory input and stream input with the same parser options (C10 R10.18).

RapidJsonRootScope and PugiXmlRootScope each have one constructor per input kind; both hand the whole document to the third-party parser,
so the only way the two load paths can differ is the option set given to it: RapidJSON's parse flags are a template argument of
Parse / ParseStream / ParseInsitu (the non-template overloads use kParseDefaultFlags), pugixml's are the `options` argument of
load_buffer / load / load_string (default pugi::parse_default). The rule evaluates both (the extractor records constant values and the
instantiated template arguments) and requires them to be equal. The source-encoding argument is deliberately different (a std::string is
UTF-8 by contract, a stream is detected) and is not compared."""
import re
from bsv.dtab import AnalysisBroken

CALLS = ('CallExpr', 'CXXMemberCallExpr')
JSON_PARSERS = ('Parse', 'ParseStream', 'ParseInsitu')
XML_PARSERS = {'load_buffer': 2, 'load_buffer_inplace': 2, 'load_buffer_inplace_own': 2, 'load': 1, 'load_string': 1, 'load_file': 1}


def _first_targ(t):
    depth = 0
    for i, ch in enumerate(t):
        if ch in '<(':
            depth += 1
        elif ch in '>)':
            depth -= 1
        elif ch == ',' and depth == 0:
            return t[:i].strip()
    return t.strip()


def _const(n):
    while n is not None and 'cv' not in n and n.get('c') and n['k'] in ('ImplicitCastExpr', 'ParenExpr', 'CXXDefaultArgExpr', 'CXXStaticCastExpr',
                                                                       'CXXFunctionalCastExpr', 'ConstantExpr'):
        n = n['c'][0]
    return n.get('cv') if n is not None else None


def check(prog, rep, rule):
    rep.rule(rule, 'JSON and XML adapters: the memory-input and the stream-input constructor of the root scope give the third-party parser the '
                   'same option set (RapidJSON parse flags, pugixml parse options) and validate the bytes of strings alike', floor=3)
    dflt = None
    for f in prog.funcs.values():
        if f.name == 'witness_rapidjson_default_parse_flags' and f.body is not None:
            for n in f.walk():
                if n['k'] == 'DeclRefExpr' and n.get('q') == 'rapidjson::kParseDefaultFlags' and 'cv' in n:
                    dflt = n['cv']
    vflag = None
    for f in prog.funcs.values():
        if f.name == 'witness_rapidjson_validate_encoding_flag' and f.body is not None:
            for n in f.walk():
                if n['k'] == 'DeclRefExpr' and n.get('q') == 'rapidjson::kParseValidateEncodingFlag' and 'cv' in n:
                    vflag = n['cv']
    validates = {}
    sides = {'json': {}, 'xml': {}}
    for f in sorted(prog.funcs.values(), key=lambda g: g.id):
        if f.body is None or f.name not in ('RapidJsonRootScope', 'PugiXmlRootScope') or not f.params:
            continue
        kind = 'json' if f.name == 'RapidJsonRootScope' else 'xml'
        p0 = f.type(f.params[0])
        side = 'stream' if 'istream' in p0 else 'memory' if ('string_view' in p0 or 'basic_string' in p0) and 'const' in p0 else None
        if side is None:
            continue
        for n in f.walk():
            if n['k'] not in CALLS:
                continue
            c = f.callee(n)
            if c is None:
                continue
            q = c.get('q') or c.get('id', '')
            if kind == 'json' and c.get('n') in JSON_PARSERS and 'rapidjson::GenericDocument' in c.get('id', ''):
                ta = c.get('targs')
                if ta:
                    v = _first_targ(ta)
                    m = re.match(r'^(\d+)[uUlL]*$', v)
                    val = int(m.group(1)) if m else v
                else:
                    val = dflt
                    if val is None:
                        rep.defer_broken('%s: the value of rapidjson::kParseDefaultFlags is not in the facts (witness_rapidjson_default_parse_flags)' % rule)
                        val = 'kParseDefaultFlags'
                sides[kind].setdefault(side, []).append((f, n, c.get('n'), val))
                # are the bytes of a string checked to be well-formed? RapidJSON validates when it transcodes (source encoding given as a
                # template argument different from the document's) or when kParseValidateEncodingFlag is set; parsing UTF8 -> UTF8 with the
                # default flags copies the bytes unchecked
                doc_enc = re.search(r'GenericDocument<([^>]*(?:<[^>]*>)?)', c.get('id', ''))
                src_enc = None
                if ta:
                    parts = []
                    depth_, cur_ = 0, ''
                    for ch in ta:
                        if ch in '<(':
                            depth_ += 1
                        elif ch in '>)':
                            depth_ -= 1
                        if ch == ',' and depth_ == 0:
                            parts.append(cur_.strip())
                            cur_ = ''
                        else:
                            cur_ += ch
                    parts.append(cur_.strip())
                    if len(parts) > 1 and parts[1].startswith('rapidjson::') and 'Stream' not in parts[1]:
                        src_enc = parts[1]
                transcodes = src_enc is not None and doc_enc is not None and src_enc.replace(' ', '') != doc_enc.group(1).replace(' ', '')
                flagged = isinstance(val, int) and vflag is not None and bool(val & vflag)
                validates[side] = (transcodes or flagged, f, n, 'transcoding %s -> %s' % (src_enc, doc_enc.group(1)) if transcodes else
                                   ('kParseValidateEncodingFlag' if flagged else 'same encoding, default flags: bytes copied unchecked'))
            elif kind == 'xml' and c.get('n') in XML_PARSERS and 'pugi::xml_document' in c.get('id', ''):
                args = [a for a in n.get('c', [])][1:]   # c[0] is the callee expression
                idx = XML_PARSERS[c['n']]
                val = _const(args[idx]) if len(args) > idx else None
                if val is None:
                    rep.defer_broken('%s: the options argument of %s at %s is not a constant the rule can evaluate' % (rule, c['n'], f.loc(n)))
                    continue
                sides[kind].setdefault(side, []).append((f, n, c['n'], val))
    if vflag is None:
        rep.defer_broken('%s: the value of rapidjson::kParseValidateEncodingFlag is not in the facts (witness)' % rule)
    elif 'memory' in validates and 'stream' in validates:
        (vm, fm_, nm_, wm), (vs, fs_, ns_, ws) = validates['memory'], validates['stream']
        if vm == vs:
            rep.ok(rule, 'json|string bytes validated alike (%s)' % ('both' if vm else 'neither'), sample={'memory': wm, 'stream': ws})
        else:
            rep.finding(rule, 'json|string encoding validated for %s input only' % ('memory' if vm else 'stream'), (fs_ if vs else fm_).loc(ns_ if vs else nm_),
                        'json adapter: ill-formed UTF-8 inside a string is %s when the document comes from memory (%s) and %s when it comes from a '
                        'stream (%s): the same document loads from one kind of input and is a parsing error from the other'
                        % ('refused' if vm else 'accepted', wm, 'refused' if vs else 'accepted', ws), func=(fs_ if vs else fm_).id)
    for kind, d in sides.items():
        if 'memory' not in d or 'stream' not in d:
            raise AnalysisBroken('%s: %s adapter: parser call of the %s constructor not found' % (rule, kind, 'memory' if 'memory' not in d else 'stream'))
        mv = sorted(set(str(x[3]) for x in d['memory']))
        sv = sorted(set(str(x[3]) for x in d['stream']))
        fm, nm = d['memory'][0][0], d['memory'][0][1]
        fs, ns = d['stream'][0][0], d['stream'][0][1]
        rep.touch(fm)
        rep.touch(fs)
        if mv == sv and len(mv) == 1:
            rep.ok(rule, '%s|memory %s and stream %s parse with options %s' % (kind, d['memory'][0][2], d['stream'][0][2], mv[0]),
                   sample={'memory': fm.loc(nm), 'stream': fs.loc(ns), 'options': mv[0]})
        else:
            rep.finding(rule, '%s|memory and stream constructors parse with different options' % kind, fm.loc(nm),
                        '%s adapter: the memory constructor calls %s with options %s (%s), the stream constructor %s with options %s (%s): the same '
                        'document is parsed by different rules depending on how it is supplied' % (kind, d['memory'][0][2], '/'.join(mv), fm.loc(nm),
                                                                                                   d['stream'][0][2], '/'.join(sv), fs.loc(ns)), func=fm.id)
