"""C05 - a skipped value never disturbs the loading of its neighbours (structural clauses)."""
from bsv.cfg import CFG
from bsv.facts import AnalysisBroken, strip, strip_targs, child
from rules.c20 import pattern_in_lib

PROP = 'C05'
LEVEL = 'other'
EXPLANATION = ('R5.1: in the MsgPack array and binary read scopes, on every normal (non-throwing) path of every method the number of '
               'reader calls that consume one element equals the number of increments of the element counter - so a value skipped by '
               'policy keeps the counter in step with the reader position. R5.2: JSON/XML array scopes fetch the next element exactly '
               'once per request, before any type test. R5.3: every MsgPack reader method, for every first byte outside its accept set, '
               'performs the mismatch protocol (throw, or skip exactly one value) and returns false - both reader copies (decision '
               'tables over all 256 first bytes). R5.4: a failed binary-scope attempt is not followed by a second consuming attempt. '
               'Not decided: the values of neighbours for every document.')
ASSUMPTIONS = ['a normal return of a reader method has consumed exactly one value whatever bool it returns (checked by R7.4 / R5.3)',
               'paths are enumerated on clang CFGs with each loop unrolled once']
TRUSTED = ['clang 14 AST/CFG', 'bsfacts']

CONSUMING = {'ReadValue', 'ReadArraySize', 'ReadMapSize', 'ReadBinarySize', 'ReadBinary', 'SkipValue'}
MSGPACK_ARRAY_SCOPES = ('BitSerializer::MsgPack::Detail::CMsgPackReadArrayScope', 'BitSerializer::MsgPack::Detail::CMsgPackReadBinaryScope')


def is_reader_consume(f, n):
    if n['k'] != 'CXXMemberCallExpr':
        return False
    s = f.callee(n)
    if s is None or s['n'] not in CONSUMING:
        return False
    cq = s.get('clsq', '')
    return cq.endswith('IMsgPackReader') or cq.endswith('CMsgPackStringReader') or cq.endswith('CMsgPackStreamReader')


def is_index_increment(f, n, field='mIndex'):
    if n['k'] == 'UnaryOperator' and n.get('op') == '++':
        t = strip(n['c'][0])
        return t is not None and t['k'] == 'MemberExpr' and t.get('m') == field
    if n['k'] == 'CompoundAssignOperator' and n.get('op') == '+=':
        t = strip(n['c'][0])
        return t is not None and t['k'] == 'MemberExpr' and t.get('m') == field and n['c'][1].get('cv') == 1
    return False


def base_type_name(t):
    t = t.strip()
    for q in ('const ', 'volatile '):
        while t.startswith(q):
            t = t[len(q):]
    return t.rstrip('&* ').strip()


def type_test_says_binary(prog, f, cond, taken_true, depth=0):
    """does this branch of the condition mean `the next value is classified BinaryArray`? Read through negations, named temporaries and a
    helper of the same class whose body is `return <reader>->ReadValueType() ==/!= <parameter>;` called with ValueType::BinaryArray."""
    from bsv.expr import resolve
    e = resolve(f, cond)
    pol = taken_true
    while e is not None and e['k'] == 'UnaryOperator' and e.get('op') == '!':
        pol = not pol
        e = resolve(f, e['c'][0])
    if e is None:
        return False
    if e['k'] in ('BinaryOperator', 'CXXOperatorCallExpr') and e.get('op') in ('==', '!='):
        calls_vt = any(x['k'] == 'CXXMemberCallExpr' and (f.callee(x) or {}).get('n') == 'ReadValueType' for x in f.walk(e))
        names_bin = any(x['k'] == 'DeclRefExpr' and x.get('n') == 'BinaryArray' for x in f.walk(e))
        if calls_vt and names_bin:
            return pol if e['op'] == '==' else not pol
        return False
    if e['k'] == 'CXXMemberCallExpr' and depth == 0:
        c = f.callee(e) or {}
        h = prog.funcs.get(c.get('id'))
        if h is None or h.body is None or c.get('cls') != f.cls or not h.params:
            return False
        if not any(x['k'] == 'DeclRefExpr' and x.get('n') == 'BinaryArray' for a in e.get('c', [])[1:] for x in f.walk(a)):
            return False
        rets = [x for x in h.walk() if x['k'] == 'ReturnStmt']
        if len(rets) != 1 or not rets[0].get('c'):
            return False
        r = resolve(h, rets[0]['c'][0])
        neg = False
        while r is not None and r['k'] == 'UnaryOperator' and r.get('op') == '!':
            neg = not neg
            r = resolve(h, r['c'][0])
        if r is None or r['k'] not in ('BinaryOperator', 'CXXOperatorCallExpr') or r.get('op') not in ('==', '!='):
            return False
        calls_vt = any(x['k'] == 'CXXMemberCallExpr' and (h.callee(x) or {}).get('n') == 'ReadValueType' for x in h.walk(r))
        uses_param = any(x['k'] == 'DeclRefExpr' and x.get('d') == h.params[0]['d'] for x in h.walk(r))
        if not (calls_vt and uses_param):
            return False
        helper_true_means_binary = (r['op'] == '==') != neg
        return pol == helper_true_means_binary
    return False


class Deltas(object):
    """(consumed, counted) per normal path, with same-class helper methods inlined."""

    def __init__(self, prog):
        self.prog = prog
        self.memo = {}

    def of(self, f, depth=0):
        if f.id in self.memo:
            return self.memo[f.id]
        if depth > 4:
            raise AnalysisBroken('helper recursion too deep at %s' % f.id)
        self.memo[f.id] = set()  # recursion guard
        g = CFG(f)
        out = {}
        for path, dec, kind in g.paths():
            if kind != 'return':
                continue
            opts = [(0, 0, [])]
            for n in g.path_nodes(path):
                if is_reader_consume(f, n):
                    opts = [(c + 1, i, tr + ['consume:%s@%d' % (f.callee(n)['n'], n['l'])]) for c, i, tr in opts]
                elif is_index_increment(f, n):
                    opts = [(c, i + 1, tr + ['++mIndex@%d' % n['l']]) for c, i, tr in opts]
                elif n['k'] == 'CXXMemberCallExpr':
                    s = f.callee(n)
                    if s is not None and s.get('cls') == f.cls and s['id'] in self.prog.funcs and s['id'] != f.id:
                        sub = self.of(self.prog.funcs[s['id']], depth + 1)
                        if sub:
                            opts = [(c + dc, i + di, tr + t2) for c, i, tr in opts for (dc, di), t2 in sub.items()]
            for c, i, tr in opts:
                out.setdefault((c, i), tr)
        self.memo[f.id] = out
        return out


def run(prog, rep):
    from rules import fresh_carrier
    fresh_carrier.check(prog, rep, 'R5.10')
    # ---------------------------------------------------------------- R5.9 an integer the target cannot hold reaches the overflow policy
    rep.rule('R5.9', 'MsgPack readers, integer targets: for every integer-family first byte the wire value is either a constant the target holds '
                     'exactly or it is delivered through the policy mapper (ConvertByPolicy) - never stored by a bare cast - so an offending value is '
                     'skipped by policy: reported as not loaded, target untouched (table shared with C04 R4.7 / C07 R7.1)', floor=3000)
    rep.rule('R5.9x', 'MsgPack readers, integer targets: the cursor ends behind the value whether it is stored or skipped by the overflow policy',
             floor=3000)
    from rules import msgpack_tables as _M
    _M.check_accept_tables(prog, rep, 'R5.9', 'R5.9x', families=('int',), declare=False, value_types=False)
    rep.rule('R5.6', 'MsgPack object scope: a value that was skipped or refused is accounted for like a loaded one - on every normal path of every '
                     'method the values consumed equal the cursor advances, the pending key is dropped (shared with C03 R3.5 / C07 R7.5)', floor=20)
    from rules import c03
    c03.check_object_scope(prog, rep, 'R5.6')
    rep.rule('R5.1', 'MsgPack array/binary read scope: on every normal path #(reader calls consuming one element) == #(++mIndex)', floor=12)
    rep.rule('R5.2', 'JSON/XML array scope load paths call LoadNextItem() exactly once, before any type test of the element', floor=10)
    rep.rule('R5.4', 'byte-container loading: the array attempt after a failed OpenBinaryScope sees the same value - every failing path of the scope\'s '
                     'OpenBinaryScope consumes nothing (no reader advance, no ++mIndex, pending key kept) - otherwise a second attempt consumes a neighbour', floor=6)
    deltas = Deltas(prog)
    # ---------------------------------------------------------------- R5.1
    n_methods = 0
    for f in sorted(prog.funcs.values(), key=lambda x: x.id):
        if strip_targs(f.cls) not in MSGPACK_ARRAY_SCOPES:
            continue
        if f.sym['kind'] in ('ctor', 'dtor') or f.name in ('GetPath',):
            continue
        rep.touch(f)
        d = deltas.of(f)
        if not d:
            continue
        n_methods += 1
        bad = {k: v for k, v in d.items() if k[0] != k[1]}
        site = '%s|%s' % (f.pq, f.sym.get('targs', ''))
        if not bad:
            rep.ok('R5.1', site, sample={'method': f.pq, 'at': f.loc(), 'path_deltas': sorted(d)}, nontrivial=any(k != (0, 0) for k in d))
        else:
            for (c, i), tr in sorted(bad.items()):
                rep.finding('R5.1', '%s|consumed=%d,counted=%d' % (f.pq, c, i), f.loc(),
                            '%s has a normal path that consumes %d element(s) from the reader but increments mIndex %d time(s): '
                            'after a value skipped by policy every following element is read at the wrong index' % (f.pq, c, i),
                            {'path_events': tr, 'instantiation': f.id}, func=f.id)

    # ---------------------------------------------------------------- R5.2
    for f in sorted(prog.funcs.values(), key=lambda x: x.id):
        cls = strip_targs(f.cls)
        if cls not in ('BitSerializer::Json::RapidJson::Detail::RapidJsonArrayScope', 'BitSerializer::Xml::PugiXml::Detail::PugiXmlArrayScope'):
            continue
        if f.name not in ('SerializeValue', 'OpenObjectScope', 'OpenArrayScope', 'OpenBinaryScope'):
            continue
        if 'SerializeMode::Load' not in f.cls:
            continue
        rep.touch(f)
        g = CFG(f)
        counts = set()
        for path, dec, kind in g.paths():
            if kind != 'return':
                continue
            c = 0
            for n in g.path_nodes(path):
                if n['k'] == 'CXXMemberCallExpr':
                    s = f.callee(n)
                    if s is not None and s['n'] == 'LoadNextItem':
                        c += 1
            counts.add(c)
        site = '%s|%s' % (f.pq, f.sym.get('targs', ''))
        if counts == {1}:
            rep.ok('R5.2', site, sample={'method': f.pq, 'at': f.loc(), 'LoadNextItem_calls_per_normal_path': sorted(counts)})
        else:
            rep.finding('R5.2', '%s|LoadNextItem x %s' % (f.pq, sorted(counts)), f.loc(),
                        '%s advances the element iterator %s time(s) on some normal path (must be exactly once per request)' % (f.pq, sorted(counts)),
                        func=f.id)

    # ---------------------------------------------------------------- R5.4
    # how does the read-side OpenBinaryScope of each MsgPack scope fail? A failing (nullopt) path is 'consuming' when it calls a consuming
    # reader method, increments mIndex or finishes the pending key. A path taken with the value classified BinaryArray cannot fail in
    # ReadBinarySize: the decision tables say ReadBinarySize returns true (or throws) for every first byte ReadValueType classifies so.
    from rules import msgpack_tables as _T
    bin_true = True
    try:
        tabs = _T.tables(prog)
        vt = prog.enums.get('BitSerializer::MsgPack::Detail::ValueType')
        for kind in sorted(tabs):
            fvt, _, pvt = tabs[kind][('ReadValueType', None)]
            rbs = [v for (nm, pt), v in tabs[kind].items() if nm == 'ReadBinarySize']
            if not rbs or vt is None:
                bin_true = False
                continue
            _, _, pbs = rbs[0]
            for bcode in range(256):
                rets = set(p.outcome[1] for p in pvt[bcode] if _T.sufficient(p) and p.outcome[0] == 'RET')
                if vt['items']['BinaryArray'] in rets:
                    for p in pbs[bcode]:
                        if _T.sufficient(p) and p.outcome[0] == 'RET' and p.outcome[1] != 1:
                            bin_true = False
    except (AnalysisBroken, KeyError):
        bin_true = False
    fail_mode = {}      # scope class (without template arguments) -> (consuming?, evidence)
    for f in sorted(prog.funcs.values(), key=lambda x: x.id):
        if f.name != 'OpenBinaryScope' or f.body is None or 'MsgPackRead' not in (f.cls or ''):
            continue
        g = CFG(f)
        consuming, quiet = [], 0
        for path, dec, kind in g.paths():
            if kind != 'return':
                continue
            nodes = list(g.path_nodes(path))
            rets = [n for n in nodes if n['k'] == 'ReturnStmt']
            if not rets or not any(x['k'] == 'DeclRefExpr' and x.get('n') == 'nullopt' for x in f.walk(rets[-1])):
                continue
            typed_bin = False
            for cid, idx, tk in dec:
                c = f.node(cid) if isinstance(cid, int) else None
                if c is None:
                    continue
                if type_test_says_binary(prog, f, c, idx == 0):
                    typed_bin = True
            ev = []
            for n in nodes:
                if is_reader_consume(f, n):
                    ev.append('%s@%d' % (f.callee(n)['n'], n['l']))
                elif is_index_increment(f, n):
                    ev.append('++mIndex@%d' % n['l'])
                elif n['k'] == 'CXXMemberCallExpr' and (f.callee(n) or {}).get('n') in ('OnFinishChildScope', 'ResetKey', 'Reset'):
                    ev.append('%s@%d' % (f.callee(n)['n'], n['l']))
            if typed_bin and bin_true and any(e.startswith('ReadBinarySize') for e in ev):
                continue        # infeasible: ReadBinarySize does not fail for a value classified BinaryArray
            if ev:
                consuming.append(ev)
            else:
                quiet += 1
        cls = strip_targs(f.cls)
        prev = fail_mode.get(cls)
        if prev is None or (consuming and not prev[0]):
            fail_mode[cls] = (bool(consuming), consuming[0] if consuming else ['%d failing path(s), none consumes' % quiet], f)
    for f in sorted(prog.funcs.values(), key=lambda x: x.id):
        if f.pq != 'BitSerializer::Serialize' or not pattern_in_lib(f):
            continue
        if 'MsgPackRead' not in f.id.split('|')[1]:
            continue
        g = CFG(f)
        opens = []
        for path, dec, kind in g.paths():
            seq = []
            for n in g.path_nodes(path):
                if n['k'] == 'CXXMemberCallExpr':
                    sy = f.callee(n)
                    if sy is not None and sy['n'] in ('OpenBinaryScope', 'OpenArrayScope', 'OpenObjectScope'):
                        if not seq or seq[-1] != sy['n']:
                            seq.append(sy['n'])
            if len(seq) > 1:
                opens.append(seq)
        if not any(n['k'] == 'CXXMemberCallExpr' and (f.callee(n) or {}).get('n') == 'OpenBinaryScope' for n in f.walk()):
            continue
        rep.touch(f)
        keyed = len(f.params) == 3
        site = '%s|%s' % (f.pq, 'keyed' if keyed else 'unkeyed')
        what = 'C array' if '[' in f.tu['types'][f.params[-1]['t']] else 'container'
        site += '|' + what
        scope_cls = strip_targs(base_type_name(f.tu['types'][f.params[0]['t']]))
        fm = fail_mode.get(scope_cls)
        if fm is None:
            rep.defer_broken('R5.4: no OpenBinaryScope of %s in the facts' % scope_cls)
            continue
        if not opens:
            rep.ok('R5.4', site, sample={'function': f.id[:160], 'reason': 'one attempt only'})
        elif not fm[0]:
            rep.ok('R5.4', site, sample={'function': f.id[:160], 'scope': scope_cls,
                                         'reason': 'OpenBinaryScope fails without consuming (%s): the array attempt reads the same value and applies the policy once' % fm[1][0]})
        elif not keyed:
            rep.finding('R5.4', site, f.loc(),
                        'loading a byte %s from a MsgPack array/root: when OpenBinaryScope fails (value already skipped by policy) OpenArrayScope is attempted '
                        'and consumes the NEXT value' % what, {'sequence': opens[0], 'instantiation': f.id, 'consuming failure of OpenBinaryScope': fm[1]}, func=f.id)
        else:
            # keyed: the object scope's second lookup re-finds the same key (wrap-around scan) and re-reads the same value - provided the key
            # object is the caller's own. The map loaders pass the reference VisitKeys gave them: the scope's current-key slot, which the
            # rescan overwrites with the NEXT key, so the comparison is the slot with itself and the next entry's value is consumed.
            kt = f.tu['types'][f.params[1]['t']].strip()
            own = kt.startswith('const ') or '[' in kt or kt.endswith('*')
            if own:
                rep.ok('R5.4', site, sample={'function': f.id[:160], 'key': kt,
                                             'reason': 'keyed second attempt looks the key up again: same value, no neighbour consumed'})
            else:
                site += '|archive key slot'
                rep.finding('R5.4', site, f.loc(),
                            'loading a byte %s as the value of a MsgPack map entry through the map loader: the key argument (%s) is the scope\'s own '
                            'current-key slot; when OpenBinaryScope fails (value already skipped by policy) OpenArrayScope looks the key up again, the '
                            'rescan reads the NEXT key into that slot, the slot compares equal to itself and the next entry\'s value is consumed under '
                            'this key' % (what, kt), {'sequence': opens[0], 'instantiation': f.id}, func=f.id)

    # ---------------------------------------------------------------- R5.3 (decision tables) lives in rules/msgpack_tables.py
    try:
        from rules import msgpack_tables
    except ImportError:
        msgpack_tables = None
    if msgpack_tables is not None:
        msgpack_tables.check_mismatch_protocol(prog, rep)
        rep.rule('R5.5', 'the skip primitive (SkipValueImpl, both readers) advances by exactly one value for every first byte: '
                         '1 + length-field + payload bytes and count (x2 for maps) nested values', floor=512)
        msgpack_tables.check_skip_extent(prog, rep, 'R5.5')
        rep.rule('R5.7', 'the skip primitive and the readers keep every header-declared length in an integer object wide enough for its length '
                         'field: the extent skipped is the declared one for payloads of every size', floor=20)
        msgpack_tables.narrow_findings(prog, rep, 'R5.7')
        rep.rule('R5.8', 'ReadExtSize (both reader copies): the length field of k = 1, 2, 4 bytes is read once, unsigned, and returned', floor=6)
        msgpack_tables.check_ext_size(prog, rep, 'R5.8')
