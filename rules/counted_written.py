"""A field that was counted is written (C06 R6.9).

The map header of a MsgPack object is written from FieldsCountVisitor before the fields: every `archive << KeyValue(key, value)` counts one
entry. The keyed Serialize overloads of the library (fundamental types, strings, containers, the std adapters) are what such an entry expands
to on the real archive. On the save side each of them must, on every normal path, hand the key to the archive exactly as one entry: a call
that passes `key` on to SerializeValue / Serialize / SerializeString / Open*Scope. A path that returns without doing so (a conversion that
failed under a Skip policy) leaves the map one entry short of its header and the document is malformed."""
from bsv.cfg import CFG
from bsv.dtab import AnalysisBroken

WRITERS = ('SerializeValue', 'Serialize', 'SerializeString', 'OpenObjectScope', 'OpenArrayScope', 'OpenBinaryScope', 'OpenAttributeScope')


def check(prog, rep, rule):
    from rules.c19 import is_save_instantiation
    from rules.c20 import pattern_in_lib
    rep.rule(rule, 'save side, MsgPack object scope: every normal path of a keyed Serialize overload passes the key on to the archive exactly once '
                   '(the entry FieldsCountVisitor counted is written)', floor=12)
    seen = {}
    for f in sorted(prog.funcs.values(), key=lambda g: g.id):
        if f.body is None or f.name != 'Serialize' or not pattern_in_lib(f) or not is_save_instantiation(f) or not f.cfg:
            continue
        if len(f.params) != 3 or f.params[1].get('n') != 'key':
            continue
        if 'CMsgPackWriteObjectScope' not in f.type(f.params[0]):
            continue
        key_d = f.params[1]['d']
        try:
            g = CFG(f)
            paths = g.paths(max_paths=4000)
        except AnalysisBroken:
            continue
        counts = {}
        # ConvertByPolicy with both policies fixed to ThrowError returns true or throws (C04 R4.2 / R4.5 decide the mapper): its false
        # branch is not a path
        never_false = set()
        for n in f.walk():
            if n['k'] == 'CallExpr' and (f.callee(n) or {}).get('n') == 'ConvertByPolicy':
                args = n.get('c', [])[1:]
                pol = [a for a in args if 'Policy' in f.type(a)]
                if len(pol) == 2 and all(any(x['k'] == 'DeclRefExpr' and x.get('n') == 'ThrowError' and x.get('dk') == 'EnumConstant' for x in f.walk(a)) for a in pol):
                    never_false.add(n['i'])
        # ... also when the call is wrapped in a local closure `[&]{ return ConvertByPolicy(..., ThrowError, ThrowError); }` or held in a
        # named bool
        from bsv.expr import resolve as _resolve
        from bsv.facts import strip as _strip

        def is_never_false(g, e, depth=0):
            e = _resolve(g, e) if e is not None else None
            if e is None:
                return False
            if e['i'] in never_false and g is f:
                return True
            if e['k'] == 'CallExpr' and (g.callee(e) or {}).get('n') == 'ConvertByPolicy':
                pol = [a for a in e.get('c', [])[1:] if 'Policy' in g.type(a)]
                return len(pol) == 2 and all(any(x['k'] == 'DeclRefExpr' and x.get('n') == 'ThrowError' and x.get('dk') == 'EnumConstant'
                                                 for x in g.walk(a)) for a in pol)
            if e['k'] in ('CXXOperatorCallExpr', 'CallExpr', 'CXXMemberCallExpr') and depth < 2:
                c = g.callee(e) or {}
                h = prog.funcs.get(c.get('id'))
                if h is not None and h.body is not None and (c.get('kind') == 'lambda' or h.sym.get('kind') == 'lambda'):
                    rets = [x for x in h.walk() if x['k'] == 'ReturnStmt']
                    return bool(rets) and all(x.get('c') and is_never_false(h, x['c'][0], depth + 1) for x in rets)
            return False
        for path, dec, kind in paths:
            if kind != 'return':
                continue
            infeasible = False
            for cid, idx, tk in dec:
                c = f.node(cid) if isinstance(cid, int) else None
                if c is not None and idx == 1 and is_never_false(f, c):
                    infeasible = True
            if infeasible:
                continue
            n_w = 0
            where = None
            seen_calls = set()
            for n in g.path_nodes(path):
                if n['k'] in ('CallExpr', 'CXXMemberCallExpr') and n['i'] not in seen_calls:
                    c = f.callee(n)
                    if c is not None and c.get('n') in WRITERS and any(x['k'] == 'DeclRefExpr' and x.get('d') == key_d for a in n.get('c', [])[1:] for x in f.walk(a)):
                        seen_calls.add(n['i'])
                        n_w += 1
                if n['k'] == 'ReturnStmt':
                    where = n
            counts.setdefault(n_w, where)
        vt = f.type(f.params[2])
        k = (f.relfile, f.body['l'])
        st = seen.setdefault(k, {'f': f, 'bad': None, 'types': set()})
        st['types'].add(vt[:60])
        bad = {c: w for c, w in counts.items() if c == 0}
        if bad and st['bad'] is None:
            st['bad'] = (f, bad[0], vt)
    if len(seen) < 5:
        raise AnalysisBroken('%s: fewer than 5 keyed Serialize overloads instantiated for the MsgPack write object scope (%d)' % (rule, len(seen)))
    for k, st in sorted(seen.items()):
        f = st['f']
        rep.touch(f)
        site = 'Serialize(key, ...)@%s:%d' % (k[0].rsplit('/', 1)[-1], k[1])
        if st['bad'] is None:
            rep.ok(rule, site, sample={'at': f.loc(), 'value types': sorted(st['types'])[:4]})
        else:
            bf, w, vt = st['bad']
            rep.finding(rule, '%s|entry counted but not written' % site, bf.loc(w) if w is not None else bf.loc(),
                        'keyed Serialize for %s (save side, MsgPack object scope) has a normal path that returns without passing the key to the archive: '
                        'the entry was counted for the map header but is not written - the document declares more entries than it holds' % vt,
                        {'instantiation': bf.id[:200]}, func=bf.id)
