"""Sequence loaders executed abstractly over a small container model (C18 R18.3).

The target is a list of nodes (a node keeps its identity when others are inserted, as the iterators of list / forward_list do); the archive
holds n items and reports an estimated size e (0 = unknown, n, or more than n). Cells: prior size x n x e. Expected for every cell: the
target ends as exactly the n loaded items, in the order of the archive, whatever it held before. What the loader touches is only the
container interface (begin/end/iteration, resize, emplace_back, emplace_after, ...), so the cells cover the orderings prior<n, prior=n,
prior>n, empty/non-empty and known/unknown/over-estimated size, which is all the loaders distinguish."""
from bsv.dtab import TOP, Interp, Model, Sym
from bsv.facts import AnalysisBroken, strip, strip_targs


class Node(object):
    __slots__ = ('val',)

    def __init__(self, val):
        self.val = val


class It(object):
    """iterator: node (None = end), or before-begin"""
    __slots__ = ('node', 'before')

    def __init__(self, node, before=False):
        self.node = node
        self.before = before


class Ref(object):
    __slots__ = ('node',)

    def __init__(self, node):
        self.node = node


class SeqModel(Model):
    unroll_loops = True

    def __init__(self, cont_decl, scope_decl, prior, n, est):
        self.cont_decl = cont_decl
        self.scope_decl = scope_decl
        self.L = [Node('old%d' % i) for i in range(prior)]
        self.n = n
        self.est = est
        self.c = 0
        self.bad = None
        self.over = False

    # ---------------------------------------------------------------- helpers
    def is_cont(self, fr, e):
        e = strip(e)
        return e is not None and e['k'] == 'DeclRefExpr' and e.get('d') == self.cont_decl

    def is_scope(self, fr, e):
        e = strip(e)
        return e is not None and e['k'] == 'DeclRefExpr' and e.get('d') == self.scope_decl

    def next_of(self, itv):
        if itv.before:
            return It(self.L[0] if self.L else None)
        if itv.node is None:
            self.bad = self.bad or 'increments the end iterator'
            return It(None)
        i = self.index(itv.node)
        return It(self.L[i + 1] if i + 1 < len(self.L) else None)

    def index(self, node):
        for i, x in enumerate(self.L):
            if x is node:
                return i
        self.bad = self.bad or 'uses an iterator of an element that was removed'
        return len(self.L) - 1

    def take(self):
        if self.c >= self.n:
            self.over = True
            self.bad = self.bad or 'reads an item after the archive scope reported its end'
            return 'd?'
        t = 'd%d' % self.c
        self.c += 1
        return t

    # ---------------------------------------------------------------- model interface
    def initial_store(self, it, key):
        return TOP

    def compare(self, it, fr, n, op, a, b):
        if isinstance(a, It) and isinstance(b, It) and op in ('==', '!='):
            same = a.node is b.node and a.before == b.before
            return 1 if same == (op == '==') else 0
        raise AnalysisBroken('R18.3: comparison outside the container model at %s' % fr.f.loc(n))

    def deref(self, it, fr, n, v):
        if isinstance(v, It):
            if v.node is None or v.before:
                self.bad = self.bad or 'dereferences the end / before-begin iterator'
                return TOP
            return Ref(v.node)
        return TOP

    def construct(self, it, fr, n, depth):
        vals = [it.ev(fr, a, depth) for a in n.get('c', ())]
        return vals[0] if len(vals) == 1 else TOP

    def store_through(self, it, fr, lhs, v, depth):
        tgt = it.ev(fr, lhs, depth)
        if isinstance(tgt, Ref):
            tgt.node.val = v if isinstance(v, str) else getattr(v, 'val', v)

    def primitive(self, it, fr, n, callee, depth):
        name = callee['n']
        obj, args = it.call_args(fr, n)
        operands = ([obj] if obj is not None else []) + list(args)
        if obj is not None and self.is_scope(fr, obj):
            if name == 'IsEnd':
                return 1 if self.c >= self.n else 0
            if name == 'GetEstimatedSize':
                return self.est
            return TOP
        if obj is not None and self.is_cont(fr, obj):
            L = self.L
            if name in ('begin', 'cbegin'):
                return It(L[0] if L else None)
            if name in ('end', 'cend'):
                return It(None)
            if name in ('before_begin', 'cbefore_begin'):
                return It(None, before=True)
            if name == 'size':
                return len(L)
            if name == 'empty':
                return 1 if not L else 0
            if name == 'clear':
                del L[:]
                return TOP
            if name == 'resize':
                k = it.ev(fr, args[0], depth)
                if not isinstance(k, int):
                    raise AnalysisBroken('R18.3: resize() with a size outside the model at %s' % fr.f.loc(n))
                if k < len(L):
                    del L[k:]
                else:
                    L.extend(Node('new') for _ in range(k - len(L)))
                return TOP
            if name in ('reserve', 'shrink_to_fit'):
                for a in args:
                    it.ev(fr, a, depth)
                return TOP
            if name in ('emplace_back', 'push_back'):
                v = it.ev(fr, args[0], depth) if args else 'new'
                node = Node(v if isinstance(v, str) else getattr(v, 'val', 'new') if v is not TOP else 'new')
                L.append(node)
                return Ref(node)
            if name in ('emplace_front', 'push_front'):
                v = it.ev(fr, args[0], depth) if args else 'new'
                node = Node(v if isinstance(v, str) else 'new')
                L.insert(0, node)
                return Ref(node)
            if name in ('emplace_after', 'insert_after', 'emplace', 'insert'):
                pos = it.ev(fr, args[0], depth)
                if not isinstance(pos, It):
                    raise AnalysisBroken('R18.3: %s() with a position outside the model at %s' % (name, fr.f.loc(n)))
                v = it.ev(fr, args[1], depth) if len(args) > 1 else 'new'
                node = Node(v if isinstance(v, str) else 'new')
                if name in ('emplace_after', 'insert_after'):
                    if pos.before:
                        i = 0
                    elif pos.node is None:
                        self.bad = self.bad or '%s(end())' % name
                        i = len(L)
                    else:
                        i = self.index(pos.node) + 1
                else:
                    i = len(L) if pos.node is None else self.index(pos.node)
                L.insert(i, node)
                return It(node)
            if name in ('back', 'front'):
                if not L:
                    self.bad = self.bad or '%s() of an empty container' % name
                    return TOP
                return Ref(L[-1] if name == 'back' else L[0])
            if name in ('pop_back', 'pop_front'):
                if L:
                    L.pop(-1 if name == 'pop_back' else 0)
                return TOP
            if name in ('operator[]', 'at'):
                i = it.ev(fr, args[0], depth)
                if isinstance(i, int) and 0 <= i < len(L):
                    return Ref(L[i])
                self.bad = self.bad or 'index %s outside the container of %d' % (i, len(L))
                return TOP
            raise AnalysisBroken('R18.3: container operation %s() is not in the model (%s)' % (name, fr.f.loc(n)))
        # iterator operators
        if name in ('operator++', 'operator--') and operands:
            key = it.lvalue(fr, operands[0], depth)
            cur = it.ev(fr, operands[0], depth)
            if isinstance(cur, It):
                if name == 'operator--':
                    raise AnalysisBroken('R18.3: backwards iteration is not in the model (%s)' % fr.f.loc(n))
                nxt = self.next_of(cur)
                if key is not None:
                    it.write_key(fr, key, nxt)
                return cur if len(operands) > 1 else nxt     # post-increment has the dummy int operand
        if name in ('operator==', 'operator!=') and len(operands) == 2:
            a, b = it.ev(fr, operands[0], depth), it.ev(fr, operands[1], depth)
            if isinstance(a, It) and isinstance(b, It):
                return self.compare(it, fr, n, name[8:], a, b)
        if name == 'operator*' and len(operands) == 1:
            return self.deref(it, fr, n, it.ev(fr, operands[0], depth))
        if name == 'operator=' and len(operands) == 2:
            v = it.ev(fr, operands[1], depth)
            key = it.lvalue(fr, operands[0], depth)
            tgt = it.ev(fr, operands[0], depth)
            if isinstance(tgt, Ref):                         # vector<bool> proxy: *it = value
                tgt.node.val = v if isinstance(v, str) else getattr(v, 'val', v)
                return tgt
            if key is not None:
                it.write_key(fr, key, v)
            return v
        if name in ('move', 'forward', 'addressof') and operands:
            return it.ev(fr, operands[-1], depth)
        # the element loader: Serialize(scope, element)
        if callee.get('repo') and name in ('Serialize', 'SerializeValue') and len(args) >= 2 and self.is_scope(fr, args[0]):
            tgt = it.ev(fr, args[-1], depth)
            tok = self.take()
            if isinstance(tgt, Ref):
                tgt.node.val = tok
            else:
                key = it.lvalue(fr, args[-1], depth)
                if key is None:
                    raise AnalysisBroken('R18.3: element loaded into something that is neither an element nor a variable (%s)' % fr.f.loc(n))
                it.write_key(fr, key, tok)
            return 1
        if callee.get('repo') and not strip_targs(callee['q']).startswith('BitSerializer::Convert'):
            return NotImplemented
        for a in args:
            it.ev(fr, a, depth)
        return TOP


class SeqInterp(Interp):
    def cast_other(self, v, t):
        return v

    def coerce(self, v, t):
        if isinstance(v, (It, Ref, str)):
            return v
        return Interp.coerce(self, v, t)

    def to_bool(self, fr, v, cond, label_hint=None):
        if isinstance(v, str):
            raise AnalysisBroken('R18.3: a loaded item is used as a condition (%s)' % fr.f.loc(cond))
        return Interp.to_bool(self, fr, v, cond, label_hint)


CELLS = [(p, n, e) for p in (0, 1, 2, 3, 5) for n in (0, 1, 2, 3, 4) for e in sorted(set((0, n, n + 2)))]


def run_cells(prog, f, cont_decl, scope_decl):
    bad = []
    for prior, n, est in CELLS:
        model = SeqModel(cont_decl, scope_decl, prior, n, est)
        it = SeqInterp(prog, model, max_depth=2, max_paths=20)

        def init(it_, fr):
            for p in f.params:
                fr.env[p['d']] = TOP
        paths = it.run(f, init)
        if len(paths) != 1:
            raise AnalysisBroken('R18.3: %s is not deterministic over the container model (%d paths; %s)' % (f.id[:80], len(paths), paths[0].guards[:3]))
        got = [x.val for x in model.L]
        want = ['d%d' % i for i in range(n)]
        if paths[0].outcome[0] == 'THROW':
            bad.append(((prior, n, est), 'throws %s' % paths[0].outcome[1]))
        elif model.bad:
            bad.append(((prior, n, est), model.bad))
        elif got != want:
            bad.append(((prior, n, est), 'target ends as %s, the archive holds %s' % (got, want)))
    return bad


def check(prog, rep, rule, select):
    """select(f) -> (container param decl, scope param decl) or None"""
    k = 0
    for f in sorted(prog.funcs.values(), key=lambda g: g.id):
        sel = select(f)
        if sel is None:
            continue
        k += 1
        rep.touch(f)
        bad = run_cells(prog, f, sel[0], sel[1])
        site = '%s|%s' % (strip_targs(f.q).split('::')[-1], sel[2])
        if bad:
            (prior, n, est), what = bad[0]
            rep.finding(rule, site, f.loc(), '%s loading %d item(s) (estimated size %s) into a target of %d element(s): %s'
                        % (site, n, est if est else 'unknown', prior, what), {'cells': [str(c) for c, _ in bad[:12]], 'instantiation': f.id}, func=f.id, count=len(bad))
        else:
            rep.ok(rule, site + '|' + f.sym.get('targs', '')[:40], sample={'loader': site, 'cells': len(CELLS)} if k < 8 else None)
    return k
