"""C08 - JSON/XML output is standard-conformant; standard renderings load identically (structural clauses)."""
import re

from bsv.dtab import AnalysisBroken
from bsv.facts import child, strip, strip_targs
from rules import json_load, json_render
from rules.c13 import ENUM, switch_cases

PROP = 'C08'
LEVEL = 'other'
UNITS = ['w_archives.cpp']
EXPLANATION = ('Well-formedness of the produced text is the job of rapidjson / pugixml and is not re-verified. Decided are the adapter\'s obligations '
               'around them: R8.1 the result of every rapidjson Accept() is consumed (a stopped writer = truncated document). R8.2 ParseStream over '
               'an AutoUTFInputStream names AutoUTF as source encoding (otherwise UTF-16/32 renderings of the same data do not load). '
               'R8.3 ToRapidUtfType / ToPugiUtfType map every UtfType enumerator to the like-named back-end constant and throw otherwise. '
               'R8.4 the stream renderers receive the configured encoding and BOM flag: AutoUTFOutputStream(stream, ToRapidUtfType(encoding), writeBom); '
               'xml_document::save(stream, indent, flags, ToPugiUtfType(encoding)) with format_write_bom iff writeBom. '
               'R8.5 formatting: pretty writer / format_indent iff enableFormat, indent built from paddingChar x paddingCharNum. '
               'R8.6 XML input is parsed with the declared/auto-detected encoding for streams and as UTF-8 for strings. R8.7 JSON strings and keys keep their length (embedded U+0000). '
               'Not decided: equality of the recovered data model under arbitrary re-renderings.')
ASSUMPTIONS = ['rapidjson and pugixml implement their documented contracts']
TRUSTED = ['clang 14 AST', 'bsfacts']

MAPS = {
    'ToRapidUtfType': {'Utf8': 'kUTF8', 'Utf16le': 'kUTF16LE', 'Utf16be': 'kUTF16BE', 'Utf32le': 'kUTF32LE', 'Utf32be': 'kUTF32BE'},
    'ToPugiUtfType': {'Utf8': 'encoding_utf8', 'Utf16le': 'encoding_utf16_le', 'Utf16be': 'encoding_utf16_be', 'Utf32le': 'encoding_utf32_le',
                      'Utf32be': 'encoding_utf32_be'},
}


def member_names(f, n):
    return [m.get('m') for m in f.walk(n) if m['k'] == 'MemberExpr']


# pugixml.hpp (1.13): formatting flag bits - a trusted table of the back end's constants
PUGI_FLAGS = {'format_indent': 0x01, 'format_write_bom': 0x02, 'format_raw': 0x04, 'format_no_declaration': 0x08, 'format_no_escapes': 0x10,
              'format_save_file_text': 0x20, 'format_indent_attributes': 0x40, 'format_no_empty_element_tags': 0x80, 'format_default': 0x01}


def xml_flag_paths(prog, f):
    """evaluates the flags argument of every xml_document::save() call in the Finalize visitor for each choice of the options
    enableFormat / writeBom (the options are free booleans; everything else is opaque)"""
    from bsv.dtab import TOP, Interp, Model

    class M(Model):
        def initial_store(self, it, key):
            if isinstance(key, str) and key.startswith('G:'):
                return PUGI_FLAGS.get(key.rsplit('::', 1)[-1], TOP)
            return TOP

        def global_value(self, it, q):
            return PUGI_FLAGS.get(q.rsplit('::', 1)[-1], TOP)

        def member_value(self, it, fr, n, base):
            if n.get('m') in ('enableFormat', 'writeBom'):
                lab = 'OPT:' + n['m']
                prev = [d for l, d in it.path.guards if l == lab]
                return 1 if (prev[0] if prev else it.choose(lab)) else 0
            return TOP

        def primitive(self, it, fr, n, callee, depth):
            obj, args = it.call_args(fr, n)
            h = it.prog.funcs.get(callee['id']) if callee.get('repo') else None
            if h is not None and h.body is not None and 'pugixml_archive.h' in h.relfile and depth < it.max_depth and len(list(h.walk())) < 200:
                return NotImplemented       # small helpers of the adapter that compute the flags from the options
            vals = [it.ev(fr, a, depth) for a in args]
            if callee.get('n') == 'save' and callee['q'].startswith('pugi::'):
                it.act('SAVE', vals[2] if len(vals) > 2 else TOP, 'basic_ostream' in callee.get('id', ''))
            return TOP

    it = Interp(prog, M(), max_depth=2, max_paths=64)

    def init(it_, fr):
        for p in f.params:
            fr.env[p['d']] = TOP
    out = []
    for p in it.run(f, init):
        g = dict((l[4:], d) for l, d in p.guards if isinstance(l, str) and l.startswith('OPT:'))
        for a in p.actions:
            if a[0] == 'SAVE' and isinstance(a[1], int):
                out.append({'flags': a[1], 'stream': a[2], 'enableFormat': g.get('enableFormat'), 'writeBom': g.get('writeBom')})
    return out


def run(prog, rep):
    from rules import json_ownership
    json_ownership.check(prog, rep, 'R8.12')
    rep.rule('R8.10', 'JSON LoadValue decision table over the kinds of JSON value (null, booleans, the integer classes of RapidJSON with and without an exact double, '
                      'double, string, array, object) x target kind: every number spelling loads into a floating target, integers go through the range-checked '
                      'conversion of the getter that is valid for their class, other kinds reach the mismatched-types policy', floor=10)
    json_load.check(prog, rep, 'R8.10')
    check_xml_parse_options(prog, rep)
    rep.rule('R8.1', 'every rapidjson Accept() result is consumed', floor=4)
    rep.rule('R8.2', 'ParseStream over AutoUTFInputStream names AutoUTF as source encoding', floor=1)
    rep.rule('R8.3', 'ToRapidUtfType / ToPugiUtfType: each UtfType enumerator returns the like-named back-end constant; the default throws', floor=12)
    rep.rule('R8.4', 'stream renderers get the configured encoding and BOM flag', floor=4)
    rep.rule('R8.5', 'formatting options: pretty output iff enableFormat; indent = paddingChar x paddingCharNum', floor=4)
    rep.rule('R8.6', 'XML input: stream load auto-detects the encoding, string load is UTF-8', floor=2)
    json_render.check(prog, rep, 'R8.1', want=('accept',))
    json_render.check(prog, rep, 'R8.2', want=('parsestream',))
    rep.rule('R8.7', 'JSON strings and keys travel with their length: GetString() is paired with GetStringLength(), no member lookup by key.c_str()', floor=2)
    json_render.check(prog, rep, 'R8.7', want=('strings',))
    rep.rule('R8.8', 'every rapidjson Writer / PrettyWriter is instantiated with the target encoding of its output stream (AutoUTF over AutoUTFOutputStream, the buffer encoding over a string buffer)', floor=4)
    json_render.check(prog, rep, 'R8.8', want=('writers',))
    rep.rule('R8.9', 'JSON and XML save paths hand the value to the back end without a value-changing conversion (the lexical value in the document is the value saved)', floor=20)
    from rules import c01
    c01.check_save_conversions(prog, rep, 'R8.9', ('BitSerializer::Json::', 'BitSerializer::Xml::'))

    enum = prog.enums.get(ENUM)
    if enum is None:
        raise AnalysisBroken('anchor vanished: enum UtfType')
    byval = dict((v, k) for k, v in enum['items'].items())
    # ---------------------------------------------------------------- R8.3
    for fname, table in sorted(MAPS.items()):
        fs = [f for f in prog.funcs.values() if f.name == fname and f.body is not None and f.sym.get('repo')]
        if not fs:
            raise AnalysisBroken('anchor vanished: %s' % fname)
        f = sorted(fs, key=lambda g: g.id)[0]
        rep.touch(f)
        sws = [n for n in f.walk() if n['k'] == 'SwitchStmt']
        if len(sws) != 1:
            raise AnalysisBroken('%s: expected one switch' % fname)
        cases = switch_cases(f, sws[0])
        seen = set()
        for lab, stmts in cases:
            rets = [x for st in stmts for x in f.walk(st) if x['k'] == 'ReturnStmt']
            throws = [x for st in stmts for x in f.walk(st) if x['k'] == 'CXXThrowExpr']
            if lab == 'default':
                if not throws and not rets:
                    # 'default: break;' - what follows the switch decides: it must end in a throw without returning a value
                    par = f.parent(sws[0])
                    after = []
                    if par is not None and par['k'] == 'CompoundStmt':
                        idx = [i for i, x in enumerate(par['c']) if x is sws[0]]
                        after = par['c'][idx[0] + 1:] if idx else []
                    throws = [x for st in after for x in f.walk(st) if x['k'] == 'CXXThrowExpr']
                    rets = [x for st in after for x in f.walk(st) if x['k'] == 'ReturnStmt']
                if throws and not rets:
                    rep.ok('R8.3', '%s|default throws' % fname)
                else:
                    rep.finding('R8.3', '%s|default' % fname, f.loc(sws[0]), '%s: an unknown encoding is not rejected with an exception' % fname, func=f.id)
                continue
            name = byval.get(lab)
            seen.add(name)
            got = None
            if rets and rets[0].get('c'):
                r = strip(rets[0]['c'][0])
                got = r.get('n') if r is not None else None
            if got == table.get(name):
                rep.ok('R8.3', '%s|%s' % (fname, name), sample={'map': fname, 'from': name, 'to': got})
            else:
                rep.finding('R8.3', '%s|%s' % (fname, name), f.loc(stmts[0]) if stmts else f.loc(), '%s maps UtfType::%s to %s (expected %s)'
                            % (fname, name, got, table.get(name)), func=f.id)
        miss = sorted(set(table) - seen)
        if miss and not any(l == 'default' for l, _ in cases):
            rep.finding('R8.3', '%s|missing' % fname, f.loc(), '%s has no case for %s and no default' % (fname, miss), func=f.id)

    # ---------------------------------------------------------------- R8.4 / R8.5 (JSON)
    n_json = n_xml = 0
    for f in sorted(prog.funcs.values(), key=lambda g: g.id):
        if f.body is None:
            continue
        # the renderers live in the visitor lambdas of Finalize() or in helpers extracted from them: every function of the two adapter headers
        is_json = f.relfile.endswith('rapidjson_archive.h')
        is_xml = f.relfile.endswith('pugixml_archive.h')
        if not (is_json or is_xml):
            continue
        if is_json:
            for n in f.walk():
                if n['k'] == 'CXXConstructExpr' and f.type(n).startswith('rapidjson::AutoUTFOutputStream') and len(n.get('c', [])) >= 3:
                    n_json += 1
                    rep.touch(f)
                    from bsv.expr import resolve as _res
                    a1, a2 = _res(f, n['c'][1]) or n['c'][1], _res(f, n['c'][2]) or n['c'][2]
                    c1 = [x for x in f.walk(a1) if x['k'] == 'CallExpr' and (f.callee(x) or {}).get('n') == 'ToRapidUtfType']
                    ok1 = bool(c1) and 'encoding' in member_names(f, a1)
                    ok2 = member_names(f, a2)[:1] == ['writeBom']
                    if ok1 and ok2:
                        rep.ok('R8.4', 'JSON|AutoUTFOutputStream(stream, ToRapidUtfType(encoding), writeBom)|%s' % f.loc(n))
                    else:
                        rep.finding('R8.4', 'JSON|output stream options', f.loc(n), 'JSON stream output: AutoUTFOutputStream is not constructed with '
                                    '(ToRapidUtfType(streamOptions.encoding), streamOptions.writeBom)', func=f.id)
            for n in f.walk():
                if n['k'] == 'IfStmt':
                    c0 = child(n, 'cond')
                    if c0 is None or 'enableFormat' not in member_names(f, c0) or c0.get('cv') is not None:
                        continue
                    then, els = child(n, 'then'), child(n, 'else')
                    e0, neg = strip(c0), False
                    while e0 is not None and e0['k'] == 'UnaryOperator' and e0.get('op') == '!':
                        neg, e0 = not neg, strip(e0['c'][0])
                    if neg and els is not None:
                        then, els = els, then           # `if (!enableFormat) compact else pretty`
                    tw = [f.type(x) for x in f.walk(then) if x['k'] == 'CXXConstructExpr' and 'Writer<' in f.type(x)]
                    ew = [f.type(x) for x in f.walk(els) if x['k'] == 'CXXConstructExpr' and 'Writer<' in f.type(x)] if els else []
                    ind = [x for x in f.walk(then) if x['k'] == 'CXXMemberCallExpr' and (f.callee(x) or {}).get('n') == 'SetIndent']
                    rep.touch(f)
                    good = tw and all('PrettyWriter<' in t for t in tw) and ew and all('PrettyWriter<' not in t for t in ew)
                    if good:
                        rep.ok('R8.5', 'JSON|PrettyWriter iff enableFormat|%s' % f.loc(n))
                    else:
                        rep.finding('R8.5', 'JSON|writer selection', f.loc(n), 'JSON: PrettyWriter is not used exactly when formatOptions.enableFormat is set', func=f.id)
                    if ind and member_names(f, ind[0]['c'][1])[:1] == ['paddingChar'] and member_names(f, ind[0]['c'][2])[:1] == ['paddingCharNum']:
                        rep.ok('R8.5', 'JSON|SetIndent(paddingChar, paddingCharNum)|%s' % f.loc(n))
                    else:
                        rep.finding('R8.5', 'JSON|indent', f.loc(n), 'JSON: the pretty writer is not configured with (paddingChar, paddingCharNum)', func=f.id)
        if is_xml:
            saves = [n for n in f.walk() if n['k'] == 'CXXMemberCallExpr' and (f.callee(n) or {}).get('n') == 'save']
            if not saves:
                continue
            rep.touch(f)
            to_stream = any('basic_ostream' in (f.callee(s) or {}).get('id', '') for s in saves)
            for s in saves:
                n_xml += 1
                enc = s['c'][4] if len(s['c']) > 4 else None
                if enc is not None:
                    from bsv.expr import resolve
                    enc = resolve(f, enc) or enc
                if 'basic_ostream' in (f.callee(s) or {}).get('id', ''):
                    c1 = [x for x in f.walk(enc) if x['k'] == 'CallExpr' and (f.callee(x) or {}).get('n') == 'ToPugiUtfType'] if enc else []
                    if c1 and 'encoding' in member_names(f, enc):
                        rep.ok('R8.4', 'XML|save(stream, ..., ToPugiUtfType(encoding))|%s' % f.loc(s))
                    else:
                        rep.finding('R8.4', 'XML|stream encoding', f.loc(s), 'XML stream output is not saved with ToPugiUtfType(streamOptions.encoding)', func=f.id)
                    outs = xml_flag_paths(prog, f)
                    wb = [PUGI_FLAGS['format_write_bom']]
                    if not wb or not outs:
                        raise AnalysisBroken('R8.4: cannot evaluate the pugixml save flags in %s' % f.loc())
                    bad = [o for o in outs if o['stream'] and ((o['flags'] & wb[0]) != 0) != bool(o['writeBom'])]
                    if not bad and any(o['stream'] for o in outs):
                        rep.ok('R8.4', 'XML|format_write_bom iff writeBom|%s' % f.loc(s), sample={'paths': len(outs), 'format_write_bom': wb[0]})
                    else:
                        rep.finding('R8.4', 'XML|bom flag', f.loc(s), 'XML stream output: format_write_bom is not set exactly when streamOptions.writeBom '
                                    '(evaluated flags: %s)' % [(o['writeBom'], o['flags']) for o in outs if o['stream']][:4], func=f.id)
                else:
                    e = strip(enc) if enc else None
                    if e is not None and e.get('n') == 'encoding_utf8':
                        rep.ok('R8.4', 'XML|string output is UTF-8|%s' % f.loc(s))
                    else:
                        rep.finding('R8.4', 'XML|string encoding', f.loc(s), 'XML string output is not saved as UTF-8', func=f.id)
            outs = xml_flag_paths(prog, f)
            fi, fr_ = [PUGI_FLAGS['format_indent']], [PUGI_FLAGS['format_raw']]
            okf = bool(outs) and bool(fi) and bool(fr_) and all((((o['flags'] & fi[0]) != 0) == bool(o['enableFormat'])) and
                                                                   (((o['flags'] & fr_[0]) != 0) == (not o['enableFormat'])) for o in outs)
            if okf:
                rep.ok('R8.5', 'XML|format_indent iff enableFormat|%s' % f.loc())
            else:
                rep.finding('R8.5', 'XML|format flags', f.loc(), 'XML: flags are not format_indent when enableFormat else format_raw', func=f.id)
            ind = [x for x in f.walk() if x['k'] == 'CXXConstructExpr' and 'basic_string' in f.type(x) and len(x.get('c', [])) >= 2
                   and member_names(f, x['c'][0])[:1] == ['paddingCharNum'] and member_names(f, x['c'][1])[:1] == ['paddingChar']]
            if ind:
                rep.ok('R8.5', 'XML|indent(paddingCharNum, paddingChar)|%s' % f.loc())
            else:
                rep.finding('R8.5', 'XML|indent', f.loc(), 'XML: the indent string is not built as paddingCharNum x paddingChar', func=f.id)
    if n_json < 1 or n_xml < 2:
        raise AnalysisBroken('R8.4: renderer anchors not found (json %d, xml %d)' % (n_json, n_xml))

    # ---------------------------------------------------------------- R8.6
    n6 = 0
    for f in sorted(prog.funcs.values(), key=lambda g: g.id):
        if f.body is None or 'PugiXmlRootScope' not in (f.cls or '') or f.name != 'PugiXmlRootScope':
            continue
        for n in f.walk():
            if n['k'] != 'CXXMemberCallExpr':
                continue
            c = f.callee(n) or {}
            if c.get('n') == 'load_buffer':
                n6 += 1
                rep.touch(f)
                e = strip(n['c'][4]) if len(n['c']) > 4 else None
                if e is not None and e.get('n') in ('encoding_utf8', 'encoding_auto'):
                    rep.ok('R8.6', 'XML|load_buffer(%s)|%s' % (e.get('n'), f.loc(n)))
                else:
                    rep.finding('R8.6', 'XML|string input encoding', f.loc(n), 'XML string input is not parsed as UTF-8 / auto', func=f.id)
            elif c.get('n') == 'load' and 'basic_istream' in c.get('id', ''):
                n6 += 1
                rep.touch(f)
                e = n['c'][3] if len(n['c']) > 3 else None
                es = strip(e) if e is not None else None
                if es is None or es['k'] == 'CXXDefaultArgExpr' or es.get('n') == 'encoding_auto':
                    rep.ok('R8.6', 'XML|load(stream) auto-detects|%s' % f.loc(n))
                else:
                    rep.finding('R8.6', 'XML|stream input encoding', f.loc(n), 'XML stream input forces encoding %s instead of auto-detection' % es.get('n'), func=f.id)
    if n6 < 2:
        raise AnalysisBroken('R8.6: XML load anchors not found (%d)' % n6)


def check_xml_parse_options(prog, rep):
    """R8.11: the XML adapter parses a document with the same pugixml options whether it comes as a string or as a stream (the memory and
    stream constructors are separate copies). The options word is a compile-time constant at every call (literal, pugi::parse_* expression or
    the default argument parse_default); pugixml performs end-of-line normalisation, entity expansion and attribute whitespace conversion
    only when the corresponding bit is set, so a copy that spells the flags out and forgets one reads different text from the same bytes."""
    rep.rule('R8.11', 'XML: every pugi::xml_document::load* call of the adapter passes the same parse options (constant-evaluated; the default '
                      'argument counts as pugi::parse_default), so string and stream loading read the same text', floor=2)
    calls = []
    for f in sorted(prog.funcs.values(), key=lambda g: g.id):
        if f.body is None or 'pugixml_archive.h' not in f.relfile:
            continue
        nodes = list(f.walk()) + [x for i in f.raw.get('inits', []) if 'e' in i for x in f.walk(i['e'])]
        for n in nodes:
            if n['k'] != 'CXXMemberCallExpr':
                continue
            c = f.callee(n) or {}
            if not (c.get('n', '').startswith('load') and c.get('q', '').startswith('pugi::xml_document::')):
                continue
            g_params = re.search(r'\((.*)\)', c['id'].split('|', 1)[1]).group(1).split(', ')
            idx = [i for i, t in enumerate(g_params) if t.strip() == 'unsigned int']
            if not idx:
                continue
            a = n['c'][1 + idx[0]] if len(n['c']) > 1 + idx[0] else None
            calls.append((f, n, c['n'], a.get('cv') if a is not None else None, a is not None and a['k'] == 'CXXDefaultArgExpr'))
    calls = list({(f.loc(n), nm): (f, n, nm, cv, dflt) for f, n, nm, cv, dflt in calls}.values())
    if len(calls) < 2:
        raise AnalysisBroken('R8.11: fewer than two pugi load calls found in the XML adapter (%d)' % len(calls))
    ref = [cv for f, n, nm, cv, dflt in calls if dflt and cv is not None]
    ref = ref[0] if ref else max(set(cv for _, _, _, cv, _ in calls if cv is not None), key=[cv for _, _, _, cv, _ in calls].count, default=None)
    for f, n, nm, cv, dflt in sorted(calls, key=lambda x: x[0].loc(x[1])):
        rep.touch(f)
        site = '%s at %s' % (nm, f.loc(n))
        if cv is None:
            rep.finding('R8.11', '%s|options not constant' % nm, f.loc(n), 'pugi %s is called with parse options that are not a compile-time constant' % nm, func=f.id)
        elif cv != ref:
            rep.finding('R8.11', '%s|options differ' % nm, f.loc(n), 'pugi %s parses with options 0x%x, the other load call(s) of the adapter with 0x%x '
                        '(bits 0x%x missing, 0x%x added): the same document gives different text depending on where it is loaded from'
                        % (nm, cv, ref, ref & ~cv, cv & ~ref), func=f.id)
        else:
            rep.ok('R8.11', site, sample={'call': nm, 'options': '0x%x' % cv, 'default_argument': dflt})
