"""CSV UnescapeValue of both readers executed over quoted cells (C09 R9.10, C10 R10.15).

RFC 4180 rule 7: inside a quoted field a double quote is written as two double quotes. For a list of original texts that puts runs of one,
two, three and four quotes at the start, in the middle and at the end of the field, the cell `"` + text with every quote doubled + `"` is
handed to UnescapeValue; the function's syntax tree is interpreted over the concrete characters (loops unrolled, the member buffer modelled as
a character list) and must return exactly the original text. The same table is run for the memory and the stream reader, so it is also
a twin comparison."""
from bsv.dtab import TOP, AnalysisBroken, Interp, Model, Pos, Sym
from bsv.facts import strip, strip_targs

NS = 'BitSerializer::Csv::Detail::'
ORIGINALS = ['', 'a', '"', '""', '"""', '""""', 'a"b', 'a""b', 'a"""b', '"a', 'a"', '""a', 'a""', 'x"y"z', 'ab,c\r\nd', '"a"', '""a""', 'a""""b']


class UModel(Model):
    unroll_loops = True

    def __init__(self, cell, buf_member):
        self.cell = [ord(c) for c in cell]
        self.buf_member = buf_member
        self.buf = []
        self.oob = None

    def initial_store(self, it, key):
        return TOP

    def is_buf(self, e):
        e = strip(e)
        return e is not None and e['k'] == 'MemberExpr' and e.get('m') == self.buf_member

    def is_view(self, fr, e):
        e = strip(e)
        return e is not None and e['k'] == 'DeclRefExpr' and isinstance(fr.env.get(e.get('d')), Sym) and fr.env[e['d']].tag == 'VIEW'

    def char(self, v):
        return v - 256 if v >= 128 else v

    def compare(self, it, fr, n, op, a, b):
        if isinstance(a, Pos) and isinstance(b, Pos):
            x, y = a.k, b.k
            return 1 if {'==': x == y, '!=': x != y, '<': x < y, '<=': x <= y, '>': x > y, '>=': x >= y}[op] else 0
        raise AnalysisBroken('unescape table: comparison outside the model at %s' % fr.f.loc(n))

    def arith(self, it, fr, n, op, a, b):
        if isinstance(a, Pos) and isinstance(b, Pos) and op == '-':
            return a.k - b.k
        return TOP

    def deref(self, it, fr, n, v):
        if isinstance(v, Pos) and isinstance(v.k, int):
            if not 0 <= v.k < len(self.cell):
                self.oob = self.oob or ('reads the cell at offset %d of %d' % (v.k, len(self.cell)))
                return 0
            return self.char(self.cell[v.k])
        return TOP

    def construct(self, it, fr, n, depth):
        vals = [it.ev(fr, a, depth) for a in n.get('c', ())]
        t = fr.f.type(n)
        if 'basic_string_view' in t and len(vals) == 2:
            return ('OUT', vals[1] if isinstance(vals[1], int) else None)
        return vals[0] if len(vals) == 1 else TOP

    def store_through(self, it, fr, lhs, v, depth):
        s = strip(lhs)
        if s is not None and s['k'] == 'CXXOperatorCallExpr' and (fr.f.callee(s) or {}).get('n') == 'operator[]':
            obj, args = it.call_args(fr, s)
            if self.is_buf(obj):
                i = it.ev(fr, args[0], depth)
                if isinstance(i, int) and isinstance(v, int):
                    if not 0 <= i < len(self.buf):
                        self.oob = self.oob or ('writes the output buffer at %d of %d' % (i, len(self.buf)))
                        return
                    self.buf[i] = v
                    return
        raise AnalysisBroken('unescape table: store outside the model at %s' % fr.f.loc(lhs))

    def primitive(self, it, fr, n, callee, depth):
        name = callee['n']
        obj, args = it.call_args(fr, n)
        if obj is None and strip_targs(callee.get('q') or '') in ('std::find', 'std::distance', 'std::next'):
            vals = [it.ev(fr, a, depth) for a in args]
            if name == 'find' and len(vals) == 3 and isinstance(vals[0], Pos) and isinstance(vals[1], Pos) and isinstance(vals[2], int):
                for k in range(vals[0].k, min(vals[1].k, len(self.cell))):
                    if self.char(self.cell[k]) == vals[2]:
                        return Pos(k)
                return Pos(vals[1].k)
            if name == 'distance' and len(vals) == 2 and isinstance(vals[0], Pos) and isinstance(vals[1], Pos):
                return vals[1].k - vals[0].k
            if name == 'next' and vals and isinstance(vals[0], Pos):
                return Pos(vals[0].k + (vals[1] if len(vals) > 1 and isinstance(vals[1], int) else 1))
            raise AnalysisBroken('unescape table: %s with these arguments is outside the model at %s' % (name, fr.f.loc(n)))
        if obj is not None and self.is_buf(obj):
            vals = [it.ev(fr, a, depth) for a in args]
            if name == 'clear':
                self.buf = []
            elif name == 'resize' and vals and isinstance(vals[0], int):
                self.buf = (self.buf + [0] * vals[0])[:vals[0]]
            elif name == 'push_back' and vals and isinstance(vals[0], int):
                self.buf.append(vals[0])
            elif name in ('size', 'length'):
                return len(self.buf)
            elif name == 'data':
                return Sym('BUFDATA')
            elif name in ('reserve', 'capacity', 'shrink_to_fit'):
                return TOP
            elif name == 'operator[]' and vals and isinstance(vals[0], int):
                return self.buf[vals[0]] if 0 <= vals[0] < len(self.buf) else 0
            elif name in ('append', 'operator+=') and len(vals) == 1 and isinstance(vals[0], int):
                self.buf.append(vals[0])
            elif name in ('append', 'assign', 'insert') and len(vals) in (2, 3) and isinstance(vals[-2], Pos) and isinstance(vals[-1], (Pos, int)) \
                    and (len(vals) == 2 or isinstance(vals[0], Sym)):
                # a run of the cell copied at once: (first, last) or (first, count); insert(end(), first, last) likewise
                a = vals[-2].k
                b = vals[-1].k if isinstance(vals[-1], Pos) else a + vals[-1]
                if not 0 <= a <= b <= len(self.cell):
                    self.oob = self.oob or ('copies the cell range [%d, %d) of %d' % (a, b, len(self.cell)))
                    b = max(a, min(b, len(self.cell)))
                if name == 'assign':
                    self.buf = []
                self.buf.extend(self.char(c) for c in self.cell[a:b])
            elif name in ('end', 'cend'):
                return Sym('BUFEND')
            else:
                raise AnalysisBroken('unescape table: operation %s on the output buffer is outside the model at %s' % (name, fr.f.loc(n)))
            return TOP
        if obj is not None and self.is_view(fr, obj):
            vals = [it.ev(fr, a, depth) for a in args]
            L = len(self.cell)
            if name in ('size', 'length'):
                return L
            if name == 'empty':
                return 1 if L == 0 else 0
            if name == 'front':
                return self.char(self.cell[0]) if L else 0
            if name == 'back':
                return self.char(self.cell[-1]) if L else 0
            if name in ('operator[]', 'at') and vals and isinstance(vals[0], int):
                if not 0 <= vals[0] < L:
                    self.oob = self.oob or ('reads the cell at offset %d of %d' % (vals[0], L))
                    return 0
                return self.char(self.cell[vals[0]])
            if name == 'data':
                return Pos(0)
            raise AnalysisBroken('unescape table: operation %s on the cell view is outside the model at %s' % (name, fr.f.loc(n)))
        for a in args:
            it.ev(fr, a, depth)
        if obj is not None:
            it.ev(fr, obj, depth)
        return TOP


def run_one(prog, f, cell, buf_member):
    model = UModel(cell, buf_member)
    it = Interp(prog, model, max_depth=1, max_paths=20)

    def init(it_, fr):
        ps = f.params
        if len(ps) == 1:
            fr.env[ps[0]['d']] = Sym('VIEW')
        else:
            fr.env[ps[0]['d']] = Pos(0)
            fr.env[ps[1]['d']] = Pos(len(cell))
    res = []
    for p in it.run(f, init):
        if p.outcome[0] == 'THROW':
            res.append(('throw', str(p.outcome[1])))
        else:
            v = p.outcome[1]
            n = v[1] if isinstance(v, tuple) and v and v[0] == 'OUT' else None
            text = ''.join(chr(c & 0xff) for c in (model.buf if n is None else model.buf[:n]))
            res.append(('value', text))
    return res, model.oob


# cells that are NOT well-formed RFC 4180 (a lone quote inside a quoted field): the RFC gives no value, but the memory and the stream reader
# must still give the same one (C10)
MALFORMED = ['"a"b"', '"a"b"c"', '"a"b""c"', '"a""b"c"', '"x"y"z"w"', '""a"', '"a"""b"c"']


def check(prog, rep, rule, floor=30, twins=False):
    rep.rule(rule, 'CSV UnescapeValue (memory and stream reader) executed over quoted cells with runs of 1-4 quotes at the start, middle and '
                   'end: the cell "<text with every quote doubled>" yields exactly <text>', floor=floor)
    per_reader = {}
    for cls in ('CCsvStringReader', 'CCsvStreamReader'):
        fs = [f for f in prog.funcs.values() if f.q == NS + cls + '::UnescapeValue' and f.body is not None]
        if len(fs) != 1:
            raise AnalysisBroken('anchor vanished: %s::UnescapeValue' % cls)
        f = fs[0]
        rep.touch(f)
        # the output buffer: the std::string member the function writes
        members = set()
        for n in f.walk():
            if n['k'] == 'MemberExpr' and n.get('dk') == 'Field' and 'basic_string<' in f.type(n):
                members.add(n['m'])
        if len(members) != 1:
            rep.defer_broken('%s: %s::UnescapeValue does not use exactly one string member as its output buffer (%s)' % (rule, cls, sorted(members)))
            continue
        buf_member = members.pop()
        per_reader[cls] = (f, buf_member)
        for text in ORIGINALS:
            cell = '"' + text.replace('"', '""') + '"'
            res, oob = run_one(prog, f, cell, buf_member)
            site = '%s|%r' % (cls, text)
            if oob:
                rep.finding(rule, '%s|out of bounds' % cls, f.loc(), '%s::UnescapeValue on the cell %r %s' % (cls, cell, oob), func=f.id)
            elif res == [('value', text)]:
                rep.ok(rule, site, sample={'reader': cls, 'cell': cell, 'value': text} if text in ('a""b', '""') else None)
            else:
                got = res[0] if res else ('nothing',)
                rep.finding(rule, '%s|wrong value' % cls, f.loc(),
                            '%s::UnescapeValue turns the cell %r into %s, RFC 4180 gives %r (every pair of quotes inside the field stands for one quote)'
                            % (cls, cell, ('%r' % got[1]) if got[0] == 'value' else 'an exception (%s)' % got[-1], text), func=f.id)
    if twins and len(per_reader) == 2:
        (fa, ba), (fb, bb) = per_reader['CCsvStringReader'], per_reader['CCsvStreamReader']
        for cell in MALFORMED:
            ra, _ = run_one(prog, fa, cell, ba)
            rb, _ = run_one(prog, fb, cell, bb)
            if ra == rb:
                rep.ok(rule, 'twins|%r' % cell, sample={'cell': cell, 'both_readers': ra[0][1] if ra else None} if cell == MALFORMED[1] else None)
            else:
                rep.finding(rule, 'twins|lone quote inside a quoted field', fb.loc(), 'the cell %r (a lone quote inside a quoted field) is read as %r from memory and as %r '
                            'from a stream' % (cell, ra[0][1] if ra else None, rb[0][1] if rb else None), func=fb.id)
