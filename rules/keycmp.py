"""R3.7 (C03): CVariableKey::operator==<integral T> compares the wire key with the requested key by VALUE.

The wire key is stored as uint64_t or int64_t depending on the MsgPack family that carried it; the requested key has type T.
Both range over intervals (sign classes); a comparison may answer 'equal' only on cells whose mathematical value ranges
intersect, and must be able to answer 'equal' on cells where they do."""
from bsv import interval
from bsv.interval import Iv
from bsv.dtab import TOP, AnalysisBroken, Interp, Model, Sym, base_type, INT_TYPES
from bsv.facts import strip, strip_targs

CLS = 'BitSerializer::MsgPack::Detail::CVariableKey'
I64MAX, U64MAX = (1 << 63) - 1, (1 << 64) - 1


class KeyModel(Model):
    def __init__(self, alt, stored):
        self.alt = alt
        self.stored = stored

    def initial_store(self, it, key):
        return TOP

    def compare(self, it, fr, n, op, a, b):
        for x in n['c'][:2]:
            s = strip(x)
            if s is not None and s['k'] == 'UnaryOperator' and s.get('op') == '&' and op in ('==', '!='):
                t = base_type(fr.f.type(strip(s['c'][0])))
                same = (t == self.alt)
                return (1 if same else 0) if op == '==' else (0 if same else 1)
        for v in (a, b):
            if isinstance(v, Sym) and isinstance(v.tag, tuple) and v.tag[0] == 'SLOT' and op in ('==', '!='):
                same = (v.tag[1] == self.alt)
                return (1 if same else 0) if op == '==' else (0 if same else 1)
        ia, ib = interval.as_iv(a), interval.as_iv(b)
        if ia is not None and ib is not None:
            r = interval.compare(op, ia, ib)
            if r is not None:
                return r
            return Sym(('GUARD', 'MAY@%s' % fr.f.loc(n)))
        return Sym(('GUARD', 'OPAQUE@%s' % fr.f.loc(n)))

    def arith(self, it, fr, n, op, a, b):
        return TOP

    def primitive(self, it, fr, n, callee, depth):
        q = strip_targs(callee['q'])
        if q == 'std::get':
            t = base_type(fr.f.type(n))
            return self.stored if t == self.alt else TOP
        if not callee.get('repo'):
            obj, args = it.call_args(fr, n)
            for a in args:
                it.ev(fr, a, depth)
            return TOP
        return NotImplemented


class KeyInterp(Interp):
    def ev_unary(self, fr, n, depth):
        # the address of a tuple alternative stands for "which alternative": it is compared with mLast, directly or inside a helper
        if n.get('op') == '&' and n.get('c'):
            return Sym(('SLOT', base_type(fr.f.type(strip(n['c'][0])))))
        return Interp.ev_unary(self, fr, n, depth)

    def cast_other(self, v, t):
        if isinstance(v, Iv):
            return interval.cast(v, t)
        return v

    def coerce(self, v, t):
        if isinstance(v, Iv):
            return interval.cast(v, t)
        return Interp.coerce(self, v, t)


def outcomes(prog, f, alt, stored, value):
    it = KeyInterp(prog, KeyModel(alt, stored), max_depth=1, max_paths=100)

    def init(it_, fr):
        fr.env[f.params[0]['d']] = value
    res = set()
    for p in it.run(f, init):
        if p.outcome[0] != 'RET':
            res.add('throw')
            continue
        v = p.outcome[1]
        if isinstance(v, bool):
            v = int(v)
        if isinstance(v, int):
            res.add('equal' if v else 'differ')
        else:
            res.add('equal')
            res.add('differ')
    return res


def cells_of(lo, hi):
    out = []
    for a, b in ((-(1 << 63), -1), (0, I64MAX), (I64MAX + 1, U64MAX)):
        x, y = max(a, lo), min(b, hi)
        if x <= y:
            out.append((x, y))
    return out


def check(prog, rep, rule='R3.7', floor=8):
    rep.rule(rule, 'CVariableKey::operator==<integral T>: over sign/width cells of the stored wire key (uint64_t or int64_t alternative) and of the '
                   'requested key, "equal" is answered only where the value ranges intersect and is possible wherever they do', floor=floor)
    fs = [f for f in prog.funcs.values() if strip_targs(f.q) == CLS + '::operator==' and len(f.params) == 1]
    n_int = 0
    for f in sorted(fs, key=lambda g: g.id):
        pt = f.type(f.params[0]) if 't' in f.params[0] else ''
        bt = base_type(pt)
        if bt not in INT_TYPES or bt == 'bool':
            continue
        r = interval.type_range(bt)
        if r is None:
            continue
        n_int += 1
        rep.touch(f)
        for alt, arange in (('unsigned long', (0, U64MAX)), ('long', (-(1 << 63), I64MAX))):
            for sc in cells_of(*arange):
                for vc in cells_of(*r):
                    res = outcomes(prog, f, alt, Iv(sc[0], sc[1], 'STORED'), Iv(vc[0], vc[1], 'ARG'))
                    overlap = not (sc[1] < vc[0] or vc[1] < sc[0])
                    site = 'operator==<%s>|stored %s [%d..%d]|requested [%d..%d]' % (bt, alt, sc[0], sc[1], vc[0], vc[1])
                    bad = None
                    if 'throw' in res:
                        bad = 'may throw'
                    elif not overlap and 'equal' in res:
                        bad = 'can answer equal although no stored value equals a requested one'
                    elif overlap and 'equal' not in res:
                        bad = 'never answers equal although equal values exist'
                    if bad:
                        rep.finding(rule, 'operator==<%s>|stored %s %s|requested %s|%s' % (bt, alt, sign(sc), sign(vc), bad), f.loc(),
                                    'CVariableKey::operator==<%s>: stored wire key as %s in [%d..%d], requested key in [%d..%d]: %s'
                                    % (bt, alt, sc[0], sc[1], vc[0], vc[1], bad), func=f.id)
                    else:
                        rep.ok(rule, site, sample={'T': bt, 'stored_alternative': alt, 'stored': list(sc), 'requested': list(vc), 'answers': sorted(res)})
    if n_int < 2:
        raise AnalysisBroken('R3.7: fewer than 2 integral instantiations of CVariableKey::operator== in the witness units')


def sign(c):
    return 'negative' if c[1] < 0 else ('above INT64_MAX' if c[0] > I64MAX else 'non-negative')


class NanModel(KeyModel):
    """stored key and requested key are the same NaN (the visiting loop hands the key it has just read back to the lookup)"""

    def compare(self, it, fr, n, op, a, b):
        if isinstance(a, Sym) and a.tag == 'NAN' or isinstance(b, Sym) and b.tag == 'NAN':
            for x in n['c'][:2]:
                s = strip(x)
                if s is not None and s['k'] == 'UnaryOperator' and s.get('op') == '&':
                    return KeyModel.compare(self, it, fr, n, op, a, b)
            return 1 if op == '!=' else 0          # IEEE 754: every ordered comparison with NaN is false, != is true
        return KeyModel.compare(self, it, fr, n, op, a, b)

    def primitive(self, it, fr, n, callee, depth):
        if callee['n'] in ('isnan', '__builtin_isnan'):
            obj, args = it.call_args(fr, n)
            v = it.ev(fr, args[0], depth) if args else TOP
            return 1 if isinstance(v, Sym) and v.tag == 'NAN' else 0
        return KeyModel.primitive(self, it, fr, n, callee, depth)


def check_reflexive(prog, rep, rule):
    """VisitKeys reads a key into the scope's key storage and calls back with a reference to it; the map loader passes that reference to
    Serialize(scope, key, value), whose lookup first asks `current key == key`. If that answer is 'no' for the very key just read - which
    happens exactly for a floating-point NaN - the lookup skips the value and searches the whole map again, re-reading keys into the storage
    the request aliases: the first key then compares equal to 'itself', the cursor jumps back to entry 1 and the visiting loop never ends.
    Decided: operator==<float|double> executed with stored key = requested key = NaN answers 'equal'."""
    rep.rule(rule, 'CVariableKey::operator==<floating T> is reflexive on the stored key: with the stored and the requested key the same NaN it '
                   'answers equal (the key-visiting loop hands each key it has read back to the lookup and relies on that to advance)', floor=1)
    fs = [f for f in prog.funcs.values() if strip_targs(f.q) == CLS + '::operator==' and len(f.params) == 1]
    n = 0
    for f in sorted(fs, key=lambda g: g.id):
        bt = base_type(f.type(f.params[0])) if 't' in f.params[0] else ''
        if bt not in ('float', 'double'):
            continue
        n += 1
        rep.touch(f)
        it = KeyInterp(prog, NanModel(bt, Sym('NAN')), max_depth=1, max_paths=100)

        def init(it_, fr):
            fr.env[f.params[0]['d']] = Sym('NAN')
        res = set()
        for p in it.run(f, init):
            v = p.outcome[1] if p.outcome[0] == 'RET' else 'throw'
            if isinstance(v, bool):
                v = int(v)
            res.add('equal' if v == 1 else ('differ' if v == 0 else str(v)))
        if res == {'equal'}:
            rep.ok(rule, 'operator==<%s>|NaN' % bt)
        else:
            rep.finding(rule, 'operator==<%s>|NaN key not equal to itself' % bt, f.loc(),
                        'CVariableKey::operator==<%s>: a stored NaN key does not compare equal to itself (%s): loading a MsgPack map with a NaN key into '
                        'std::map<%s, ...> makes the lookup search the map again through the storage the requested key aliases, the cursor returns '
                        'to the first entry and VisitKeys never terminates' % (bt, sorted(res), bt), func=f.id)
    if n == 0:
        raise AnalysisBroken('%s: no floating-point instantiation of CVariableKey::operator== in the analysed units' % rule)


MEASURES = ('strlen', 'strnlen', 'length', 'wcslen', 'find', 'char_traits')


def call_parts(f, n):
    """(object expression, argument list) of a member call node"""
    ch = [x for x in n.get('c', []) if x]
    if not ch:
        return None, []
    callee = strip(ch[0])
    obj = None
    if callee is not None and callee['k'] == 'MemberExpr' and callee.get('c'):
        obj = callee['c'][0]
    return obj, ch[1:]


def check_array_key(prog, rep, rule):
    """A field key given as a character array (char key[16] filled at run time, or a literal) is compared as the text up to its terminator:
    the extent the writer emits for it (the array decays to a pointer and WriteValue(const char*) measures it). Comparing the whole array
    extent would make every key shorter than its buffer unfindable."""
    rep.rule(rule, 'CVariableKey::operator== for a character-array key compares the null-terminated text (the extent the writer emitted), '
                   'not the extent of the array', floor=1)
    n_inst = 0
    seen = set()
    for f in sorted(prog.funcs.values(), key=lambda g: g.id):
        if f.body is None or f.name != 'operator==' or 'CVariableKey' not in f.id or not f.params:
            continue
        pt = f.type(f.params[0])
        if '[' not in pt or '&' not in pt:
            continue
        n_inst += 1
        prm = f.params[0]['d']
        verdicts = []
        for n in f.walk():
            if n['k'] not in ('CXXConstructExpr', 'CXXTemporaryObjectExpr') or 'basic_string_view' not in f.type(n):
                continue
            args = [a for a in n.get('c', []) if a and a['k'] != 'CXXDefaultArgExpr']
            if not args:
                continue
            a0 = strip(args[0])
            if a0 is None or a0['k'] != 'DeclRefExpr' or a0.get('d') != prm:
                continue
            if len(args) == 1:
                verdicts.append(('ok', n, 'view measured from the pointer'))
            else:
                a1 = args[1]
                calls = [(f.callee(x) or {}).get('q', '') or '' for x in f.walk(a1) if x['k'] in ('CallExpr', 'CXXMemberCallExpr')]
                if any(any(m in q for m in MEASURES) for q in calls):
                    verdicts.append(('ok', n, 'length measured by %s' % calls[0]))
                elif 'cv' in a1 or ('cv' in (strip(a1) or {})):
                    verdicts.append(('bad', n, 'the length is the constant %s taken from the array extent' % (a1.get('cv', (strip(a1) or {}).get('cv')))))
                else:
                    verdicts.append(('unknown', n, 'length expression not recognised'))
        # partial comparisons: compare(pos, count, text) looks at a window of the stored key only - a request that is a prefix of another key matches it
        for n in f.walk():
            if n['k'] != 'CXXMemberCallExpr':
                continue
            c = f.callee(n) or {}
            if c.get('n') != 'compare' or 'basic_string' not in (c.get('q') or ''):
                continue
            obj, args = call_parts(f, n)
            args = [a for a in args if a and a['k'] != 'CXXDefaultArgExpr']
            if not any(x['k'] == 'DeclRefExpr' and x.get('d') == prm for a in args for x in f.walk(a)):
                continue
            if len(args) == 1:
                verdicts.append(('ok', n, 'compare(text) over the whole stored key'))
            else:
                verdicts.append(('prefix', n, 'compare() with %d arguments looks only at a window (position, count) of the stored key' % len(args)))
        if not verdicts:
            rep.defer_broken('%s: %s does not build a string_view from its array parameter - comparison form not modelled' % (rule, f.id[:120]))
            continue
        for v, n, why in verdicts:
            key = (f.loc(n), v)
            if key in seen:
                continue
            seen.add(key)
            rep.touch(f)
            if v == 'ok':
                rep.ok(rule, 'operator==(T(&)[N])|%s' % why, sample={'site': f.loc(n), 'parameter': pt})
            elif v == 'prefix':
                rep.finding(rule, 'operator==(T(&)[N])|partial comparison', f.loc(n),
                            'CVariableKey::operator==(%s): %s; a requested key that is a proper prefix of a key in the document ("nick" / "nickname") '
                            'compares equal, so an absent field is loaded from its neighbour and reported as loaded' % (pt, why), func=f.id)
            elif v == 'bad':
                rep.finding(rule, 'operator==(T(&)[N])|whole array extent compared', f.loc(n),
                            'CVariableKey::operator==(%s): %s; a key composed in a buffer longer than its text (char key[16]; snprintf(key, ...)) never '
                            'matches the stored key, although the writer emitted exactly that text' % (pt, why), func=f.id)
            else:
                rep.defer_broken('%s: %s at %s' % (rule, why, f.loc(n)))
    if not n_inst:
        raise AnalysisBroken('%s: no instantiation of CVariableKey::operator== with a character-array parameter in the facts' % rule)
