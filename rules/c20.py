"""C20 - every failure surfaces as a catchable exception: no terminate, no leak (structural clauses)."""
from bsv.facts import REPO, child, strip, strip_targs
from bsv.nothrow import NoThrow, short

PROP = 'C20'
LEVEL = 'other'
EXPLANATION = ('Decides structurally, for the whole analysed program (7 library TUs + instantiation witnesses): (R20.1) no '
               'library- or I/O-raised exception can propagate out of a function whose type is nothrow (destructors, noexcept) - '
               'may-throw closure over the resolved call graph incl. virtual overriders, destructors of locals/temporaries/members, '
               'handlers matched by type; (R20.2) every throw operand derives from std::exception, bare rethrow only inside a handler; '
               '(R20.3) raw owning pointers of the root scopes are acquired by the last potentially-throwing action of each '
               'constructor and released in the destructor of a non-copyable class; (R20.4) naked new/delete/release() only at the '
               'enumerated owner sites; (R20.6) the status result of every rapidjson Accept() is consumed. Not decided: leak-freedom under arbitrary allocation failure (bad_alloc inside nothrow '
               'functions is counted, not armed).')
ASSUMPTIONS = ['clang 14 front end resolves callees, exception specifications and cast kinds as the real build does (-std=gnu++17 -DNDEBUG)',
               'external callees behave as classified in tables/externals.json (libstdc++, RapidJSON, pugixml)',
               'templates are analysed only in the instantiations produced by the 7 library TUs and the witnesses']
TRUSTED = ['clang 14 AST/Sema', 'bsfacts', 'tables/externals.json', 'libstdc++ exception specifications']

LIB_PREFIXES = ('include/bitserializer/', 'src/')


def in_lib(f):
    rf = f.relfile
    return rf.startswith(LIB_PREFIXES) and 'testing_tools' not in rf


def pattern_in_lib(f):
    p = f.pattern
    p = p[len(REPO.rstrip('/')) + 1:] if p.startswith(REPO.rstrip('/') + '/') else p
    return p.startswith(LIB_PREFIXES)


def first_callee(nt, f, chain):
    """Name of the function called directly from the sink body on this path."""
    for c in chain[1:]:
        if c in nt.prog.funcs:
            g = nt.prog.funcs[c]
            # report virtual overriders under the interface method they override (stable across overrider sets)
            o = g.sym.get('ovr')
            while o:
                g2 = g.tu['syms'][o[0]]
                o = g2.get('ovr')
                if not o:
                    return g2['q']
            return g.q
        if c.startswith('<external'):
            return c.split('> ', 1)[-1]
    return '<throw expression>'


def run_noescape(prog, rep, rule_name, restrict=None, floor=40):
    nt = NoThrow(prog)
    R = rep.rule(rule_name, 'no repo-raised or I/O-raised exception may escape a function whose type is nothrow '
                            '(destructor / noexcept); handlers matched by type; virtual calls to all overriders', floor=floor)
    n_sinks = 0
    alloc_only = 0
    for f in nt.nothrow_functions():
        if not pattern_in_lib(f):
            continue
        if restrict is not None and not restrict(f):
            continue
        ev = nt.events[f.id]
        if not ev:
            continue  # nothing called, nothing thrown: trivial
        rep.touch(f)
        n_sinks += 1
        escapes = [(t, ch) for (t, ch) in nt.summary[f.id].values() if t.kind != 'alloc']
        if not escapes:
            rep.ok(rule_name, f.q + '|' + f.sym.get('targs', ''), sample={'sink': short(f.id), 'at': f.loc(), 'events': len(ev)})
            continue
        groups = {}
        for t, chain in escapes:
            fc = first_callee(nt, f, chain)
            groups.setdefault(fc, []).append((t, chain))
        # one finding per sink: which of its callees the representative path goes through depends on the order of exploration and on
        # helper extraction, so it is part of the message, not of the finding's identity
        groups = {' / '.join(sorted(strip_targs(k) for k in groups)): [x for lst_ in groups.values() for x in lst_]}
        for fc, lst in sorted(groups.items()):
            key = '%s' % (f.pq,)
            types = sorted(set(t.type for t, _ in lst))
            uncl = any(t.kind == 'unclassified' for t, _ in lst)
            msg = '%s is nothrow by type but %s can propagate out of it through %s%s' % (
                short(f.id), ', '.join(types), strip_targs(fc),
                ' (an external callee on the path is UNCLASSIFIED in tables/externals.json - treated as raising)' if uncl else '')
            rep.finding(rule_name, key, f.loc(), msg, {'sink': f.id, 'thrown': types,
                                                      'paths': [nt.pretty_chain(f, ch) for _, ch in lst[:6]]}, func=f.id)
    rep.extra['nothrow_sinks_with_calls'] = n_sinks
    rep.extra['fixpoint_rounds'] = nt.rounds
    return nt


def run(prog, rep):
    nt = run_noescape(prog, rep, 'R20.1')

    from rules import stream_window
    stream_window.check(prog, rep, 'R20.5', floor=9)

    # ---------------------------------------------------------------- R20.6 a stopped JSON writer is reported
    from rules import json_render
    rep.rule('R20.6', 'the status of every rapidjson Accept() (false = the writer stopped at NaN/Inf or an invalid UTF sequence) is consumed, '
                      'never dropped: a failed save surfaces as an exception instead of a truncated document', floor=4)
    json_render.check(prog, rep, 'R20.6', want=('accept',))

    # ---------------------------------------------------------------- R20.7 a truncated text stream ends in a result, not in an endless loop
    from rules import encoded_reader
    encoded_reader.check(prog, rep, ids={'R13.7': 'R20.7', 'R13.8': 'R20.8', 'R13.12': 'R20.9'})

    # ---------------------------------------------------------------- R20.2 thrown types
    rep.rule('R20.2', 'every throw operand type derives from std::exception; bare "throw;" only inside a handler', floor=60)
    for f in prog.funcs.values():
        if not pattern_in_lib(f):
            continue
        for n in f.walk():
            if n['k'] != 'CXXThrowExpr':
                continue
            rep.touch(f)
            site = '%s|%s' % (f.q, n.get('tt', 'rethrow'))
            if n.get('rethrow'):
                p = f.parent(n)
                inside = False
                while p is not None:
                    if p['k'] == 'CXXCatchStmt':
                        inside = True
                        break
                    p = f.parent(p)
                if inside:
                    rep.ok('R20.2', site)
                else:
                    rep.finding('R20.2', '%s|bare-rethrow-outside-handler' % f.q, f.loc(n),
                                'bare "throw;" outside a catch handler calls std::terminate', func=f.id)
                continue
            if 'std::exception' in n.get('tb', []):
                rep.ok('R20.2', site, sample={'throw': n.get('tt'), 'at': f.loc(n)})
            else:
                rep.finding('R20.2', '%s|%s' % (f.q, n.get('tt')), f.loc(n),
                            'throws %s which does not derive from std::exception' % n.get('tt'), func=f.id)

    # ---------------------------------------------------------------- R20.3 / R20.4 raw owners
    rep.rule('R20.3', 'raw owning pointer of a root scope: assigned by the last potentially-throwing action of every constructor, '
                      'deleted in the destructor, class neither copyable nor movable', floor=4)
    rep.rule('R20.4', 'naked new / delete / unique_ptr::release() occur only in the constructors/destructors of the enumerated owner classes', floor=12)
    owners = {}
    for name, rec in prog.records.items():
        if not rec.get('repo'):
            continue
        dt = rec.get('dtor')
        if dt is None:
            continue
        dsym = rec['_tu']['syms'][dt]
        df = prog.funcs.get(dsym['id'])
        if df is None or not pattern_in_lib(df):
            continue
        for n in df.walk():
            if n['k'] == 'CXXDeleteExpr':
                op = strip(n['c'][0]) if n.get('c') else None
                if op is not None and op['k'] == 'MemberExpr' and op.get('dk') == 'Field':
                    owners.setdefault(name, {'rec': rec, 'fields': set(), 'dtor': df})['fields'].add(op['m'])
    allowed_sites = set()
    for name, o in owners.items():
        rec = o['rec']
        allowed_sites.add(o['dtor'].id)
        for field in sorted(o['fields']):
            site = '%s::%s' % (rec['q'], field)
            problems = []
            for sm in ('copyctor', 'movector', 'copyassign', 'moveassign'):
                if rec.get(sm) == 'ok':
                    problems.append('%s is available (double delete of %s)' % (sm, field))
            ctors = [g for g in prog.funcs.values() if g.sym['kind'] == 'ctor' and g.cls == rec['name'] and not g.sym.get('implicit')
                     and not g.sym.get('defaulted')]
            if not ctors:
                problems.append('no user constructor found for the owner')
            for c in ctors:
                allowed_sites.add(c.id)
                rep.touch(c)
                problems += check_owner_ctor(nt, c, field)
            if problems:
                for p in problems:
                    rep.finding('R20.3', '%s|%s' % (site, p.split(' (')[0][:80]), o['dtor'].loc(), p, func=o['dtor'].id)
            else:
                rep.ok('R20.3', site, sample={'owner': rec['q'], 'field': field, 'ctors': len(ctors)})
    # who-may-call: naked new/delete/release
    for f in prog.funcs.values():
        if not pattern_in_lib(f):
            continue
        for n in f.walk():
            k = n['k']
            what = None
            if k == 'CXXNewExpr':
                what = 'new'
            elif k == 'CXXDeleteExpr':
                what = 'delete'
            elif k == 'CXXMemberCallExpr':
                s = f.callee(n)
                if s is not None and s['n'] == 'release' and s['q'].startswith('std::unique_ptr'):
                    what = 'release()'
            if what is None:
                continue
            rep.touch(f)
            if f.id in allowed_sites:
                rep.ok('R20.4', '%s|%s' % (f.q, what), sample={'site': f.loc(n), 'op': what})
            else:
                rep.finding('R20.4', '%s|%s' % (f.q, what), f.loc(n),
                            'naked %s outside the enumerated owner constructors/destructors (ownership not protected by RAII)' % what, func=f.id)


def check_owner_ctor(nt, c, field):
    """The owning member must be assigned by the LAST potentially-throwing action of the constructor."""
    problems = []
    # linear sequence of top-level actions: member initialisers in order, then body statements
    actions = []
    for ini in c.raw.get('inits', []):
        actions.append(('init', ini.get('field'), ini['e'], ini.get('l', 0)))
    body = c.body
    if body is not None:
        for st in body.get('c', []):
            actions.append(('stmt', None, st, st.get('l', 0)))
    assign_idx = None
    for i, (kind, fld, node, line) in enumerate(actions):
        if kind == 'init' and fld == field:
            # member initialiser: counts only if it is not a plain nullptr default
            e = strip(node)
            if e is not None and e['k'] not in ('CXXNullPtrLiteralExpr', 'ImplicitValueInitExpr', 'CXXDefaultInitExpr', 'GNUNullExpr', 'IntegerLiteral'):
                assign_idx = i
        elif kind == 'stmt':
            for n in c.walk(node):
                if n['k'] == 'BinaryOperator' and n.get('op') == '=':
                    lhs = strip(n['c'][0])
                    if lhs is not None and lhs['k'] == 'MemberExpr' and lhs.get('m') == field:
                        assign_idx = i
    if assign_idx is None:
        problems.append('constructor %s never assigns the owning member %s' % (short(c.id), field))
        return problems
    # anything after the acquiring action that may throw leaks the object (destructor does not run)
    for kind, fld, node, line in actions[assign_idx + 1:]:
        for n in c.walk(node):
            if n['k'] == 'CXXThrowExpr':
                problems.append('constructor %s throws after acquiring %s (line %d): the destructor will not run' % (short(c.id), field, line))
            s = c.callee(n) if n['k'].endswith('CallExpr') or n['k'] in ('CXXConstructExpr', 'CXXTemporaryObjectExpr') else None
            if s is None or s.get('nothrow'):
                continue
            th = nt._callee_throws(c, s, n, bool(n.get('vcall')))
            th = {k: v for k, v in th.items() if v[0].kind != 'alloc'}
            if th:
                problems.append('constructor %s calls %s, which may throw, after acquiring %s (line %d)' % (short(c.id), s['q'], field, line))
    return problems
