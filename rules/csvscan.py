"""Transition table of the CSV field scanner (ParseNextLine of both readers) against RFC 4180 (C09 R9.7, C10 R10.9).

One generic iteration of the scanning loop is interpreted for every abstract state:
   character under the cursor  in {double quote, separator, CR, LF, other}
   quotes seen in the field    in {0, odd, even > 0}
   last CR of the field        in {none, directly before the cursor, earlier}
   (stream reader) the character is the last of the stream or not; (both) the cursor stands at the end of the buffered text
with the cursor P, the field start S and the text length N symbolic (S <= P < N). Expected, per RFC 4180 section 2:
   quote            : counted, cursor + 1
   separator, LF    : inside quotes (odd count) they are content; outside, the field ends at P - except that a CR directly before the LF
                      belongs to the line break (field ends at P - 1, CRLF) - the cursor moves behind the character, LF also ends the record
   CR               : remembered as the last CR (it can only be dropped when the very next character is LF), cursor + 1
   other            : cursor + 1
   value emitted    : (S, end - S)"""
from bsv.dtab import TOP, AnalysisBroken, Interp, Ret, Sym, _LoopExit
from bsv.facts import child, strip, strip_targs
from bsv.linear import Lin, entails, eq, le, lt
from bsv.linmodel import LinInterp, LinModel

NS = 'BitSerializer::Csv::Detail::'
P, S, N, R = Lin.sym('P'), Lin.sym('S'), Lin.sym('N'), Lin.sym('R')
NPOS = (1 << 64) - 1
CHARS = {'quote': 0x22, 'separator': 0x2C, 'CR': 0x0D, 'LF': 0x0A, 'other': 0x78}


class ScanModel(LinModel):
    unroll_loops = True

    def __init__(self, prog, cls, roles, cell):
        self.prog, self.cls, self.roles, self.cell = prog, cls, roles, cell
        self.emitted = None

    def initial_store(self, it, key):
        if key == 'this.' + self.roles['cursor']:
            return S
        if key == 'this.' + self.roles['separator']:
            return CHARS['separator']
        return TOP

    def field_of(self, fr, e):
        e = strip(e)
        if e is not None and e['k'] == 'MemberExpr' and e.get('dk') == 'Field' and e.get('c') and strip(e['c'][0])['k'] == 'CXXThisExpr':
            return e['m']
        return None

    def compare(self, it, fr, n, op, a, b):
        la, lb = Lin.of(a), Lin.of(b)
        if la is not None and lb is not None:
            if la.is_const() and lb.is_const():
                x, y = la.c, lb.c
                return 1 if {'==': x == y, '!=': x != y, '<': x < y, '<=': x <= y, '>': x > y, '>=': x >= y}[op] else 0
            return self.lin_compare(it, fr, n, op, la, lb)
        return Sym(('GUARD', 'OPAQUE@%s' % fr.f.loc(n)))

    def construct(self, it, fr, n, depth):
        vals = [it.ev(fr, a, depth) for a in n.get('c', ())]
        return vals[0] if len(vals) == 1 else TOP

    def primitive(self, it, fr, n, callee, depth):
        name = callee['n']
        obj, args = it.call_args(fr, n)
        recv = self.field_of(fr, obj) if obj is not None else None
        if recv == self.roles['buffer']:
            if name in ('size', 'length'):
                return N
            if name in ('operator[]', 'at'):
                i = Lin.of(it.ev(fr, args[0], depth))
                if i is None:
                    raise AnalysisBroken('R9.7: the scanner indexes the text with a value outside the model at %s' % fr.f.loc(n))
                self.need(it, fr, n, 'character read inside the buffered text', [le(0, i), lt(i, N)])
                if not entails(self.cons(it), eq(i, P)):
                    raise AnalysisBroken('R9.7: the scanner reads a character that is not the one under the cursor at %s' % fr.f.loc(n))
                return CHARS[self.cell['char']]
            if name == 'erase':
                return TOP
        if recv is not None and recv == self.roles.get('stream'):
            if name == 'ReadChunk':
                it.act('READCHUNK')
                return self.roles['results'][self.cell.get('chunk', 'EndFile')]
            if name == 'IsEnd':
                return 1 if self.cell.get('stream_ended') else 0
        if callee.get('repo') and callee.get('cls') == NS + self.cls and name == 'IsEnd':
            return 0
        if name == 'emplace_back' and len(args) >= 2:
            vals = [it.ev(fr, a, depth) for a in args]
            first = self.emitted is None
            self.emitted = vals
            it.act('EMIT', vals[0], vals[1])
            if first and self.cell.get('sep_last'):
                return TOP          # a separator was the last character of the text: one more (empty) field must follow
            raise Ret(Sym('EMITTED'))
        h = it.prog.funcs.get(callee['id']) if callee.get('repo') else None
        if h is not None and h.body is not None and h.relfile.startswith('src/csv/') and depth < it.max_depth \
                and (not h.cls or h.cls == NS + self.cls or h.sym.get('kind') == 'lambda' or '(anonymous class)' in (h.q or '')) \
                and len(list(h.walk())) < 300 and name not in ('ReadChunk', 'IsEnd'):
            return NotImplemented       # small helpers extracted from the scanner (free functions or private members)
        for a in args:
            it.ev(fr, a, depth)
        return TOP


class ScanInterp(LinInterp, Interp):
    scanned = False

    def exec_loop(self, fr, n, depth):
        m = self.model
        if n is not m.roles['loop'] or self.scanned:
            if n is m.roles['loop'] and not m.cell.get('sep_last'):
                raise Ret(Sym('SECOND-FIELD'))
            return Interp.exec_loop(self, fr, n, depth)
        self.scanned = True
        cell = m.cell
        # the generic state of one iteration
        self.write_key(fr, 'this.' + m.roles['cursor'], N if cell.get('at_end') else P)
        fr.env[m.roles['quotes']] = {'none': 0, 'odd': 1, 'even': 2}[cell['quotes']]
        fr.env[m.roles['cr']] = {'none': NPOS, 'adjacent': P - 1, 'earlier': R}[cell['cr']]
        cond = child(n, 'cond')
        outcome = 'next'
        try:
            if cond is not None and not self.truth(fr, cond, depth):
                outcome = 'loop left by its condition'
            else:
                try:
                    self.exec(fr, child(n, 'body'), depth)
                except _LoopExit as e:
                    if e.kind == 'BreakStmt':
                        raise
                # the increment clause of a for loop belongs to the iteration (also after `continue`)
                if n['k'] == 'ForStmt' and child(n, 'inc') is not None:
                    self.ev(fr, child(n, 'inc'), depth)
        except _LoopExit as e:
            outcome = 'break' if e.kind == 'BreakStmt' else 'next'
        self.act('ITER', outcome, self.read_key(fr, 'this.' + m.roles['cursor']), fr.env.get(m.roles['cr']), fr.env.get(m.roles['quotes']),
                 fr.env.get(m.roles['end']), fr.env.get(m.roles['endline']) if m.roles.get('endline') else None, fr.env.get(m.roles['start']))
        if outcome == 'next':
            raise Ret(Sym('NEXT'))
        # the field ended: go on to the place where it is emitted

    def exec(self, fr, n, depth):
        return Interp.exec(self, fr, n, depth)


def find_roles(prog, cls):
    fs = [g for g in prog.funcs.values() if g.q == NS + cls + '::ParseNextLine' and g.body is not None]
    if len(fs) != 1:
        raise AnalysisBroken('anchor vanished: %s::ParseNextLine' % cls)
    f = fs[0]
    rec = prog.records.get(NS + cls)
    tu = rec['_tu']
    fields = dict((fl['n'], tu['types'][fl['t']]) for fl in rec['fields'])
    # the scanning loop: the innermost loop that indexes a text member
    loops = [x for x in f.walk() if x['k'] in ('WhileStmt', 'ForStmt', 'DoStmt')]
    scan = None
    buf = None
    for lp in loops:
        inner = [y for y in f.walk(child(lp, 'body')) if y['k'] in ('WhileStmt', 'ForStmt', 'DoStmt')]
        if inner:
            continue
        for y in f.walk(lp):
            if y['k'] == 'CXXOperatorCallExpr' and y.get('op') == '[]' and len(y['c']) > 1:
                o = strip(y['c'][1])
                if o is not None and o['k'] == 'MemberExpr' and ('basic_string' in fields.get(o.get('m'), '')):
                    scan, buf = lp, o['m']
    if scan is None:
        raise AnalysisBroken('R9.7: scanning loop of %s::ParseNextLine not found' % cls)
    # cursor: the integral member incremented inside the scanning loop
    cursor = set()
    for y in f.walk(scan):
        if y['k'] == 'UnaryOperator' and y.get('op') == '++':
            t = strip(y['c'][0])
            if t is not None and t['k'] == 'MemberExpr':
                cursor.add(t['m'])
    sep = [n_ for n_, t in fields.items() if t in ('const char', 'char')]
    # locals by role: declared in the enclosing loop body before the scanning loop
    locs = {}
    for x in f.walk():
        if x['k'] == 'DeclStmt' and len(x.get('decls') or []) == 1:
            d = x['decls'][0]
            ini = x['c'][0] if x.get('c') else None
            locs[d['d']] = (d['n'], f.tu['types'][d['t']] if 't' in d else '', ini)
    assigned_in_scan = {}
    for y in f.walk(scan):
        if y['k'] == 'BinaryOperator' and y.get('op') == '=':
            t = strip(y['c'][0])
            if t is not None and t['k'] == 'DeclRefExpr':
                assigned_in_scan.setdefault(t['d'], []).append(y['c'][1])
        if y['k'] == 'UnaryOperator' and y.get('op') == '++':
            t = strip(y['c'][0])
            if t is not None and t['k'] == 'DeclRefExpr':
                assigned_in_scan.setdefault(t['d'], []).append(None)
    quotes = [d for d, rh in assigned_in_scan.items() if rh == [None] or (None in rh)]
    cr = [d for d, (nm, t, ini) in locs.items() if ini is not None and ini.get('cv') == NPOS and d in assigned_in_scan]
    endline = [d for d, (nm, t, ini) in locs.items() if t.replace('const ', '') == 'bool' and d in assigned_in_scan]
    end = [d for d in assigned_in_scan if d not in quotes and d not in cr and d not in endline and d in locs and 'long' in locs[d][1]]
    if len(cursor) != 1 or len(sep) != 1 or len(quotes) != 1 or len(cr) != 1 or len(end) != 1:
        raise AnalysisBroken('R9.7: roles of %s::ParseNextLine not recognised (cursor %s, separator %s, quote counter %s, last CR %s, field end %s)'
                             % (cls, sorted(cursor), sep, quotes, cr, end))
    start = [d for d, (nm, t, ini) in locs.items() if ini is not None and strip(ini) is not None and strip(ini)['k'] == 'MemberExpr' and strip(ini).get('m') in cursor]
    if len(start) != 1:
        raise AnalysisBroken('R9.7: the local holding the field start of %s::ParseNextLine not recognised (%s)' % (cls, start))
    roles = {'f': f, 'start': start[0], 'loop': scan, 'buffer': buf, 'cursor': list(cursor)[0], 'separator': sep[0], 'quotes': quotes[0], 'cr': cr[0], 'end': end[0],
             'endline': endline[0] if len(endline) == 1 else None}
    stream = [n_ for n_, t in fields.items() if 'CEncodedStreamReader' in t]
    if stream:
        roles['stream'] = stream[0]
        en = prog.enums.get('BitSerializer::Convert::Utf::EncodedStreamReadResult')
        if en is None:
            raise AnalysisBroken('anchor vanished: enum EncodedStreamReadResult')
        roles['results'] = en['items']
    return roles


def cells(stream):
    for ch in ('quote', 'separator', 'CR', 'LF', 'other'):
        for q in ('none', 'odd', 'even'):
            for cr in ('none', 'adjacent', 'earlier'):
                if stream:
                    for last in (False, True):
                        yield {'char': ch, 'quotes': q, 'cr': cr, 'stream_ended': last, 'last_char': last}
                else:
                    yield {'char': ch, 'quotes': q, 'cr': cr}


def expected(cell):
    """(outcome, field end or None, cursor after, last CR after or None = unchanged)"""
    ch, q, cr = cell['char'], cell['quotes'], cell['cr']
    inside = q == 'odd'
    if ch == 'quote':
        return ('next', None, P + 1, None, 1)
    if ch == 'separator' and not inside:
        return ('break', P, P + 1, None, 0)
    if ch == 'LF' and not inside:
        return ('break', P - 1 if cr == 'adjacent' else P, P + 1, None, 0)
    if ch == 'CR':
        return ('next', None, P + 1, P, 0)
    return ('next', None, P + 1, None, 0)


def run_cell(prog, cls, roles, cell):
    model = ScanModel(prog, cls, roles, cell)
    it = ScanInterp(prog, model, max_depth=2, max_paths=60)
    f = roles['f']

    def init(it_, fr):
        it_.n_fresh = 0
        it_.scanned = False
        model.emitted = None
        it_.facts = [le(0, S), le(S, P), lt(P, N), le(N, 1 << 40)]
        # the remembered CR lies inside the field: only cells that have one constrain the cursor (a field may start at offset 0 of the text)
        if cell.get('cr') == 'earlier':
            it_.facts.extend([le(S, R), le(R, P - 2)])
        elif cell.get('cr') == 'adjacent':
            it_.facts.append(le(S, P - 1))
        if cell.get('last_char') or cell.get('sep_last'):
            it_.facts.extend(eq(P + 1, N))
        elif 'last_char' in cell:
            it_.facts.append(lt(P + 1, N))
        for p in f.params:
            fr.env[p['d']] = TOP
    return model, it.run(f, init)


def check(prog, rep, rule):
    for cls in ('CCsvStringReader', 'CCsvStreamReader'):
        roles = find_roles(prog, cls)
        f = roles['f']
        rep.touch(f)
        bad = []
        n = 0
        for cell in cells('stream' in roles):
            n += 1
            model, paths = run_cell(prog, cls, roles, cell)
            want = expected(cell)
            for p in paths:
                cons = list(p.facts or [])
                it_acts = [a for a in p.actions if a[0] == 'ITER']
                needs = [a for a in p.actions if a[0] == 'NEED' and not a[3]]
                if needs:
                    bad.append((cell, 'reads outside the buffered text (%s)' % needs[0][1]))
                    continue
                if p.outcome[0] == 'THROW':
                    bad.append((cell, 'throws %s' % p.outcome[1]))
                    continue
                if not it_acts:
                    continue        # path left before the scanning loop (e.g. nothing to parse)
                _, outcome, cur, crv, qv, endv, endline, startv = it_acts[0]
                st = Lin.of(startv)
                if st is None:
                    bad.append((cell, 'the field start is not a position (%s)' % (startv,)))
                    continue
                # the last character of an ended stream: the record ends with it (no line break required)
                if cell.get('last_char') and want[0] == 'next' and outcome == 'break':
                    ok = Lin.of(endv) is not None and entails(cons, eq(Lin.of(endv), N)) and Lin.of(cur) is not None and entails(cons, eq(Lin.of(cur), N))
                    if not ok:
                        bad.append((cell, 'the last character of the stream is not taken into the field (field end %s, cursor %s)' % (endv, cur)))
                    continue
                if outcome != want[0]:
                    bad.append((cell, 'the scanner %s, expected %s' % ('ends the field' if outcome == 'break' else 'goes on' if outcome == 'next' else outcome,
                                                                       'the field to end' if want[0] == 'break' else 'to go on')))
                    continue
                lc = Lin.of(cur)
                if lc is None or not entails(cons, eq(lc, want[2])):
                    bad.append((cell, 'cursor after the character is %s, expected %s' % (cur, want[2])))
                    continue
                if want[0] == 'break':
                    le_ = Lin.of(endv)
                    if le_ is None or not entails(cons, eq(le_, want[1])):
                        bad.append((cell, 'the field ends at %s, expected %s' % (endv, want[1])))
                        continue
                    em = [a for a in p.actions if a[0] == 'EMIT']
                    if not em:
                        bad.append((cell, 'the field is not emitted'))
                        continue
                    o, sz = Lin.of(em[0][1]), Lin.of(em[0][2])
                    if o is None or sz is None or not entails(cons, eq(o, st)) or not entails(cons, eq(sz, want[1] - st)):
                        bad.append((cell, 'the field is emitted as (offset %s, size %s), expected (%s, %s)' % (em[0][1], em[0][2], st, want[1] - st)))
                        continue
                else:
                    if want[3] is not None:
                        lcr = Lin.of(crv)
                        if lcr is None or not entails(cons, eq(lcr, want[3])):
                            bad.append((cell, 'after a CR the remembered CR position is %s, expected %s' % (crv, want[3])))
                            continue
                    if want[4] and not (isinstance(qv, int) and qv == {'none': 0, 'odd': 1, 'even': 2}[cell['quotes']] + 1):
                        bad.append((cell, 'a double quote is not counted'))
                        continue
        # a separator as the very last character of the text: the record has one more, empty, field (RFC 4180: the last record may lack its line break)
        cell = {'char': 'separator', 'quotes': 'none', 'cr': 'none', 'sep_last': True, 'stream_ended': True, 'chunk': 'EndFile'}
        n += 1
        model, paths = run_cell(prog, cls, roles, cell)
        for p in paths:
            if p.outcome[0] == 'THROW':
                bad.append((cell, 'throws %s' % p.outcome[1]))
                continue
            em = [a for a in p.actions if a[0] == 'EMIT']
            cons = list(p.facts or [])
            if len(em) < 2:
                bad.append((cell, 'the text ends with a separator: the empty last field of the record is not emitted (%d field(s) instead of 2)' % len(em)))
            else:
                o, sz = Lin.of(em[1][1]), Lin.of(em[1][2])
                if o is None or sz is None or not entails(cons, eq(o, N)) or not entails(cons, eq(sz, 0)):
                    bad.append((cell, 'the text ends with a separator: the last field is emitted as (offset %s, size %s), expected (N, 0)' % (em[1][1], em[1][2])))
        site = '%s::ParseNextLine' % cls
        if bad:
            cell, what = bad[0]
            rep.finding(rule, site, f.loc(roles['loop']), '%s, character %s with %s quote(s) seen in the field and %s: %s'
                        % (site, cell['char'], {'none': 'no', 'odd': 'an odd number of', 'even': 'an even number of'}[cell['quotes']],
                           {'none': 'no CR so far', 'adjacent': 'a CR directly before it', 'earlier': 'a CR earlier in the field'}[cell['cr']], what),
                        {'cells': [str(c) for c, _ in bad[:10]]}, func=f.id, count=len(bad))
        else:
            rep.ok(rule, site, sample={'reader': cls, 'cells': n, 'roles': dict((k, v) for k, v in roles.items() if isinstance(v, str))})
