"""R13.6-R13.8 (C13): window arithmetic and end-of-file progress of CEncodedStreamReader over symbolic pointers.

State: BUF = mEncodedBuffer, C = ChunkSize, S = mStartDataPtr, E = mEndDataPtr with the invariant BUF <= S <= E <= BUF + C.
The stream is abstracted to an eof flag and read counts G (0 <= G <= requested; a short read sets eof). TUtf::Decode is
abstracted by its contract (see ASSUMPTIONS of C13)."""
import re

from bsv.dtab import TOP, AnalysisBroken, Interp, Struct, Sym, Thrown
from bsv.facts import strip, strip_targs
from bsv.linear import Lin, entails, eq, le, lt, unsat
from bsv.linmodel import LinInterp, LinModel

NS = 'BitSerializer::Convert::Utf::'
CLS = NS + 'CEncodedStreamReader'
BUF, S0, E0 = Lin.sym('BUF'), Lin.sym('S'), Lin.sym('E')


class ReaderModel(LinModel):
    def __init__(self, prog, chunk, eof0, ctor=False, failing=False):
        self.failing = failing      # the stream stops delivering bytes without reaching its end (badbit / failbit, no eofbit)
        self.ctor = ctor
        self.prog = prog
        self.C = chunk
        self.eof0 = eof0
        self.codes = prog.enums[NS + 'UtfEncodingErrorCode']['items']

    def initial_store(self, it, key):
        if key == 'this.mEncodedBuffer':
            return BUF
        if key == 'this.mEndBufferPtr':
            return BUF + self.C
        if key == 'this.mStartDataPtr':
            return BUF if self.ctor else S0      # default member initialiser: = mEncodedBuffer
        if key == 'this.mEndDataPtr':
            return BUF if self.ctor else E0
        if key == 'stream.eof':
            return 1 if self.eof0 else 0
        if key == 'this.mUtfType':
            return Sym('UTFTYPE')
        return TOP

    def inside(self, it, fr, n, what, p, size=None):
        need = [le(BUF, p)]
        need.append(le(p if size is None else p + size, BUF + self.C))
        if size is not None:
            need.append(le(0, size))
        return self.need(it, fr, n, what, need)

    def primitive(self, it, fr, n, callee, depth):
        q = strip_targs(callee['q'])
        name = callee['n']
        obj, args = it.call_args(fr, n)
        if q.startswith('std::basic_istream') or q.startswith('std::basic_ios') or q.startswith('std::ios_base'):
            if name == 'eof':
                return it.read_key(fr, 'stream.eof')
            if name == 'read':
                p, cnt = Lin.of(it.ev(fr, args[0], depth)), Lin.of(it.ev(fr, args[1], depth))
                if p is None or cnt is None:
                    raise AnalysisBroken('encoded reader: read() with an untracked pointer/count at %s' % fr.f.loc(n))
                self.inside(it, fr, n, 'istream::read stores inside mEncodedBuffer', p, cnt)
                if it.read_key(fr, 'stream.eof') == 1:
                    g = Lin.of(0)
                elif self.failing:
                    g = Lin.of(0)
                    it.act('FAILED')
                elif it.choose('SHORTREAD@%s' % fr.f.loc(n)):
                    g = self.fresh(it, 'G', 0, None)
                    it.facts.append(lt(g, cnt))
                    it.write_key(fr, 'stream.eof', 1)
                else:
                    g = cnt
                it.write_key(fr, 'stream.gcount', g)
                it.act('READ', g)
                return TOP
            if name == 'gcount':
                return it.read_key(fr, 'stream.gcount')
            return TOP
        if name == 'memcpy' or name == 'memmove':
            d, s, c = [Lin.of(it.ev(fr, a, depth)) for a in args[:3]]
            if d is None or s is None or c is None:
                raise AnalysisBroken('encoded reader: %s with untracked operands at %s' % (name, fr.f.loc(n)))
            self.inside(it, fr, n, '%s destination inside mEncodedBuffer' % name, d, c)
            self.inside(it, fr, n, '%s source inside mEncodedBuffer' % name, s, c)
            if name == 'memcpy':
                cns = self.cons(it)
                ok = entails(cns, [le(d + c, s)]) or entails(cns, [le(s + c, d)])
                it.act('NEED', 'memcpy regions do not overlap', fr.f.loc(n), ok)
            return TOP
        if name == '__assert_fail':
            it.act('ASSERTFAIL', fr.f.loc(n))
            raise Thrown('assert')
        if name == 'Decode' and q.startswith(NS):
            b, e = Lin.of(it.ev(fr, args[0], depth)), Lin.of(it.ev(fr, args[1], depth))
            for a in args[2:]:
                it.ev(fr, a, depth)
            if b is None or e is None:
                raise AnalysisBroken('encoded reader: Decode with untracked range at %s' % fr.f.loc(n))
            self.need(it, fr, n, 'Decode range is ordered and inside the window', [le(it.read_key(fr, 'this.mStartDataPtr'), b), le(b, e),
                                                                                  le(e, it.read_key(fr, 'this.mEndDataPtr'))])
            res = self.fresh(it, 'IT', None, None)
            it.facts.extend([le(b, res), le(res, e)])
            if it.choose('DECODE=Success'):
                code = self.codes['Success']
                it.facts.extend(eq(res, e))
            elif it.choose('DECODE=UnexpectedEnd'):
                code = self.codes['UnexpectedEnd']
                it.facts.append(lt(res, e))
            else:
                code = self.codes['InvalidSequence']
            it.act('DECODE', code)
            st = Struct()
            st.fields['ErrorCode'] = code
            st.fields['Iterator'] = res
            st.fields['InvalidSequencesCount'] = TOP
            return st
        if name == 'operator bool' and obj is not None:
            v = it.ev(fr, obj, depth)
            if isinstance(v, Struct) and isinstance(v.fields.get('ErrorCode'), int):
                return 1 if v.fields['ErrorCode'] == self.codes['Success'] else 0       # UtfEncodingResult: true iff Success
        if name == 'HandleEncodingError':
            for a in args:
                it.ev(fr, a, depth)
            return 1 if it.choose('POLICY=Skip') else 0
        if name == 'DetectEncoding':
            for a in args[:1]:
                it.ev(fr, a, depth)
            bom = self.fresh(it, 'BOM', 0, 4)
            key = it.lvalue(fr, args[1], depth)
            if key is not None:
                it.write_key(fr, key, bom)
            it.facts.append(le(bom, it.read_key(fr, 'this.mEndDataPtr') - it.read_key(fr, 'this.mStartDataPtr')))
            return Sym('UTFTYPE')
        if not callee.get('repo') or q.startswith('std::'):
            for a in args:
                it.ev(fr, a, depth)
            return TOP
        return NotImplemented

    def construct(self, it, fr, n, depth):
        vals = [it.ev(fr, a, depth) for a in n.get('c', ())]
        return vals[0] if len(vals) == 1 else TOP


class ReaderInterp(LinInterp, Interp):
    pass


def analyse(prog, f, chunk, eof0, ctor=False, failing=False):
    model = ReaderModel(prog, chunk, eof0, ctor, failing)
    it = ReaderInterp(prog, model, max_depth=3, max_paths=600)

    def init(it_, fr):
        it_.n_fresh = 0
        if ctor:
            it_.facts = []
        else:
            it_.facts = [le(BUF, S0), le(S0, E0), le(E0, BUF + chunk)]
            if failing:
                it_.facts.extend(eq(S0, E0))        # nothing is buffered: whatever ReadChunk returns, it has no data to return it with
        for p in f.params:
            fr.env[p['d']] = TOP
    out = []
    for p in it.run(f, init):
        it.path = p
        it.facts = p.facts
        cns = model.cons(it)
        if unsat(cns):
            continue
        sw = [d for l, d in p.guards if isinstance(l, str) and l.startswith('SWITCH==')]
        if len(sw) >= 5 and not any(sw):
            continue        # mUtfType outside its five enumerators (coverage of the switch is R13.3)
        out.append((p, cns))
    return out


def check(prog, rep, ids=None):
    ids = ids or {'R13.6': 'R13.6', 'R13.7': 'R13.7', 'R13.8': 'R13.8'}      # other properties run the same obligations under their own rule ids
    R6, R7, R8 = ids.get('R13.6'), ids.get('R13.7'), ids.get('R13.8')
    if R6:
      rep.rule(R6, 'CEncodedStreamReader: on every feasible path of the constructor, ReadChunk and its helpers the window invariant '
                      'BUF <= mStartDataPtr <= mEndDataPtr <= BUF + ChunkSize is re-established, refill/squeeze requests fit the buffer, '
                      'memcpy regions do not overlap, Decode gets an ordered range inside the window, and the code\'s own asserts are entailed', floor=70)
    if R7:
      rep.rule(R7, 'CEncodedStreamReader::ReadChunk at end of file: a Success result leaves the window empty, so IsEnd() becomes true '
                      '(otherwise every "until IsEnd()" loop of a caller spins forever on a truncated last unit)', floor=4)
    if ids.get('R13.12'):
      rep.rule(ids['R13.12'], 'CEncodedStreamReader::ReadChunk on a stream that has failed without reaching its end (nothing buffered, read() delivers '
                              'nothing, eofbit clear): the result is not Success, so no caller can spin on it', floor=4)
    if R8:
      rep.rule(R8, 'CEncodedStreamReader::ReadChunk returns EndFile only with an empty window and DecodeError only when a decoding error was '
                      'reported or a truncated tail was refused by the policy', floor=8)
    insts = {}
    for f in prog.funcs.values():
        if strip_targs(f.cls or '') == CLS and f.body is not None and '<' in f.cls:
            insts.setdefault(f.cls, []).append(f)
    if not insts:
        raise AnalysisBroken('anchor vanished: no instantiation of CEncodedStreamReader in the analysed units')
    enum_res = prog.enums[NS + 'EncodedStreamReadResult']['items']
    for cls in sorted(insts):
        m = re.search(r',\s*(\d+)>$', cls)
        chunk = int(m.group(1)) if m else 256
        short = cls.replace(NS, '')
        for f in sorted(insts[cls], key=lambda g: g.id):
            nm = f.name
            is_ctor = nm == 'CEncodedStreamReader'
            if not (is_ctor or nm in ('ReadChunk', 'ReadNextEncodedChunk') or nm.startswith('DecodeChunk')):
                continue
            rep.touch(f)
            fshort = f.id.split('|')[0].replace(NS, '')
            fshort = re.sub(r', std::allocator<\w+>', '', fshort)
            agg = {}
            n_paths = 0
            for eof0 in ((False,) if is_ctor else (False, True)):
                for p, cns in analyse(prog, f, chunk, eof0, ctor=is_ctor):
                    n_paths += 1
                    for a in p.actions:
                        if a[0] == 'NEED':
                            agg.setdefault((a[1], a[2]), []).append(a[3])
                        elif a[0] == 'ASSERTFAIL':
                            agg.setdefault(('assert holds', a[1]), []).append(False)
                    if p.outcome[0] == 'THROW':
                        continue
                    s1 = Lin.of(p.store.get('this.mStartDataPtr', BUF if is_ctor else S0))
                    e1 = Lin.of(p.store.get('this.mEndDataPtr', BUF if is_ctor else E0))
                    if s1 is None or e1 is None:
                        agg.setdefault(('window pointers stay tracked', f.loc()), []).append(False)
                        continue
                    inv = entails(cns, [le(BUF, s1), le(s1, e1), le(e1, BUF + chunk)])
                    agg.setdefault(('window invariant on return', f.loc()), []).append(inv)
                    if nm == 'ReadChunk':
                        eof1 = p.store.get('stream.eof', 1 if eof0 else 0)
                        ret = p.outcome[1]
                        decoded = [a[1] for a in p.actions if a[0] == 'DECODE']
                        policy = dict((l, d) for l, d in p.guards if l == 'POLICY=Skip')
                        cell = 'eof' if eof1 == 1 else 'more data'
                        if ret == enum_res['Success'] and eof1 == 1:
                            ok = entails(cns, eq(s1, e1))
                            rep7 = ('R13.7', '%s|Success at eof' % fshort)
                            agg.setdefault(rep7, []).append((ok, 'decoder result %s' % (decoded or ['none (pass-through)'])))
                        if ret == enum_res['EndFile']:
                            ok = entails(cns, eq(s1, e1)) and eof1 == 1
                            agg.setdefault(('R13.8', '%s|EndFile' % fshort), []).append((ok, 'EndFile with pending bytes or before eof'))
                        if ret == enum_res['DecodeError']:
                            model_codes = prog.enums[NS + 'UtfEncodingErrorCode']['items']
                            code = decoded[-1] if decoded else None
                            if code == model_codes['InvalidSequence']:
                                ok, why = True, ''
                            elif code == model_codes['UnexpectedEnd']:
                                # a sequence cut by the chunk boundary continues in the next chunk: an error only when the stream has ended
                                ok, why = eof1 == 1, 'DecodeError for a sequence that merely straddles the chunk boundary (more data follows): valid text is rejected'
                            else:
                                ok = code is not None and policy.get('POLICY=Skip') is False and eof1 == 1
                                why = 'DecodeError although the decoder reported Success and nothing was refused'
                            agg.setdefault(('R13.8', '%s|DecodeError' % fshort), []).append((ok, why))
            if nm == 'ReadChunk' and ids.get('R13.12'):
                # a stream that fails (read() delivers nothing, eofbit not set) while nothing is buffered: Success would be 'no data, not the end' -
                # every caller loop (`while (!IsEnd()) ReadChunk(...)`, the CSV scanner) then spins forever
                oks = []
                for p, cns in analyse(prog, f, chunk, False, failing=True):
                    if p.outcome[0] == 'THROW' or not any(a[0] == 'FAILED' for a in p.actions):
                        continue
                    oks.append(p.outcome[1] != enum_res['Success'])
                if not oks:
                    raise AnalysisBroken('encoded reader: no path of ReadChunk reaches a read on a failing stream')
                if all(oks):
                    rep.ok(ids['R13.12'], '%s|failing stream' % fshort, sample={'function': fshort, 'paths': len(oks)})
                else:
                    rep.finding(ids['R13.12'], '%s|Success on a failed stream' % strip_targs(fshort), f.loc(),
                                '%s: with an empty window and a stream whose read() delivers nothing without setting eofbit (device error), ReadChunk '
                                'returns Success: callers see "no data, not the end" and loop forever instead of getting EndFile / an error' % fshort, func=f.id)
            if not n_paths:
                raise AnalysisBroken('encoded reader: no feasible path through %s' % f.id[:120])
            for key, oks in sorted(agg.items(), key=lambda kv: str(kv[0])):
                if key[0] in ('R13.7', 'R13.8'):
                    if not ids.get(key[0]):
                        continue
                    bad = [w for ok, w in oks if not ok]
                    if bad:
                        key = (key[0], strip_targs(key[1].split('|')[0]) + '|' + key[1].split('|', 1)[1])
                        msg = {'R13.7': 'ReadChunk returns Success at end of file while bytes remain in the window (%s): IsEnd() never becomes true - a stream '
                                        'whose byte count is not a multiple of the code unit makes every reader loop spin forever',
                               'R13.8': '%s'}[key[0]] % (sorted(set(bad))[0] if key[0] == 'R13.7' else '; '.join(sorted(set(b for b in bad if b))))
                        rep.finding(ids[key[0]], key[1], f.loc(), '%s: %s' % (fshort, msg), func=f.id)
                    else:
                        rep.ok(ids[key[0]], key[1], sample={'function': fshort, 'paths': len(oks)})
                    continue
                if not R6:
                    continue
                what, where = key
                if all(oks):
                    rep.ok(R6, '%s|%s|%s' % (fshort, what, where), sample={'function': fshort, 'obligation': what, 'at': where, 'paths': len(oks)})
                else:
                    rep.finding(R6, '%s|%s' % (strip_targs(fshort), what), where,
                                '%s: "%s" is not entailed on %d of %d feasible path(s)' % (fshort, what, len([o for o in oks if not o]), len(oks)), func=f.id)
