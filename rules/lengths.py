"""Length preservation (C11 R11.3): text whose length is known is never re-measured with strlen semantics.

A std::basic_string / basic_string_view built from the bare pointer returned by c_str() / data() of another string loses everything after
an embedded U+0000 (legal in every UTF form). Expected count on the library: zero; a positive example in the witness must match."""
from bsv.dtab import AnalysisBroken
from bsv.facts import strip


def sites(prog):
    out = []
    seen = set()
    for f in sorted(prog.funcs.values(), key=lambda g: g.id):
        if not f.sym.get('repo') or f.body is None:
            continue
        for n in f.walk():
            if n['k'] not in ('CXXConstructExpr', 'CXXTemporaryObjectExpr'):
                continue
            t = f.type(n)
            if not ('basic_string_view<' in t or t.startswith('std::basic_string<') or t.startswith('const std::basic_string<')):
                continue
            args = [a for a in n.get('c', []) if a and a['k'] != 'CXXDefaultArgExpr']
            if len(args) != 1:
                continue
            a = strip(args[0])
            if a is None or a['k'] != 'CXXMemberCallExpr':
                continue
            c = f.callee(a) or {}
            if c.get('n') in ('c_str', 'data') and c.get('q', '').startswith('std::basic_string'):
                key = f.loc(n)
                if key in seen:
                    continue
                seen.add(key)
                out.append((f, n, t, c))
    return out


def check(prog, rep, rule):
    rep.rule(rule, 'no string / string_view is built from the bare c_str() / data() pointer of another string (length re-measured up to the first '
                   'U+0000): expected zero sites in the library, one positive example in the witness', floor=1)
    pos = 0
    for f, n, t, c in sites(prog):
        if 'witness/' in f.relfile or f.relfile.startswith('/verif') or 'positive_example' in f.id:
            pos += 1
            rep.ok(rule, 'positive example matched|%s' % f.name, nontrivial=True, sample={'site': f.loc(n), 'type': t[:60]})
            continue
        rep.touch(f)
        rep.finding(rule, '%s|view from bare pointer' % (f.pq if f.cls else f.name).split('<')[0], f.loc(n),
                    '%s builds a %s from %s() alone: text after an embedded U+0000 is dropped (transcoding and key conversion are then neither exact '
                    'nor reversible)' % (f.pq if f.cls else f.name, t[:50], c.get('n')), func=f.id)
    if not pos:
        raise AnalysisBroken('%s: the positive example in the witness was not matched - the pattern no longer recognises the construct' % rule)
