"""C04 - numbers load exactly or are reported per policy, never silently altered (structural clauses)."""
import re
from bsv.dtab import INT_TYPES, base_type
from bsv.effects import live_walk
from bsv.facts import AnalysisBroken, child, children_with_role, strip, strip_targs
from rules.c20 import pattern_in_lib

PROP = 'C04'
LEVEL = 'other'
EXPLANATION = ('R4.1: every store into an arithmetic load target (reference parameter of a value-loading function of the four archives and '
               'both MsgPack readers, every fundamental T) is produced by a checked conversion, a same-type value, a bit copy of equal width or '
               'a widening - never by a narrowing / sign-changing / int<->float cast (clang cast kinds and types, per instantiation). '
               'R4.2: ConvertByPolicy assigns the target only from Convert::To inside the try, maps invalid_argument to the mismatched-types '
               'policy and out_of_range to the overflow policy, and no exception thrown inside the try is re-coded by its own catch(...). '
               'R4.3: the arithmetic Convert::To overload assigns the target only under its success flag and throws out_of_range otherwise. '
               'R4.4: conversion functions throw only invalid_argument / out_of_range (tabled internal errors aside). R4.5: the hand-written '
               'policy mappers agree on which policy handles which exception. Not decided: the arithmetic of the range test itself.')
ASSUMPTIONS = ['Convert::To and ConvertByPolicy are the only checked conversions; their own discipline is checked by R4.2-R4.4']
TRUSTED = ['clang 14 AST (cast kinds, types per instantiation)', 'bsfacts']

FLOATS = {'float': 32, 'double': 64, 'long double': 80}
LOSSY_KINDS = ('IntegralCast', 'FloatingCast', 'IntegralToFloating', 'FloatingToIntegral', 'IntegralToBoolean', 'FloatingToBoolean', 'BooleanToSignedIntegral')


def value_preserving(src, dst, ck):
    s, d = base_type(src), base_type(dst)
    if s == d:
        return True
    if s in INT_TYPES and d in INT_TYPES:
        sb, ss = INT_TYPES[s]
        db, ds = INT_TYPES[d]
        if sb == 1:
            return True                      # bool -> any integer keeps 0/1
        if db == 1:
            return False
        if sb == db == 8:
            return True                      # byte reinterpretation (char <-> unsigned char): bit copy of equal width
        if ss == ds:
            return db >= sb
        if not ss and ds:
            return db > sb                   # unsigned -> wider signed
        return False                          # signed -> unsigned
    if s in FLOATS and d in FLOATS:
        return FLOATS[d] >= FLOATS[s]
    if s.startswith('enum ') or d.startswith('enum '):
        return True
    if s not in INT_TYPES and s not in FLOATS:
        return True                           # class types etc.: not an arithmetic cast
    return False


def is_arith(t):
    b = base_type(t)
    return b in INT_TYPES or b in FLOATS


def load_side(f):
    s = f.cls + ' ' + f.id
    if 'SerializeMode::Save' in f.cls or 'Write' in f.cls.rsplit('::', 1)[-1]:
        return False
    return True


def run(prog, rep):
    rep.rule('R4.1', 'no narrowing / sign-changing / int<->float cast on the value stored into an arithmetic load target', floor=40)
    rep.rule('R4.2', 'ConvertByPolicy: target assigned only from Convert::To inside the try; invalid_argument -> mismatched-types policy, '
                     'out_of_range -> overflow policy, catch(...) always throws; nothing thrown inside the try is re-coded by its own catch(...)', floor=30)
    rep.rule('R4.3', 'Convert::Detail::To(arith, arith): every assignment of the target is conditional on the success flag, failure throws out_of_range', floor=100)
    rep.rule('R4.4', 'conversion functions throw only std::invalid_argument / std::out_of_range (internal errors tabled)', floor=40)
    rep.rule('R4.5', 'the policy mappers give out_of_range the overflow policy and invalid_argument (or a catch-all) the mismatched-types policy', floor=4)

    check_integer_conversion(prog, rep)

    # ---------------------------------------------------------------- R4.7 / R4.8 wire value -> range-checked conversion (tables shared with C07 / C08)
    rep.rule('R4.7', 'MsgPack readers, integer and floating targets: for every first byte of the family the payload is read with the width and '
                     'signedness the format assigns and that value (not a reinterpreted one) is what reaches the range-checked conversion; both readers', floor=2 * 300)
    rep.rule('R4.7x', 'MsgPack readers, integer and floating targets: the cursor ends behind the value', floor=2 * 300)
    from rules import json_load, msgpack_tables
    msgpack_tables.check_accept_tables(prog, rep, 'R4.7', 'R4.7x', families=('int', 'float'), declare=False, value_types=False)
    rep.rule('R4.8', 'JSON LoadValue decision table over the kinds of JSON number x target kind: integers go through the range-checked conversion of the '
                     'getter that is valid for their class (GetInt64 / GetUint64), every number spelling reaches a floating target through GetDouble', floor=10)
    json_load.check(prog, rep, 'R4.8')

    # ---------------------------------------------------------------- R4.1
    loaders = ('SerializeValue', 'LoadValue', 'ReadInteger', 'ReadValue', 'GetValue', 'LoadAttrValue')
    for f in sorted(prog.funcs.values(), key=lambda x: x.id):
        if not pattern_in_lib(f) or f.name not in loaders or not load_side(f):
            continue
        targets = {}
        for p in f.params:
            t = f.tu['types'][p['t']]
            if t.rstrip().endswith('&') and not t.startswith('const ') and is_arith(t):
                targets[p['d']] = (p['n'], t)
        if not targets:
            continue
        rep.touch(f)
        for n in live_walk(f):
            if n['k'] != 'BinaryOperator' or n.get('op') != '=':
                continue
            lhs = strip(n['c'][0])
            if lhs is None or lhs['k'] != 'DeclRefExpr' or lhs.get('d') not in targets:
                continue
            name, tt = targets[lhs['d']]
            bad = None
            e = n['c'][1]
            chain = []
            while e is not None and e['k'] in ('ImplicitCastExpr', 'CXXStaticCastExpr', 'CStyleCastExpr', 'CXXFunctionalCastExpr', 'ParenExpr',
                                               'ExprWithCleanups', 'MaterializeTemporaryExpr', 'CXXBindTemporaryExpr'):
                if e.get('ck') in LOSSY_KINDS and e.get('c'):
                    src = f.type(e['c'][0])
                    dst = f.type(e)
                    chain.append((e['ck'], base_type(src), base_type(dst)))
                    if not value_preserving(src, dst, e['ck']):
                        bad = (e['ck'], base_type(src), base_type(dst))
                e = e['c'][0] if e.get('c') else None
            producer = e['k'] if e is not None else '?'
            if e is not None and e['k'] in ('CallExpr', 'CXXMemberCallExpr'):
                s = f.callee(e)
                producer = strip_targs(s['q']) if s else '?'
            site = '%s|%s<-%s|%s' % (f.pq, name, producer, base_type(tt))
            # text-to-number conversions of the back ends / the C library are lenient (first character, saturation, no error report): a load
            # target fed from them bypasses the range-checked conversion and both policies
            if bad is None and re.match(r'(pugi::xml_(attribute|text)::as_\w+|std::(strto\w+|ato\w+|sto\w+))$', producer):
                rep.finding('R4.1', '%s|%s<-%s' % (f.pq, name, producer), f.loc(n),
                            '%s stores the result of %s into the load target: the lenient text conversion of the back end replaces the range-checked '
                            'conversion, so out-of-range or non-numeric text is silently turned into some value instead of reaching the overflow / '
                            'mismatched-types policy' % (f.pq, producer), {'instantiation': f.id}, func=f.id)
                continue
            if bad is None:
                rep.ok('R4.1', site + '|' + f.sym.get('targs', '')[:50], sample={'function': f.pq, 'target': '%s (%s)' % (name, base_type(tt)), 'producer': producer,
                                                                            'casts': chain} if chain else None, nontrivial=bool(chain))
            else:
                rep.finding('R4.1', '%s|%s<-%s' % (f.pq, name, producer), f.loc(n),
                            '%s stores %s into the load target through a %s from %s to %s: values outside the target range are silently '
                            'truncated, wrapped or sign-changed' % (f.pq, producer, bad[0], bad[1], bad[2]), {'instantiation': f.id}, func=f.id)

    # ---------------------------------------------------------------- R4.2 ConvertByPolicy
    _PROG['p'] = prog
    cbp = [f for f in prog.funcs.values() if f.q == 'BitSerializer::Detail::ConvertByPolicy']
    if not cbp:
        raise AnalysisBroken('anchor vanished: BitSerializer::Detail::ConvertByPolicy')
    seen_pat = set()
    for f in sorted(cbp, key=lambda x: x.id):
        rep.touch(f)
        problems = check_convert_by_policy(f)
        site = 'ConvertByPolicy|' + f.sym.get('targs', '')[:80]
        if problems:
            for p in problems:
                key = 'ConvertByPolicy|' + p.split(':')[0]
                rep.finding('R4.2', key, f.loc(), 'ConvertByPolicy: ' + p, {'instantiation': f.id}, func=f.id)
        else:
            rep.ok('R4.2', site, sample={'instantiation': f.sym.get('targs', '')[:100]} if len(seen_pat) < 2 else None)
            seen_pat.add(site)

    # ---------------------------------------------------------------- R4.3 / R4.4
    for f in sorted(prog.funcs.values(), key=lambda x: x.id):
        if f.q != 'BitSerializer::Convert::Detail::To' or not pattern_in_lib(f):
            continue
        rep.touch(f)
        # R4.4: thrown types
        for n in live_walk(f):
            if n['k'] == 'CXXThrowExpr' and not n.get('rethrow'):
                tt = n.get('tt', '')
                site = 'To|%s|%s' % (f.relfile.rsplit('/', 1)[-1], tt)
                if tt in ('std::invalid_argument', 'std::out_of_range'):
                    rep.ok('R4.4', site + '|' + str(n['l']), nontrivial=False)
                elif tt == 'std::runtime_error' and internal_error_text(f, n):
                    rep.ok('R4.4', site + '|internal|' + str(n['l']), sample={'tabled_internal_error': internal_error_text(f, n), 'at': f.loc(n)}, nontrivial=False)
                else:
                    rep.finding('R4.4', site, f.loc(n), 'conversion function throws %s: ConvertByPolicy would report it as ParsingError instead of applying a policy' % tt,
                                {'instantiation': f.id}, func=f.id)
        # R4.3 only for the arithmetic -> arithmetic overload
        if len(f.params) != 2:
            continue
        t0, t1 = f.tu['types'][f.params[0]['t']], f.tu['types'][f.params[1]['t']]
        if not (is_arith(t0) and is_arith(t1)) or base_type(t0) == base_type(t1):
            continue
        tgt = f.params[1]['d']
        site = 'To(%s -> %s)' % (base_type(t0), base_type(t1))
        problems = []
        assigns = [n for n in live_walk(f) if n['k'] == 'BinaryOperator' and n.get('op') == '=' and (strip(n['c'][0]) or {}).get('d') == tgt]
        # the success flag(s): bool locals of the function
        flag_names = set(d['n'] for x in f.walk() if x['k'] == 'DeclStmt' for d in x.get('decls', ()) if f.tu['types'][d['t']].replace('const ', '') == 'bool')
        throws_oor = any(n['k'] == 'CXXThrowExpr' and n.get('tt') == 'std::out_of_range' for n in live_walk(f))
        throws_ia = any(n['k'] == 'CXXThrowExpr' and n.get('tt') == 'std::invalid_argument' for n in live_walk(f))
        if not assigns and not throws_ia:
            problems.append('no assignment of the target and no invalid_argument')
        for a in assigns:
            p = f.parent(a)
            guarded = False
            while p is not None:
                if p['k'] == 'IfStmt' and not p.get('cx'):
                    c = child(p, 'cond')
                    var = child(p, 'var')
                    ini = child(p, 'init')
                    names = set(x.get('n') for x in f.walk(c) if x['k'] == 'DeclRefExpr') if c is not None else set()
                    for extra in (var, ini):
                        if extra is not None:
                            names |= set(x.get('n') for x in f.walk(extra) if x['k'] == 'DeclRefExpr')
                            names |= set(d['n'] for x in f.walk(extra) if x['k'] == 'DeclStmt' for d in x.get('decls', ()))
                    if names & flag_names:
                        guarded = True
                        break
                p = f.parent(p)
            if not guarded:
                problems.append('target assigned at line %d outside the success-flag guard' % a['l'])
        if assigns and not throws_oor:
            problems.append('no throw std::out_of_range on failure')
        if problems:
            rep.finding('R4.3', site.split('(')[0] + '|' + problems[0].split(' at ')[0][:60], f.loc(), '%s: %s' % (site, '; '.join(problems)), {'instantiation': f.id}, func=f.id)
        else:
            rep.ok('R4.3', site, sample={'conversion': site} if base_type(t0) == 'long' and base_type(t1) == 'signed char' else None)

    # ---------------------------------------------------------------- R4.5 policy mappers
    mappers = [('BitSerializer::Detail::ConvertByPolicy', None), ('BitSerializer::Detail::SafeConvertIsoDate', None),
               ('BitSerializer::Csv::Detail::CCsvReadObjectScope::SerializeValue', None),
               ('BitSerializer::Xml::PugiXml::Detail::PugiXmlExtensions::LoadValue', 'arith')]
    for q, flt in mappers:
        fs = [f for f in prog.funcs.values() if f.pq == q and any(n['k'] == 'CXXTryStmt' for n in f.walk())]
        if not fs:
            raise AnalysisBroken('anchor vanished: policy mapper %s (with a try block)' % q)
        f = sorted(fs, key=lambda x: x.id)[0]
        rep.touch(f)
        problems, hs = mapper_problems(prog, f)
        # the target is written by one assignment from a finished conversion, never handed to a callee that may store into it and then
        # throw (the policy then reports 'not loaded' / an error for a field that has already been changed)
        from bsv.effects import classify_use
        t_ = [n for n in f.walk() if n['k'] == 'CXXTryStmt'][0]
        blk = child(t_, 'block')
        for prm in [p_ for p_ in f.params if 't' in p_ and f.type(p_).rstrip().endswith('&') and not f.type(p_).startswith('const')
                    and is_arith(f.type(p_))]:
            for n in f.walk(blk):
                if n['k'] == 'DeclRefExpr' and n.get('d') == prm['d']:
                    use, info = classify_use(f, n)
                    cal = (info[1] or {}).get('n') if isinstance(info, tuple) else None
                    if use in ('escape', 'alias', 'addr') or (use == 'mutcall' and cal != 'operator='):
                        problems.append('the load target "%s" is handed to %s inside the try block: it can be overwritten before the conversion '
                                        'fails, and is then reported as not loaded / skipped by policy' % (prm.get('n'), cal or 'a reference'))
        site = q
        if problems:
            for p in problems:
                rep.finding('R4.5', '%s|%s' % (q, p.split(':')[0][:70]), f.loc(), '%s: %s' % (q.rsplit('::', 1)[-1], p), {'instantiation': f.id}, func=f.id)
        else:
            rep.ok('R4.5', site, sample={'mapper': q, 'handlers': sorted(str(k) for k in hs)})


def internal_error_text(f, n):
    for x in f.walk(n):
        if x['k'] == 'StringLiteral' and ('nternal error' in x.get('s', '') or 'Unknown error' in x.get('s', '')):
            return x['s']
    return None


def handlers_of(f):
    out = {}
    for n in f.walk():
        if n['k'] == 'CXXCatchStmt':
            names = set()
            throws = []
            for x in f.walk(n):
                if x['k'] == 'MemberExpr':
                    names.add(x.get('m'))
                if x['k'] == 'DeclRefExpr':
                    names.add(x.get('n'))
                if x['k'] == 'CXXThrowExpr':
                    throws.append(x.get('tt'))
            out[n.get('ctq', n.get('ct'))] = {'names': names, 'throws': throws, 'node': n}
    return out


_PROG = {}


def is_throw(f, y):
    """a throw expression, or a call of a library helper that cannot return (its body throws and has no return)"""
    if y['k'] == 'CXXThrowExpr':
        return True
    if y['k'] == 'CallExpr':
        c = f.callee(y)
        prog = _PROG.get('p')
        g = prog.funcs.get(c['id']) if (c is not None and c.get('repo') and prog is not None) else None
        if g is not None and g.body is not None:
            ks = [x['k'] for x in g.walk()]
            return 'CXXThrowExpr' in ks and 'ReturnStmt' not in ks
    return False


def check_convert_by_policy(f):
    problems = []
    tries = [n for n in f.walk() if n['k'] == 'CXXTryStmt']
    if len(tries) != 1:
        return ['structure: expected exactly one try statement, found %d' % len(tries)]
    t = tries[0]
    block = child(t, 'block')
    tgt = f.params[1]['d']
    # target assigned only inside the try, only from Convert::To
    for n in live_walk(f):
        if n['k'] == 'BinaryOperator' and n.get('op') == '=' and (strip(n['c'][0]) or {}).get('d') == tgt:
            inside = any(x is n for x in f.walk(block))
            rhs = strip(n['c'][1])
            callee = f.callee(rhs) if rhs is not None and rhs['k'] == 'CallExpr' else None
            if not inside:
                problems.append('assignment: the target is assigned outside the try block')
            if callee is None or strip_targs(callee['q']) != 'BitSerializer::Convert::To':
                problems.append('assignment: the target is assigned from something other than Convert::To')
    hs = {}
    for h in children_with_role(t, 'handler'):
        hs[h.get('ctq', h.get('ct'))] = h
    problems += mapper_problems(_PROG['p'], f)[0]
    ca = hs.get(None)
    if ca is None:
        problems.append('handlers: no catch(...)')
    elif not any(is_throw(f, x) for x in f.walk(ca)):
        problems.append('handlers: catch(...) swallows unknown exceptions')
    # a throw lexically inside the try whose type is not caught by a typed handler ends in catch(...) and is re-coded
    for x in live_walk(f, block):
        if x['k'] == 'CXXThrowExpr' and not x.get('rethrow'):
            bases = x.get('tb', [])
            if not any(ty in bases for ty in hs if ty is not None):
                problems.append('recoding: %s thrown inside the try is caught by the same statement\'s catch(...) and leaves with another error code'
                                % x.get('tt'))
    return problems


# ---------------------------------------------------------------------------------------- R4.6 range check of the integer conversion
def check_integer_conversion(prog, rep):
    """Convert::Detail::To(integer -> integer), every instantiation: the source ranges over its whole type (interval cells split adaptively
    until every guard is decided); a value is stored iff it is representable in the target, the stored value is the source value, and
    everything else throws std::out_of_range."""
    from bsv import interval
    from bsv.interval import Iv
    from bsv.dtab import TOP, INT_TYPES, base_type
    from rules import nowrap
    import re
    rep.rule('R4.6', 'Convert::Detail::To(integer -> integer), every instantiation: over the whole source range a value is stored iff it is '
                     'representable in the target, the stored value equals the source, otherwise std::out_of_range (interval cells)', floor=60)
    fs = [f for f in prog.funcs.values() if f.relfile.endswith('conversion_detail/convert_fundamental.h') and f.name == 'To' and len(f.params) == 2
          and f.body is not None and 't' in f.params[0] and 't' in f.params[1]
          and base_type(f.type(f.params[0])) in INT_TYPES and base_type(f.type(f.params[1])) in INT_TYPES]
    for f in sorted(fs, key=lambda g: g.id):
        src, dst = base_type(f.type(f.params[0])), base_type(f.type(f.params[1]))
        if src not in INT_TYPES or dst not in INT_TYPES:
            continue
        sr, dr = interval.type_range(src), interval.type_range(dst)
        rep.touch(f)

        def setup(it, fr, cell):
            fr.env[f.params[0]['d']] = cell
            fr.alias[f.params[1]['d']] = 'out.target'
        cells = nowrap.explore(prog, f, sr[0], sr[1], setup, None, max_depth=1)
        bad = []
        for cell, paths in cells:
            inside = dr[0] <= cell.lo and cell.hi <= dr[1]
            outside = cell.hi < dr[0] or cell.lo > dr[1]
            if not (inside or outside):
                bad.append(('undecided boundary', 'cell [%d, %d] straddles the range of %s' % (cell.lo, cell.hi, dst)))
                continue
            rets = [p for p in paths if p.outcome[0] == 'RET']
            throws = [p for p in paths if p.outcome[0] == 'THROW']
            for p in throws:
                if 'out_of_range' not in str(p.outcome[1]):
                    bad.append(('exception type', 'throws %s for [%d, %d]' % (p.outcome[1], cell.lo, cell.hi)))
            if inside:
                good = False
                for p in rets:
                    v = p.store.get('out.target', TOP)
                    iv = interval.as_iv(v)
                    if iv is not None and getattr(v, 'tag', '') != 'ANY' and (iv.lo, iv.hi) == (cell.lo, cell.hi):
                        good = True
                    else:
                        bad.append(('wrong value stored', 'source values [%d, %d] store %r' % (cell.lo, cell.hi, v)))
                if not good and not any(b[0] == 'wrong value stored' for b in bad):
                    bad.append(('valid value refused', 'source values [%d, %d] fit %s but are never stored' % (cell.lo, cell.hi, dst)))
            else:
                for p in rets:
                    if 'out.target' in p.store:
                        bad.append(('out-of-range value stored', 'source values [%d, %d] do not fit %s but a value (%r) is stored and the call returns normally'
                                    % (cell.lo, cell.hi, dst, p.store['out.target'])))
                    else:
                        bad.append(('out-of-range value accepted', 'source values [%d, %d] do not fit %s but the call returns normally' % (cell.lo, cell.hi, dst)))
        short = 'To(%s -> %s)' % (src, dst)
        if bad:
            seen = set()
            for kind, msg in bad:
                if kind in seen:
                    continue
                seen.add(kind)
                rep.finding('R4.6', '%s|%s' % (short, kind), f.loc(), 'Convert::Detail::%s: %s' % (short, msg), func=f.id)
        else:
            rep.ok('R4.6', short, sample={'conversion': short, 'cells': [(c.lo, c.hi) for c, _ in cells][:6]})


# ---------------------------------------------------------------------------------------- handlers of the policy mappers, by execution
def handler_throws(prog, f, h, mm, ov):
    """the handler h of f's try statement interpreted with the two policies bound to enumerator values (parameters, or members of an options
    object, by name); the statements of the function that precede the try run first (named flags). Returns the set {'throw', 'no throw'}."""
    from bsv.dtab import TOP, Interp, Model, Sym
    mmv, ovv = mm, ov

    class M(Model):
        def initial_store(self, it, key):
            return TOP

        def member_value(self, it, fr, n, base):
            if n.get('m') == 'mismatchedTypesPolicy':
                return mmv
            if n.get('m') == 'overflowNumberPolicy':
                return ovv
            return TOP

        def compare(self, it, fr, n, op, a, b):
            return Sym(('GUARD', 'CMP@%s' % fr.f.loc(n)))

        def construct(self, it, fr, n, depth):
            for a in n.get('c', ()):
                it.ev(fr, a, depth)
            return TOP

        def primitive(self, it, fr, n, callee, depth):
            g = it.prog.funcs.get(callee['id']) if callee.get('repo') else None
            if g is not None and g.body is not None and pattern_in_lib(g) and depth < it.max_depth and len(list(g.walk())) < 120 \
                    and any(x['k'] == 'CXXThrowExpr' for x in g.walk()):
                return NotImplemented        # small helpers that throw the library's exception
            obj, args = it.call_args(fr, n)
            for a in args:
                it.ev(fr, a, depth)
            return TOP
    t = [n for n in f.walk() if n['k'] == 'CXXTryStmt'][0]
    pre = []
    for st in (f.body or {}).get('c', []):
        if st is t or any(x is t for x in f.walk(st)):
            break
        if st['k'] == 'DeclStmt':
            pre.append(st)
    body = {'k': 'CompoundStmt', 'i': -1, 'l': h.get('l', 0), 'c': pre + [h['c'][-1]]}
    it = Interp(prog, M(), max_depth=2, max_paths=400)

    def init(it_, fr):
        for p in f.params:
            nm = p.get('n')
            fr.env[p['d']] = mmv if nm == 'mismatchedTypesPolicy' else (ovv if nm == 'overflowNumberPolicy' else TOP)
    out = set()
    for p in it.run(f, init, body=body):
        out.add('throw' if p.outcome[0] == 'THROW' else 'no throw')
    return out


def mapper_problems(prog, f):
    """range errors follow the overflow policy, conversion failures the mismatched-types policy: each handler throws on every path under
    ThrowError and on none under Skip, whatever the other policy says"""
    mm_e = prog.enums.get('BitSerializer::MismatchedTypesPolicy')
    ov_e = prog.enums.get('BitSerializer::OverflowNumberPolicy')
    if not mm_e or not ov_e:
        raise AnalysisBroken('anchor vanished: enum MismatchedTypesPolicy / OverflowNumberPolicy')
    T, S = 'ThrowError', 'Skip'
    hs = {}
    for t in [n for n in f.walk() if n['k'] == 'CXXTryStmt'][:1]:
        for h in children_with_role(t, 'handler'):
            hs[h.get('ctq', h.get('ct'))] = h
    problems = []
    oor = hs.get('std::out_of_range')
    if oor is None:
        problems.append('no handler for std::out_of_range: a range error is reported through the catch-all (wrong policy / wrong error code)')
    else:
        for other in (T, S):
            if handler_throws(prog, f, oor, mm_e['items'][other], ov_e['items'][T]) != {'throw'}:
                problems.append('handlers: catch(std::out_of_range) does not throw on every path under overflowNumberPolicy == ThrowError')
            if 'throw' in handler_throws(prog, f, oor, mm_e['items'][other], ov_e['items'][S]):
                problems.append('handlers: catch(std::out_of_range) throws under overflowNumberPolicy == Skip (Skip cannot be honoured)')
    mmh = hs.get('std::invalid_argument') or hs.get(None)
    if mmh is None:
        problems.append('no handler that maps conversion failures to the mismatched-types policy')
    else:
        what = 'catch(std::invalid_argument)' if hs.get('std::invalid_argument') is not None else 'the catch-all handler'
        for other in (T, S):
            if handler_throws(prog, f, mmh, mm_e['items'][T], ov_e['items'][other]) != {'throw'}:
                problems.append('handlers: %s does not throw on every path under mismatchedTypesPolicy == ThrowError' % what)
            if 'throw' in handler_throws(prog, f, mmh, mm_e['items'][S], ov_e['items'][other]):
                problems.append('handlers: %s throws under mismatchedTypesPolicy == Skip (Skip cannot be honoured)' % what)
    return sorted(set(problems)), hs
