"""The configured CSV values separator reaches every place that decides with it (C01 R1.9, C09 R9.8, C10 R10.13).

The readers / writers take the separator as a constructor parameter with the default ','; the archive passes
SerializationOptions::valuesSeparator; helpers take it as a parameter. A layer that forgets to pass it on still compiles (default argument,
or a literal) and behaves identically for ',' - the only separator most tests use. Rule: every call, from the CSV sources, of a repo function
or constructor (directly or through std::make_unique) that has a separator parameter passes an argument that derives from a separator
source: a data member / parameter whose name contains 'separator', or the option field valuesSeparator."""
import re
from bsv.dtab import AnalysisBroken
from bsv.expr import resolve
from bsv.facts import strip, strip_targs

CSV_FILES = ('src/csv/', 'include/bitserializer/csv_archive.h')


def is_sep_name(nm):
    return bool(nm) and 'separator' in nm.lower() and 'path' not in nm.lower() and 'allowed' not in nm.lower()


def derives_from_separator(f, a):
    a = resolve(f, a)
    for x in f.walk(a):
        if x['k'] == 'MemberExpr' and is_sep_name(x.get('m')):
            return True
        if x['k'] == 'DeclRefExpr' and is_sep_name(x.get('n')):
            return True
    return False


def check(prog, rep, rule, floor=8):
    rep.rule(rule, 'CSV: every call of a function / constructor that has a separator parameter passes the configured separator '
                   '(member, parameter or SerializationOptions::valuesSeparator) - never the default argument or a literal', floor=floor)
    ctors = {}
    for g in prog.funcs.values():
        if g.sym.get('kind') == 'ctor' and g.sym.get('repo') and any(is_sep_name(p.get('n')) for p in g.params):
            ctors.setdefault(strip_targs(g.cls or ''), []).append(g)
    n = 0
    for f in sorted(prog.funcs.values(), key=lambda g: g.id):
        if f.body is None or not f.relfile.startswith(CSV_FILES):
            continue
        for c in list(f.walk()) + [i['e'] for i in f.raw.get('inits', []) if 'e' in i]:
            for x in (f.walk(c) if c.get('k') not in ('CallExpr', 'CXXMemberCallExpr', 'CXXConstructExpr', 'CXXTemporaryObjectExpr') else [c]):
                if x['k'] not in ('CallExpr', 'CXXMemberCallExpr', 'CXXConstructExpr', 'CXXTemporaryObjectExpr'):
                    continue
                s_ = f.callee(x)
                if s_ is None:
                    continue
                target, args = None, None
                if s_.get('repo'):
                    target = prog.funcs.get(s_['id'])
                    args = x['c'][1:] if x['k'] in ('CallExpr', 'CXXMemberCallExpr') else x.get('c', [])
                elif s_.get('n') in ('make_unique', 'make_shared'):
                    m = re.match(r'std::make_(?:unique|shared)<([\w:]+)', s_['id'])
                    cands = ctors.get(m.group(1), []) if m else []
                    args = x['c'][1:]
                    cands = [g for g in cands if len([p for p in g.params]) >= len(args)]
                    target = cands[0] if cands else None
                if target is None:
                    continue
                for i, p in enumerate(target.params):
                    if not is_sep_name(p.get('n')):
                        continue
                    key = (f.id, x.get('i'), i)
                    n += 1
                    rep.touch(f)
                    site = '%s -> %s|%s' % (f.pq if f.cls else f.name, target.pq if target.cls else target.name, f.loc(x))
                    a = args[i] if i < len(args) else None
                    if a is None or a['k'] == 'CXXDefaultArgExpr':
                        rep.finding(rule, '%s -> %s|default separator' % (f.pq if f.cls else f.name, target.name), f.loc(x),
                                    '%s calls %s without a separator argument: the callee uses its default \',\' whatever '
                                    'SerializationOptions::valuesSeparator says' % (f.pq if f.cls else f.name, target.pq if target.cls else target.name), func=f.id)
                    elif not derives_from_separator(f, a):
                        rep.finding(rule, '%s -> %s|separator argument' % (f.pq if f.cls else f.name, target.name), f.loc(x),
                                    '%s passes a separator to %s that does not derive from the configured one'
                                    % (f.pq if f.cls else f.name, target.pq if target.cls else target.name), func=f.id)
                    else:
                        rep.ok(rule, site)
    if n == 0:
        raise AnalysisBroken('%s: no call with a separator parameter found in the CSV sources' % rule)
