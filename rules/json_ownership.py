"""Every string that enters the RapidJSON DOM on the save side is copied with the document allocator (C01 R1.11, C08 R8.12).

The DOM is rendered only in Finalize(), after the whole model has been visited; the strings handed to the archive (keys converted per
element, text transcoded through the one per-session buffer, ISO dates, paths) are gone or overwritten by then. RapidJSON offers both
owning (..., allocator) and non-owning (GenericStringRef / "constant string") forms of every string operation, and they differ only in
an argument, so the rule is an ownership rule over the resolved callees:

  * a non-owning site is (a) a construction of rapidjson::GenericStringRef, (b) a GenericValue constructor / SetString whose string
    parameter is a character pointer and which takes no allocator;
  * it is allowed when the referenced storage is a string literal, or when the node it makes is only ever a lookup argument of FindMember
    (the helper that returns it is followed to every one of its call sites); a key given as a character pointer is no exception - it is
    typically composed in a buffer that is reused for the next field (/repo a00c2f2);
  * anything else is a finding."""
from bsv.dtab import AnalysisBroken
from bsv.facts import strip

CALLS = ('CallExpr', 'CXXMemberCallExpr', 'CXXConstructExpr', 'CXXTemporaryObjectExpr', 'CXXOperatorCallExpr')
FILE = 'include/bitserializer/rapidjson_archive.h'


def _src(f, n):
    """first argument of a construction, with casts / temporaries removed"""
    a = n['c'][0] if n.get('c') else None
    while a is not None and a['k'] in ('ImplicitCastExpr', 'ParenExpr', 'MaterializeTemporaryExpr', 'CXXBindTemporaryExpr', 'ExprWithCleanups',
                                       'CXXFunctionalCastExpr', 'CXXStaticCastExpr') and a.get('c'):
        a = a['c'][0]
    return a


def non_owning_sites(f):
    for n in f.walk():
        if n['k'] not in CALLS:
            continue
        c = f.callee(n)
        if c is None:
            continue
        q = c.get('q') or ''
        pts = [f.type(p) for p in c.get('pt', [])]
        if n['k'] in ('CXXConstructExpr', 'CXXTemporaryObjectExpr') and q.startswith('rapidjson::GenericStringRef'):
            if pts and 'GenericStringRef' in pts[0]:
                continue    # copy of a reference that is itself a site
            yield n, 'GenericStringRef'
        elif q.startswith('rapidjson::GenericValue<') and c.get('n') in ('GenericValue', 'SetString') and pts:
            p0 = pts[0].replace('const ', '').strip()
            if p0.endswith('*') and not any('Allocator' in p for p in pts):
                yield n, '%s(%s) without an allocator' % (c.get('n'), ', '.join(pts))
        elif q.startswith('rapidjson::StringRef'):
            yield n, 'StringRef()'


def _enclosing_call(f, n):
    """the nearest call this expression is an argument of, looking through value wrappers"""
    p = f.parent(n)
    while p is not None and p['k'] in ('ImplicitCastExpr', 'ParenExpr', 'MaterializeTemporaryExpr', 'CXXBindTemporaryExpr', 'ExprWithCleanups',
                                       'CXXFunctionalCastExpr', 'CXXStaticCastExpr'):
        p = f.parent(p)
    while p is not None and p['k'] in ('CXXConstructExpr', 'CXXTemporaryObjectExpr'):
        c = f.callee(p)
        pts = [f.type(x) for x in (c or {}).get('pt', [])]
        # moving / wrapping the reference into a node keeps it a reference: GenericValue(GenericStringRef), copy and move constructors
        if c is not None and len(pts) == 1 and ('GenericStringRef' in pts[0] or 'GenericValue' in pts[0]):
            p = f.parent(p)
            while p is not None and p['k'] in ('ImplicitCastExpr', 'ParenExpr', 'MaterializeTemporaryExpr', 'CXXBindTemporaryExpr',
                                               'ExprWithCleanups', 'CXXFunctionalCastExpr', 'CXXStaticCastExpr'):
                p = f.parent(p)
        else:
            break
    return p


WRAP = ('ImplicitCastExpr', 'ParenExpr', 'MaterializeTemporaryExpr', 'CXXBindTemporaryExpr', 'ExprWithCleanups', 'CXXFunctionalCastExpr',
        'CXXStaticCastExpr', 'CXXConstCastExpr')


def sinks(funcs, f, n, depth, origin=None):
    """Where does the non-owning value computed by expression n end up? A list of ('lookup',) / ('compare',) / ('bad', callee, func, node).
    Followed: value wrappers, GenericValue(GenericStringRef) and copy / move constructions, named locals (every use of the variable),
    std::move / std::forward, and the return value (every call site of the function, to depth 3)."""
    origin = origin or (f, n)
    if depth > 3:
        return [('bad', 'a chain of helpers deeper than the rule follows', f, n)]
    p = f.parent(n)
    cur = n
    while p is not None:
        if p['k'] in WRAP:
            cur, p = p, f.parent(p)
            continue
        if p['k'] in ('CXXConstructExpr', 'CXXTemporaryObjectExpr'):
            c = f.callee(p)
            pts = [f.type(x) for x in (c or {}).get('pt', [])]
            if c is not None and len(pts) == 1 and ('GenericStringRef' in pts[0] or 'GenericValue' in pts[0]):
                cur, p = p, f.parent(p)
                continue
        if p['k'] == 'CallExpr' and (f.callee(p) or {}).get('n') in ('move', 'forward') and (f.callee(p) or {}).get('q', '').startswith('std::'):
            cur, p = p, f.parent(p)
            continue
        break
    if p is None:
        return []
    if p['k'] == 'ReturnStmt':
        out = []
        n_calls = 0
        for g in funcs:
            for m in g.walk():
                if m['k'] not in CALLS:
                    continue
                cc = g.callee(m)
                if cc is None or cc.get('q') != f.q or cc.get('n') != f.name:
                    continue
                n_calls += 1
                out.extend(sinks(funcs, g, m, depth + 1, origin))
        return out
    if p['k'] == 'DeclStmt':
        ds = p.get('decls', [])
        # which declarator does cur initialise?
        idx = [i for i, c in enumerate(p.get('c', [])) if c is cur]
        d = ds[idx[0]] if idx and idx[0] < len(ds) else (ds[0] if len(ds) == 1 else None)
        if d is None:
            return [('bad', 'a declaration the rule cannot read', f, n)]
        out = []
        for x in f.walk():
            if x['k'] == 'DeclRefExpr' and x.get('d') == d['d']:
                out.extend(sinks(funcs, f, x, depth, origin))
        return out
    if p['k'] in CALLS:
        c = f.callee(p) or {}
        nm = c.get('n')
        if nm == 'FindMember':
            return [('lookup',)]
        if nm in ('operator==', 'operator!='):
            return [('compare',)]
        if nm in ('GetString', 'GetStringLength', 'IsString'):
            return []
        return [('bad', nm, origin[0] if depth == 0 and origin[1] is n else f, origin[1] if depth == 0 and origin[1] is n else p)]
    if p['k'] in ('BinaryOperator',) and p.get('op') in ('==', '!='):
        return [('compare',)]
    return [('bad', None, origin[0] if depth == 0 and origin[1] is n else f, origin[1] if depth == 0 and origin[1] is n else cur)]


def check(prog, rep, rule):
    rep.rule(rule, 'RapidJSON DOM: a string node is non-owning only for a literal or as a FindMember lookup '
                   'argument; every other string is copied with the allocator (the document is rendered later, in Finalize)', floor=2)
    funcs = [f for f in prog.funcs.values() if f.body is not None and f.relfile == FILE]
    if not funcs:
        raise AnalysisBroken('%s: no function of %s in the facts' % (rule, FILE))
    seen = set()
    done = set()
    n_own = 0
    for f in sorted(funcs, key=lambda g: g.id):
        for n in f.walk():
            if n['k'] in CALLS:
                c = f.callee(n)
                if c is not None and (c.get('q') or '').startswith('rapidjson::GenericValue<') and any('Allocator' in f.type(p) for p in c.get('pt', [])) \
                        and c.get('n') in ('GenericValue', 'SetString'):
                    n_own += 1
        for n, what in non_owning_sites(f):
            key = (f.pq if f.cls else f.name, n['l'])
            if (f.id, n['l']) in seen:
                continue
            seen.add((f.id, n['l']))
            rep.touch(f)
            name = '%s:%d' % (key[0], n['l'])
            a = _src(f, n)
            if a is not None and a['k'] == 'StringLiteral':
                rep.ok(rule, '%s|literal' % name, sample={'site': f.loc(n), 'form': what})
                continue
            res = sinks(funcs, f, n, 0)
            bad = [x for x in res if x[0] == 'bad']
            if not res:
                rep.ok(rule, '%s|not used' % name, sample={'site': f.loc(n)})
            elif not bad:
                kinds = sorted(set(x[0] for x in res))
                rep.ok(rule, '%s|%s' % (name, 'lookup argument of FindMember' if kinds == ['lookup'] else 'reaches only ' + ' / '.join(kinds)),
                       sample={'site': f.loc(n), 'form': what, 'uses followed': len(res)})
            else:
                for _, un, g, m in bad:
                    k2 = (g.pq if g.cls else g.name, m['l'])
                    if k2 in done:
                        continue
                    done.add(k2)
                    if g is f and m is n:
                        rep.finding(rule, '%s|non-owning string node (%s)' % (key[0], what), f.loc(n),
                                    '%s: %s refers to the caller\'s characters without copying them%s: the DOM is rendered only in Finalize(), when a '
                                    'transcoding buffer or temporary string it points into has been overwritten or destroyed'
                                    % (key[0], what, (' and is handed to %s' % un) if un else ''), func=f.id)
                    else:
                        rep.finding(rule, '%s|non-owning node from %s handed to %s' % (k2[0], f.name, un or 'a non-lookup use'), g.loc(m),
                                    '%s: the node made by %s only refers to the caller\'s characters (%s), but here it is given to %s: the DOM keeps a '
                                    'pointer into a string that is gone before Finalize() renders the document' % (k2[0], f.name, what, un or 'a non-lookup use'),
                                    func=g.id)
    if n_own < 1:
        rep.defer_broken('%s: only %d owning string operations (allocator form) found in %s; expected the value, key and root paths' % (rule, n_own, FILE))
    rep.note('%s: %d owning (allocator) string operations and %d non-owning site(s) classified in %s' % (rule, n_own, len(seen), FILE))
