"""C16 - number/text conversion: numeric parsing is total and range-checked (structural clauses)."""
import re

from bsv import interval
from bsv.interval import Iv
from bsv.dtab import TOP, AnalysisBroken, Interp, Model, Pos, Sym, Struct, Thrown, base_type, INT_TYPES
from bsv.facts import child, strip, strip_targs
from bsv.linear import Lin, le, lt
from bsv.linmodel import LinInterp, LinModel
from rules import errc_map

PROP = 'C16'
LEVEL = 'other'
UNITS = ['w_convert.cpp']
EXPLANATION = ('Bit-exact round trips of 2^32 / 2^64 values are properties of std::to_chars / std::from_chars and are not decided. Decided are the '
               'library\'s own obligations around them: R16.1 every std::from_chars result is mapped (result_out_of_range -> std::out_of_range, '
               'invalid_argument -> std::invalid_argument, no success outcome on failure). R16.2 every std::to_chars result is checked and the '
               'buffer is large enough for the longest output of each instantiated type. R16.3 the ".digit" look-ahead of the integer parser '
               'reads only inside the parsed text (linear constraints on the returned pointer). R16.4 decision table of the bool parser over '
               'character classes and lengths: 0/1 alone or followed by a non-digit, true/false in any letter case -> value; another digit run '
               '-> std::out_of_range; anything else -> std::invalid_argument; every character read lies inside the text. R16.5 wide inputs are '
               'narrowed through Utf8::Encode before parsing and numbers are widened through Utf8::Decode after printing (same parser/printer '
               'for all four character widths). R16.6 wide code units are not narrowed before being compared/classified. R16.7 the whole text after the blanks reaches the parser.')
ASSUMPTIONS = ['std::from_chars / std::to_chars implement [charconv]: ptr in [first, last], shortest round-trip output for floating types',
               'BITSERIALIZER_HAS_FLOAT_FROM_CHARS is 1 on this toolchain (the strtod fallback is not compiled and not analysed)']
TRUSTED = ['clang 14 AST', 'bsfacts', 'bsv/linear.py']

FUND = 'include/bitserializer/conversion_detail/convert_fundamental.h'
MAXLEN = {'bool': 5, 'char': 4, 'signed char': 4, 'unsigned char': 3, 'short': 6, 'unsigned short': 5, 'int': 11, 'unsigned int': 10,
          'long': 20, 'unsigned long': 20, 'long long': 20, 'unsigned long long': 20, 'float': 15, 'double': 24, 'long double': 32}


# ---------------------------------------------------------------------------------------- R16.3 look-ahead bounds
class LookModel(LinModel):
    def initial_store(self, it, key):
        return TOP

    def deref(self, it, fr, n, v):
        p = Lin.of(v)
        if p is None:
            return TOP
        B, L = Lin.sym('B'), Lin.sym('L')
        self.need(it, fr, n, 'character read lies inside the text', [le(B, p), lt(p, B + L)])
        return Sym('CHAR')

    def compare(self, it, fr, n, op, a, b):
        if isinstance(a, int) and isinstance(b, int):
            return 1 if {'==': a == b, '!=': a != b}.get(op, False) else 0
        return LinModel.compare(self, it, fr, n, op, a, b)

    def primitive(self, it, fr, n, callee, depth):
        q = strip_targs(callee['q'])
        name = callee['n']
        obj, args = it.call_args(fr, n)
        if q.startswith('std::basic_string_view'):
            if name == 'data':
                return Lin.sym('B')
            if name in ('size', 'length'):
                return Lin.sym('L')
        g = it.prog.funcs.get(callee.get('id'))
        if callee.get('repo') and g is not None and g.relfile.endswith('convert_fundamental.h'):
            return NotImplemented        # helpers of the parser are inlined
        for a in args:
            it.ev(fr, a, depth)
        return TOP


class LookInterp(LinInterp, Interp):
    def ev(self, fr, n, depth):
        if n is not None and n['k'] == 'ArraySubscriptExpr':
            base, idx = Lin.of(self.ev(fr, n['c'][0], depth)), Lin.of(self.ev(fr, n['c'][1], depth))
            if base is not None and idx is not None:
                return self.model.deref(self, fr, n, base + idx)         # p[i] is *(p + i)
        return Interp.ev(self, fr, n, depth)


def check_lookahead(prog, rep):
    # the validator of the from_chars result: a lambda inside the parser or a function extracted from it - any function of the header that
    # takes the from_chars_result
    fs = [f for f in prog.funcs.values() if f.body is not None and (FUND in f.id or f.relfile.endswith('convert_fundamental.h'))
          and any('from_chars_result' in f.type(p) for p in f.params if 't' in p)]
    seen = set()
    for f in sorted(fs, key=lambda g: g.id):
        def has_deref(g, depth=0):
            if any(n['k'] == 'UnaryOperator' and n.get('op') == '*' for n in g.walk()) or \
                    any(n['k'] == 'ArraySubscriptExpr' for n in g.walk()):
                return True
            if depth < 2:
                for n in g.walk():
                    if n['k'] == 'CallExpr':
                        c = g.callee(n) or {}
                        h = prog.funcs.get(c.get('id'))
                        if h is not None and c.get('repo') and h.relfile.endswith('convert_fundamental.h') and has_deref(h, depth + 1):
                            return True
            return False
        # a validator that only forwards to another validator of the header is analysed there (the callee takes the result as well)
        forwards = any(n['k'] == 'CallExpr' and (f.callee(n) or {}).get('id') in set(g_.id for g_ in fs) for n in f.walk())
        if not has_deref(f) or (forwards and not any(n['k'] == 'UnaryOperator' and n.get('op') == '*' for n in f.walk())):
            continue       # instantiations for floating targets have no look-ahead
        if len(seen) >= 3:
            break
        seen.add(f.id)
        rep.touch(f)
        model = LookModel()
        it = LookInterp(prog, model, max_depth=2, max_paths=400)
        B, L, P = Lin.sym('B'), Lin.sym('L'), Lin.sym('P')

        def init(it_, fr):
            it_.n_fresh = 0
            it_.facts = [le(0, L), le(B, P), le(P, B + L)]
            for p in f.params:
                if 'from_chars_result' in f.type(p):
                    st = Struct()
                    st.fields['ec'] = 0
                    st.fields['ptr'] = P
                    fr.env[p['d']] = st
                elif 't' in p and f.type(p).replace('const', '').strip().endswith('*'):
                    fr.env[p['d']] = B + L          # the end of the text handed over as a pointer
                else:
                    fr.env[p['d']] = Sym('VIEW')
        agg = {}
        for p in it.run(f, init):
            for a in p.actions:
                if a[0] == 'NEED':
                    agg.setdefault((a[1], a[2]), []).append(a[3])
        if not agg:
            raise AnalysisBroken('R16.3: no character read found in the from_chars result validator')
        short = 'validateResult@%s (%s)' % (f.loc(), f.id.split('|')[-1][:40])
        for (what, where), oks in sorted(agg.items()):
            if all(oks):
                rep.ok('R16.3', '%s|%s|%s' % (short, what, where), sample={'obligation': what, 'at': where, 'paths': len(oks)})
            else:
                rep.finding('R16.3', 'validateResult|%s' % what, where, 'integer parser: "%s" is not entailed by the guards (%s): the ".digit" look-ahead '
                            'reads past the end of the text' % (what, where), func=f.id)
    if not seen:
        raise AnalysisBroken('anchor vanished: from_chars result validator with the ".digit" look-ahead')


# ---------------------------------------------------------------------------------------- R16.4 bool parser table
CLASSES = {'0': [48], '1': [49], 'digit2-9': [50, 57, 53], 't': [116, 84], 'r': [114, 82], 'u': [117, 85], 'e': [101, 69], 'f': [102, 70], 'a': [97, 65],
           'l': [108, 76], 's': [115, 83], 'x': [120], 'space': [32, 9]}


class BoolModel(Model):
    """text = list of character classes; characters are compared only with literals, classified with isdigit"""
    unroll_loops = True

    def __init__(self, text):
        self.text = text
        self.L = len(text)

    def initial_store(self, it, key):
        return TOP

    def char_at(self, it, fr, n, k):
        ok = isinstance(k, int) and 0 <= k < self.L
        it.act('READ', k, ok, fr.f.loc(n))
        if not ok:
            return TOP
        return Sym(('CH', k))

    def deref(self, it, fr, n, v):
        if isinstance(v, Pos):
            return self.char_at(it, fr, n, v.k)
        return TOP

    def compare(self, it, fr, n, op, a, b):
        for x, y in ((a, b), (b, a)):
            if isinstance(x, Sym) and isinstance(x.tag, tuple) and x.tag[0] == 'CH' and isinstance(y, int) and op in ('==', '!='):
                eq = self.text[x.tag[1]] == y
                return (1 if eq else 0) if op == '==' else (0 if eq else 1)
        if isinstance(a, Pos) and isinstance(b, Pos):
            return 1 if {'==': a.k == b.k, '!=': a.k != b.k, '<': a.k < b.k, '>': a.k > b.k, '<=': a.k <= b.k, '>=': a.k >= b.k}[op] else 0
        return Sym(('GUARD', 'OPAQUE@%s' % fr.f.loc(n)))

    def arith(self, it, fr, n, op, a, b):
        if isinstance(a, Pos) and isinstance(b, Pos) and op == '-':
            return a.k - b.k
        if isinstance(a, Pos) and isinstance(b, int) and op in ('+', '-'):
            return Pos(a.k + b if op == '+' else a.k - b)
        return TOP

    def primitive(self, it, fr, n, callee, depth):
        q = strip_targs(callee['q'])
        name = callee['n']
        obj, args = it.call_args(fr, n)
        if q.startswith('std::basic_string_view'):
            if name == 'data':
                return Pos(0)
            if name in ('size', 'length'):
                return self.L
        if callee.get('repo') and it.prog.funcs.get(callee['id']) is not None:
            return NotImplemented        # small helpers of the library are inlined
        if name == 'isdigit':
            v = it.ev(fr, args[0], depth)
            if isinstance(v, Sym) and isinstance(v.tag, tuple) and v.tag[0] == 'CH':
                return 1 if 48 <= self.text[v.tag[1]] <= 57 else 0
            return TOP
        for a in args:
            it.ev(fr, a, depth)
        return TOP


class BoolInterp(Interp):
    """string literals handed to helpers (keyword tables) are arrays of their character codes"""

    def ev(self, fr, n, depth):
        if n is not None and n['k'] == 'StringLiteral' and 's' in n:
            return [ord(c) for c in n['s']] + [0]
        return Interp.ev(self, fr, n, depth)

    def cast_other(self, v, t):
        if isinstance(v, list):
            return v
        return Interp.cast_other(self, v, t)

    def coerce(self, v, t):
        if isinstance(v, list):
            return v
        return Interp.coerce(self, v, t)


def bool_outcomes(prog, f, text):
    model = BoolModel(text)
    it = BoolInterp(prog, model, max_depth=2, max_paths=3000)

    def init(it_, fr):
        fr.env[f.params[0]['d']] = Sym('VIEW')
        fr.alias[f.params[1]['d']] = 'out.value'
    res = set()
    reads_ok = True
    for p in it.run(f, init):
        for a in p.actions:
            if a[0] == 'READ' and not a[2]:
                reads_ok = False
        if p.outcome[0] == 'THROW':
            res.add('throw ' + str(p.outcome[1]).replace('std::', ''))
        else:
            v = p.store.get('out.value', TOP)
            res.add('value %s' % (v if isinstance(v, int) else '?'))
    return res, reads_ok


def check_bool_parser(prog, rep):
    fs = [f for f in prog.funcs.values() if f.name == 'To' and f.body is not None and f.relfile == FUND and len(f.params) == 2
          and 'basic_string_view<char>' in f.type(f.params[0]) and base_type(f.type(f.params[1])) == 'bool']
    if not fs:
        raise AnalysisBroken('anchor vanished: To(string_view<char>, bool&)')
    f = fs[0]
    rep.touch(f)
    T, R, U, E, F, A, Lc, S = 't', 'r', 'u', 'e', 'f', 'a', 'l', 's'
    cases = [
        ([], {'throw invalid_argument'}), (['space'], {'throw invalid_argument'}), (['x'], {'throw invalid_argument'}),
        (['1'], {'value 1'}), (['0'], {'value 0'}), (['space', '1'], {'value 1'}), (['space', 'space', '0'], {'value 0'}),
        (['1', 'x'], {'value 1'}), (['0', 'x'], {'value 0'}), (['1', '0'], {'throw out_of_range'}), (['0', '1'], {'throw out_of_range'}),
        (['1', 'digit2-9'], {'throw out_of_range'}), (['digit2-9'], {'throw out_of_range'}), (['digit2-9', 'x'], {'throw out_of_range'}),
        ([T, R, U, E], {'value 1'}), ([T, R, U, E, 'x'], {'value 1'}), (['space', T, R, U, E], {'value 1'}),
        ([F, A, Lc, S, E], {'value 0'}), ([F, A, Lc, S, E, 'x'], {'value 0'}),
        ([T, R, U], {'throw invalid_argument'}), ([F, A, Lc, S], {'throw invalid_argument'}), ([T, R, U, 'x'], {'throw invalid_argument'}),
        ([F, A, Lc, S, 'x'], {'throw invalid_argument'}), ([T], {'throw invalid_argument'}), ([F], {'throw invalid_argument'}),
        ([T, 'x', U, E], {'throw invalid_argument'}), (['x', R, U, E], {'throw invalid_argument'}),
    ]
    for classes, want in cases:
        variants = set()
        for pick in (0, -1, 'alt'):
            variants.add(tuple(CLASSES[c][(i % len(CLASSES[c])) if pick == 'alt' else pick] for i, c in enumerate(classes)))
        site = 'text classes [%s]' % ' '.join(classes)
        problems = []
        for text in sorted(variants):
            got, reads_ok = bool_outcomes(prog, f, list(text))
            shown = ''.join(chr(c) if c > 32 else ('\\t' if c == 9 else ' ') for c in text)
            if not reads_ok:
                problems.append('reads a character outside the text "%s"' % shown)
            elif got != want:
                problems.append('"%s" gives %s, expected %s' % (shown, sorted(got), sorted(want)))
        if problems:
            rep.finding('R16.4', 'bool|%s' % ' '.join(classes), f.loc(), 'bool parser: %s' % problems[0], func=f.id)
        else:
            rep.ok('R16.4', site, sample={'classes': classes, 'variants': len(variants), 'outcome': sorted(want)})


def run(prog, rep):
    rep.rule('R16.1', 'every function of convert_fundamental.h that uses std::from_chars maps result_out_of_range -> std::out_of_range and '
                      'invalid_argument -> std::invalid_argument; no success outcome on failure', floor=2)
    errc_map.check(prog, rep, 'R16.1', FUND, 1)

    rep.rule('R16.2', 'std::to_chars: the result is checked (ec compared, failure throws), the buffer holds the longest output of the instantiated type, and the value printed is the source value (no value-changing cast on the way)', floor=8)
    n2 = 0
    for f in sorted(prog.funcs.values(), key=lambda g: g.id):
        if f.body is None or f.relfile != FUND:
            continue
        for n in f.walk():
            if n['k'] == 'CallExpr' and (f.callee(n) or {}).get('q') == 'std::to_chars':
                n2 += 1
                rep.touch(f)
                vt = base_type(f.type(strip(n['c'][3]))) if len(n['c']) > 3 else '?'
                bufs = [x for x in f.walk(n['c'][1]) if x['k'] == 'DeclRefExpr']
                m = re.search(r'char\s*\[(\d+)\]', f.type(bufs[0])) if bufs else None
                size = int(m.group(1)) if m else None
                need = MAXLEN.get(vt)
                site = 'To(%s -> string)|%s' % (vt, f.id.split('|')[-1][-50:])
                if size is None or need is None:
                    raise AnalysisBroken('R16.2: cannot determine buffer size / type at %s (%s, %s)' % (f.loc(n), size, vt))
                if size < need:
                    rep.finding('R16.2', 'to_chars|buffer|%s' % vt, f.loc(n), 'to_chars(%s) may need %d characters, the buffer has %d' % (vt, need, size), func=f.id)
                else:
                    rep.ok('R16.2', site + '|buffer', sample={'type': vt, 'buffer': size, 'longest_output': need})
                # the number handed to to_chars is the source value itself: every cast on the way from the parameter keeps the value
                from rules.c04 import LOSSY_KINDS, value_preserving
                from bsv.expr import resolve as _res
                e = n['c'][3] if len(n['c']) > 3 else None
                lossy = None
                while e is not None:
                    if e['k'] in ('ImplicitCastExpr', 'CXXStaticCastExpr', 'CStyleCastExpr', 'CXXFunctionalCastExpr') and e.get('ck') in LOSSY_KINDS and e.get('c'):
                        src_t, dst_t = f.type(e['c'][0]), f.type(e)
                        if not value_preserving(src_t, dst_t, e['ck']):
                            lossy = (base_type(src_t), base_type(dst_t))
                    if e['k'] == 'DeclRefExpr':
                        r2 = _res(f, e)
                        if r2 is None or r2 is e or r2['k'] == 'DeclRefExpr' and r2.get('d') == e.get('d'):
                            break
                        e = r2
                        continue
                    e = e['c'][0] if e.get('c') and e['k'] in ('ImplicitCastExpr', 'CXXStaticCastExpr', 'CStyleCastExpr', 'CXXFunctionalCastExpr',
                                                               'ParenExpr', 'MaterializeTemporaryExpr', 'ExprWithCleanups') else None
                if lossy:
                    rep.finding('R16.2', 'to_chars|value cast|%s' % lossy[0], f.loc(n), 'the value is converted from %s to %s before it is printed: values '
                                'outside the range of %s are printed as a different number' % (lossy[0], lossy[1], lossy[1]), func=f.id)
                else:
                    rep.ok('R16.2', site + '|value printed as is', nontrivial=False)
                # the result variable's ec must be compared and the failing branch must throw
                cmp_ec = [x for x in f.walk() if x['k'] == 'BinaryOperator' and x.get('op') in ('!=', '==') and any(m2.get('m') == 'ec' for m2 in f.walk(x) if m2['k'] == 'MemberExpr')]
                throws = [x for x in f.walk() if x['k'] == 'CXXThrowExpr']
                if cmp_ec and throws:
                    rep.ok('R16.2', site + '|result checked')
                else:
                    rep.finding('R16.2', 'to_chars|unchecked|%s' % vt, f.loc(n), 'the result of to_chars(%s) is not checked' % vt, func=f.id)
    if n2 < 4:
        raise AnalysisBroken('R16.2: only %d to_chars call sites in the witness units' % n2)

    rep.rule('R16.3', 'integer parser: the ".digit" look-ahead after the parsed literal reads only inside the text', floor=1)
    check_lookahead(prog, rep)

    rep.rule('R16.4', 'bool parser decision table over character classes and lengths', floor=25)
    check_bool_parser(prog, rep)

    rep.rule('R16.6', 'code units read from the text are never narrowed before they are compared or classified: no conversion from '
                      'char16_t/char32_t/wchar_t to a narrower type in the parsers of convert_fundamental.h (a narrowed U+2009 compares equal to a blank)', floor=6)
    wide = {'char16_t': 16, 'char32_t': 32, 'wchar_t': 32}
    n6 = 0
    for f in sorted(prog.funcs.values(), key=lambda g: g.id):
        if f.body is None or f.relfile != FUND or f.name != 'To' or len(f.params) != 2:
            continue
        mm = re.search(r'basic_string_view<(char16_t|char32_t|wchar_t)>', f.type(f.params[0]))
        if not mm:
            continue
        n6 += 1
        rep.touch(f)
        bad = []
        for n in f.walk():
            if n.get('ck') == 'IntegralCast' and n.get('c'):
                src, dst = base_type(f.type(n['c'][0])), base_type(f.type(n))
                if src in wide and dst in INT_TYPES and INT_TYPES[dst][0] < wide[src] and dst != 'bool':
                    bad.append((f.loc(n), src, dst))
        tgt = base_type(f.type(f.params[1]))
        if bad:
            rep.finding('R16.6', 'To(%s)|%s narrowed' % ('bool' if tgt == 'bool' else 'number', mm.group(1)), bad[0][0],
                        'parser of %s text into %s: a %s code unit is converted to %s before it is examined (%s) - non-ASCII characters alias ASCII ones'
                        % (mm.group(1), tgt, bad[0][1], bad[0][2], bad[0][0]), func=f.id)
        else:
            rep.ok('R16.6', 'To(%s <- %s)' % (tgt, mm.group(1)))
    # helper closures of the parsers (a lambda that classifies one code unit) are separate function bodies: same rule
    for f in sorted(prog.funcs.values(), key=lambda g: g.id):
        if f.body is None or f.relfile != FUND or f.sym.get('kind') != 'lambda' or not f.params:
            continue
        pt = [base_type(f.type(p)) for p in f.params if 't' in p]
        if not any(t in wide for t in pt):
            continue
        rep.touch(f)
        bad = []
        for n in f.walk():
            if n.get('ck') == 'IntegralCast' and n.get('c'):
                src, dst = base_type(f.type(n['c'][0])), base_type(f.type(n))
                if src in wide and dst in INT_TYPES and INT_TYPES[dst][0] < wide[src] and dst != 'bool':
                    bad.append((f.loc(n), src, dst))
        wt = [t for t in pt if t in wide][0]
        if bad:
            rep.finding('R16.6', 'closure at line %d|%s narrowed' % (f.raw.get('line', f.body['l']) if hasattr(f, 'raw') else f.body['l'], wt), bad[0][0],
                        'a closure of a text parser takes a %s code unit and converts it to %s before it is examined (%s) - non-ASCII characters '
                        'alias ASCII ones (U+0438 is classified like the digit 8)' % (bad[0][1], bad[0][2], bad[0][0]), func=f.id)
        else:
            rep.ok('R16.6', 'closure(%s)@%d' % (wt, f.body['l']))
    if n6 < 6:
        raise AnalysisBroken('R16.6: only %d wide-text parsers instantiated' % n6)

    check_whole_text(prog, rep)

    rep.rule('R16.5', 'wide strings: parsers narrow through Utf8::Encode then use the char parser; printers widen through Utf8::Decode', floor=4)
    n5 = 0
    for f in sorted(prog.funcs.values(), key=lambda g: g.id):
        if f.body is None or f.relfile != FUND or f.name != 'To' or len(f.params) != 2:
            continue
        pt0, pt1 = f.type(f.params[0]), f.type(f.params[1])
        wide_in = re.search(r'basic_string_view<(char16_t|char32_t|wchar_t)>', pt0)
        wide_out = re.search(r'basic_string<(char16_t|char32_t|wchar_t)>', pt1)
        calls = [(f.callee(n) or {}).get('q', '') for n in f.walk() if n['k'] in ('CallExpr', 'CXXMemberCallExpr')]
        if wide_in and base_type(pt1) in INT_TYPES and base_type(pt1) != 'bool':
            n5 += 1
            rep.touch(f)
            if any(c.endswith('Utf8::Encode') for c in calls) and 'std::from_chars' in calls:
                rep.ok('R16.5', 'parse %s <- %s' % (base_type(pt1), wide_in.group(1)))
            else:
                rep.finding('R16.5', 'parse|%s' % wide_in.group(1), f.loc(), 'numeric parser for %s text does not narrow through Utf8::Encode + from_chars' % wide_in.group(1), func=f.id)
        if wide_out and base_type(pt0) in INT_TYPES and base_type(pt0) != 'bool':
            n5 += 1
            rep.touch(f)
            if any(c.endswith('Utf8::Decode') for c in calls) and 'std::to_chars' in calls:
                rep.ok('R16.5', 'print %s -> %s' % (base_type(pt0), wide_out.group(1)))
            else:
                rep.finding('R16.5', 'print|%s' % wide_out.group(1), f.loc(), 'numeric printer to %s text does not widen through Utf8::Decode' % wide_out.group(1), func=f.id)
    if n5 < 2:
        raise AnalysisBroken('R16.5: no wide-character numeric conversions instantiated in the witness units')


# ---------------------------------------------------------------------------------------- R16.7 the whole text reaches the parser
class RangeModel(LinModel):
    def initial_store(self, it, key):
        return TOP

    def deref(self, it, fr, n, v):
        return Sym('CHAR')

    def primitive(self, it, fr, n, callee, depth):
        q = strip_targs(callee['q'])
        name = callee['n']
        obj, args = it.call_args(fr, n)
        if q.startswith('std::basic_string_view'):
            if name == 'data':
                return Lin.sym('B')
            if name in ('size', 'length'):
                return Lin.sym('L')
        if q.startswith('std::basic_string') and not q.startswith('std::basic_string_view'):
            if name in ('data', 'c_str'):
                return Lin.sym('U')
            if name in ('size', 'length'):
                return Lin.sym('UL')
        if callee['q'] == 'std::from_chars' or (name == 'Encode' and 'Utf8' in callee['q']):
            vals = [it.ev(fr, a, depth) for a in args]
            last = Lin.of(vals[1]) if len(vals) > 1 else None
            what = 'std::from_chars' if name == 'from_chars' else 'Utf8::Encode'
            if fr.f is self.entry:
                if last is None:
                    it.act('NEED', 'the range handed to %s ends at the end of the text' % what, fr.f.loc(n), False)
                else:
                    from bsv.linear import eq, entails
                    c = self.cons(it)
                    ok = entails(c, eq(last, Lin.sym('B') + Lin.sym('L'))) or entails(c, eq(last, Lin.sym('U') + Lin.sym('UL')))
                    it.act('NEED', 'the range handed to %s ends at the end of the text' % what, fr.f.loc(n), ok)
            st = Struct()
            st.fields['ec'] = 0
            st.fields['ptr'] = TOP
            return st
        for a in args:
            it.ev(fr, a, depth)
        if obj is not None:
            it.ev(fr, obj, depth)
        return TOP


def check_whole_text(prog, rep):
    rep.rule('R16.7', 'numeric parsers: after the leading blanks the whole remaining text is handed on - the end of the range passed to '
                      'Utf8::Encode (wide input) / std::from_chars (char input) is the end of the input view (linear constraints)', floor=8)
    seen = 0
    for f in sorted(prog.funcs.values(), key=lambda g: g.id):
        if f.body is None or f.relfile != FUND or f.name != 'To' or len(f.params) != 2 or 'basic_string_view' not in f.type(f.params[0]):
            continue
        tgt = base_type(f.type(f.params[1]))
        if tgt == 'bool' or (tgt not in INT_TYPES and tgt not in ('float', 'double', 'long double')):
            continue
        calls = [n for n in f.walk() if n['k'] == 'CallExpr' and ((f.callee(n) or {}).get('q') == 'std::from_chars' or ((f.callee(n) or {}).get('n') == 'Encode'))]
        if not calls:
            continue
        seen += 1
        rep.touch(f)
        model = RangeModel()
        model.entry = f
        it = LookInterp(prog, model, max_depth=0, max_paths=200)

        def init(it_, fr):
            it_.n_fresh = 0
            it_.facts = [le(0, Lin.sym('L'))]
            fr.env[f.params[0]['d']] = Sym('VIEW')
            fr.alias[f.params[1]['d']] = 'out.value'
        agg = {}
        for p in it.run(f, init):
            for a in p.actions:
                if a[0] == 'NEED':
                    agg.setdefault((a[1], a[2]), []).append(a[3])
        m = re.search(r"basic_string_view<(\w+)", f.type(f.params[0]))
        short = 'To(%s <- %s text)' % (tgt, m.group(1) if m else '?')
        if not agg:
            raise AnalysisBroken('R16.7: no parser call reached in %s' % f.id[:100])
        for (what, where), oks in sorted(agg.items()):
            if all(oks):
                rep.ok('R16.7', '%s|%s' % (short, what), sample={'parser': short, 'obligation': what, 'at': where})
            else:
                rep.finding('R16.7', 'To(number)|%s' % what, where, '%s: "%s" is not entailed: a part of the literal is cut off before parsing, the result '
                            'differs between string widths' % (short, what), func=f.id)
    if seen < 8:
        raise AnalysisBroken('R16.7: only %d numeric parsers instantiated' % seen)
