"""Decision tables of the two MsgPack writers over value / length intervals (E3), used by C06 (R6.1, R6.4) and C10 (R10.2).

The argument of a WriteValue/Begin* overload ranges over an interval; the domain is partitioned at every constant the
argument (or a cast copy of it) can be compared with, so every comparison is decided on every cell. Emitted bytes are
abstract: EMIT1(v) one byte, EMITBE(v, n) n bytes big-endian of v, EMITRAW(desc) payload bytes."""
from bsv.dtab import TOP, AnalysisBroken, Interp, Model, Sym, Struct, base_type, int_conv, INT_TYPES, sizeof_type
from bsv.facts import VERIF, strip, strip_targs
from spec import msgpack_spec as SPEC

WRITERS = {'string': 'BitSerializer::MsgPack::Detail::CMsgPackStringWriter',
           'stream': 'BitSerializer::MsgPack::Detail::CMsgPackStreamWriter'}


class Iv(object):
    """integer interval carrying the identity of the overload's argument (tag 'ARG') or of a field"""
    __slots__ = ('lo', 'hi', 'tag')

    def __init__(self, lo, hi, tag='ARG'):
        self.lo, self.hi, self.tag = lo, hi, tag

    def __repr__(self):
        return 'Iv(%d..%d,%s)' % (self.lo, self.hi, self.tag)


def type_range(t):
    info = INT_TYPES.get(base_type(t))
    if not info:
        return None
    bits, signed = info
    if bits == 1:
        return (0, 1)
    return (-(1 << (bits - 1)), (1 << (bits - 1)) - 1) if signed else (0, (1 << bits) - 1)


class WriterModel(Model):
    def __init__(self, prog, kind, arg):
        self.prog = prog
        self.kind = kind
        self.arg = arg

    def initial_store(self, it, key):
        if key in ('this.mOutputString', 'this.mOutputStream'):
            return Sym('OUT')
        if isinstance(key, str) and key.startswith('in.ts.'):
            if isinstance(self.arg, dict) and key[6:] in self.arg:
                lo, hi = self.arg[key[6:]]
                return Iv(lo, hi, 'SEC' if key[6:] == 'Seconds' else 'NS')
            return Sym(('FIELD', key[6:]))
        return TOP

    def compare(self, it, fr, n, op, a, b):
        flip = {'<': '>', '>': '<', '<=': '>=', '>=': '<=', '==': '==', '!=': '!='}
        if isinstance(b, Iv) and isinstance(a, int):
            a, b, op = b, a, flip[op]
        if isinstance(a, Iv) and isinstance(b, int):
            lo, hi = a.lo, a.hi
            res = {
                '<': (hi < b, lo >= b), '<=': (hi <= b, lo > b), '>': (lo > b, hi <= b), '>=': (lo >= b, hi < b),
                '==': (lo == hi == b, b < lo or b > hi), '!=': (b < lo or b > hi, lo == hi == b)}[op]
            if res[0]:
                return 1
            if res[1]:
                return 0
            raise AnalysisBroken('writer tables: comparison %s %d undecided on cell %r at %s - partition incomplete' % (op, b, a, fr.f.loc(n)))
        nm = None
        for x in (n['c'][0], n['c'][1]):
            s = strip(x)
            if s is not None and s['k'] in ('MemberExpr', 'DeclRefExpr'):
                nm = s.get('m') or s.get('n')
        return Sym(('GUARD', 'VAR:%s%s' % (nm, op)))

    def cast_iv(self, v, t):
        if isinstance(v, Iv):
            r = type_range(t)
            if r is None:
                return v
            if v.lo >= r[0] and v.hi <= r[1]:
                return v
            # modular conversion: identity (mod 2^N) is kept when the interval does not wrap inside the target type
            info = INT_TYPES.get(base_type(t))
            bits = info[0]
            if v.hi - v.lo < (1 << bits):
                wl, wh = int_conv(v.lo, t), int_conv(v.hi, t)
                if wl <= wh:
                    return Iv(wl, wh, v.tag)
            return Iv(r[0], r[1], 'CAST(%s)' % v.tag)
        return v

    def arith(self, it, fr, n, op, a, b):
        if isinstance(a, Iv) and isinstance(b, Iv):
            if op == '|':
                if a.lo == a.hi == 0:
                    return b
                if b.lo == b.hi == 0:
                    return a
                for x, y in ((a, b), (b, a)):
                    if x.tag.startswith('SHL'):
                        k = int(x.tag[3:x.tag.index('(')])
                        if 0 <= y.lo and y.hi < (1 << k):
                            return Iv(x.lo + y.lo, x.hi + y.hi, 'OR(%s,%s)' % (x.tag, y.tag))
            return TOP
        if isinstance(a, Iv) and isinstance(b, int) and op == '<<' and a.lo >= 0 and (a.hi << b) < (1 << 64):
            return Iv(a.lo << b, a.hi << b, 'SHL%d(%s)' % (b, a.tag))
        if isinstance(a, Iv) and isinstance(b, int) and op == '&' and a.lo >= 0 and b > 0:
            low = b & -b
            if ((b | (low - 1)) + 1) & (b | (low - 1)) == 0 and (b | (low - 1)) >= a.hi:
                # b is a "high mask" covering every bit >= log2(low) that the interval can have
                if a.hi < low:
                    return 0
                if a.lo >= low:
                    return Iv(low, a.hi & b if a.hi & b else low, 'NZ')
                raise AnalysisBroken('writer tables: (%r & 0x%x) undecided - partition incomplete at %s' % (a, b, fr.f.loc(n) if fr else ''))
        if isinstance(b, Iv) and isinstance(a, int):
            a, b = b, a
            swapped = True
        else:
            swapped = False
        if isinstance(a, Iv) and isinstance(b, int):
            if op == '|' and b >= 0 and a.lo >= 0:
                # OR with a constant whose set bits are all above the interval's highest bit is an addition
                if a.hi < (b & -b if b else 1 << 62):
                    return Iv(a.lo + b, a.hi + b, 'OR%d(%s)' % (b, a.tag))
            if op == '&' and b >= 0 and a.lo >= 0 and a.hi <= b and (b & (b + 1)) == 0:
                return a
            if op == '+' :
                return Iv(a.lo + b, a.hi + b, 'ADD%d(%s)' % (b, a.tag))
            if op == '>>' and not swapped and a.lo >= 0:
                return Iv(a.lo >> b, a.hi >> b, 'SHR%d(%s)' % (b, a.tag))
        return TOP

    def construct(self, it, fr, n, depth):
        vals = [it.ev(fr, a, depth) for a in n.get('c', ())]
        return vals[0] if len(vals) == 1 else TOP

    def emit1(self, it, v):
        if isinstance(v, Iv):
            it.act('EMIT1', 'iv', v.lo, v.hi, v.tag)
        elif isinstance(v, int):
            it.act('EMIT1', 'const', v & 0xff)
        else:
            it.act('EMIT1', 'T')

    def primitive(self, it, fr, n, callee, depth):
        q = strip_targs(callee['q'])
        name = callee['n']
        obj, args = it.call_args(fr, n)
        if q.endswith('Memory::NativeToBigEndian'):
            v = it.ev(fr, args[0], depth)
            t = base_type(fr.f.type(strip(args[0], casts=False)))
            return Sym(('BE', self.desc(v), sizeof_type(t)))
        if q in ('std::memcpy', 'memcpy'):
            d = it.ev(fr, args[0], depth)
            s = it.ev(fr, args[1], depth)
            nb = it.ev(fr, args[2], depth)
            if isinstance(d, Sym) and isinstance(d.tag, tuple) and d.tag[0] == 'ADDR':
                src = it.read_key(fr, s.tag[1]) if isinstance(s, Sym) and isinstance(s.tag, tuple) and s.tag[0] == 'ADDR' else TOP
                it.write_key(fr, d.tag[1], Sym(('BITS', self.desc(src), nb if isinstance(nb, int) else 'T')))
            return TOP
        if q.startswith('std::basic_string') or q.startswith('std::basic_ostream') or q.startswith('std::basic_string_view'):
            ov = it.ev(fr, obj, depth) if obj is not None else TOP
            vals = [it.ev(fr, a, depth) for a in args]
            is_out = isinstance(ov, Sym) and ov.tag == 'OUT'
            if name in ('push_back', 'put') and is_out:
                self.emit1(it, vals[0])
                return TOP
            if name in ('append', 'write', 'operator+=') and is_out:
                if len(vals) == 2:
                    p, nbytes = vals
                    if isinstance(p, Sym) and isinstance(p.tag, tuple) and p.tag[0] == 'ADDR':
                        inner = it.read_key(fr, p.tag[1])
                        if isinstance(inner, Sym) and isinstance(inner.tag, tuple) and inner.tag[0] == 'BE':
                            it.act('EMITBE', inner.tag[1], inner.tag[2], nbytes if isinstance(nbytes, int) else 'T')
                            return TOP
                        it.act('EMITRAW', 'native:' + self.desc(inner), nbytes if isinstance(nbytes, int) else 'T')
                        return TOP
                    it.act('EMITRAW', self.desc(p), self.desc(nbytes))
                    return TOP
                it.act('EMITRAW', self.desc(vals[0]) if vals else 'T', 'all')
                return TOP
            if name in ('size', 'length'):
                if isinstance(ov, Sym) and ov.tag == 'PAYLOAD':
                    return self.arg if isinstance(self.arg, Iv) else TOP
                return TOP
            if name == 'data':
                return Sym('PAYLOADDATA') if isinstance(ov, Sym) and ov.tag == 'PAYLOAD' else TOP
            return TOP
        if not callee.get('repo'):
            for a in args:
                it.ev(fr, a, depth)
            return TOP
        return NotImplemented

    def desc(self, v):
        if isinstance(v, Iv):
            return v.tag
        if isinstance(v, int):
            return str(v)
        if isinstance(v, Sym):
            return str(v.tag)
        return 'T'


class WriterInterp(Interp):
    def cast_other(self, v, t):
        if isinstance(v, Iv):
            return self.model.cast_iv(v, t)
        return v

    def coerce(self, v, t):
        if isinstance(v, Iv):
            return self.model.cast_iv(v, t)
        return Interp.coerce(self, v, t)


def find_writer_method(prog, kind, name, ptype):
    cls = WRITERS[kind]
    out = [f for f in prog.funcs.values() if f.q == cls + '::' + name and (ptype is None or ('(%s)' % ptype) in f.id)]
    if len(out) != 1:
        raise AnalysisBroken('anchor: expected exactly one %s::%s(%s), found %d' % (cls, name, ptype, len(out)))
    return out[0]


def comparison_constants(prog, kind):
    """every integer constant appearing as an operand of a comparison inside the writer's methods and its PushValue helpers"""
    cls = WRITERS[kind]
    consts = set()
    for f in prog.funcs.values():
        if not (f.q.startswith(cls + '::') or f.name == 'PushValue'):
            continue
        for n in f.walk():
            if n['k'] == 'BinaryOperator' and n.get('op') in ('<', '<=', '>', '>=', '==', '!='):
                for c in n['c']:
                    if 'cv' in c:
                        consts.add(c['cv'])
            if n['k'] == 'BinaryOperator' and n.get('op') == '>>' and isinstance(strip(n['c'][1]).get('cv'), int) and 0 < strip(n['c'][1])['cv'] < 64:
                consts.add((1 << strip(n['c'][1])['cv']) - 1)       # "x >> k == 0" is the threshold x < 2^k
    return consts


def cells(lo, hi, consts):
    pts = {lo, hi + 1}
    for c in consts:
        for p in (c, c + 1):
            if lo < p <= hi:
                pts.add(p)
    pts = sorted(pts)
    return [(pts[i], pts[i + 1] - 1) for i in range(len(pts) - 1)]


def run_writer(prog, f, kind, argval):
    model = WriterModel(prog, kind, argval)
    it = WriterInterp(prog, model)

    def init(it_, fr):
        for p in f.params:
            pt = f.tu['types'][p['t']]
            if 'basic_string_view' in pt:
                fr.env[p['d']] = Sym('PAYLOAD')
            elif 'CBinTimestamp' in pt:
                fr.alias[p['d']] = 'in.ts'
            else:
                fr.env[p['d']] = argval
    return it.run(f, init)


def emitted(path):
    return tuple(a for a in path.actions if a[0].startswith('EMIT')) + ((('THROW', path.outcome[1]),) if path.outcome[0] == 'THROW' else ())


INT_OVERLOADS = [('unsigned char', 'u'), ('unsigned short', 'u'), ('unsigned int', 'u'), ('unsigned long', 'u'),
                 ('signed char', 's'), ('short', 's'), ('int', 's'), ('long', 's')]
LEN_METHODS = [('WriteValue', 'std::basic_string_view<char>', 'str'), ('BeginArray', 'unsigned long', 'array'),
               ('BeginMap', 'unsigned long', 'map'), ('BeginBinary', 'unsigned long', 'bin')]

_cache = {}


def writer_tables(prog):
    """{kind: {(name, ptype): (f, family, {cell: [emitted sequences]})}}"""
    if prog.key in _cache:
        return _cache[prog.key]
    out = {}
    # one partition for both writers: the thresholds of either implementation (a refactoring may spell ">= 128" as "> 127" in one of them)
    # and the spec's own thresholds, so that every cell is homogeneous for both writers and for the oracle
    spec_ths = {0, 0x7f, 0xff, 0xffff, 0xffffffff, -1, -32, -33, -128, -129, -32768, -32769, -2147483648, -2147483649, 15, 31}
    all_consts = set(spec_ths)
    for kind in WRITERS:
        all_consts |= comparison_constants(prog, kind)
    for kind in WRITERS:
        consts = set(all_consts)
        tabs = {}
        for t, sg in INT_OVERLOADS:
            f = find_writer_method(prog, kind, 'WriteValue', t)
            lo, hi = type_range(t)
            per = {}
            for c in cells(lo, hi, consts):
                per[c] = [emitted(p) for p in run_writer(prog, f, kind, Iv(c[0], c[1]))]
            tabs[('WriteValue', t)] = (f, 'sint' if sg == 's' else 'uint', per)
        for name, pt, fam in LEN_METHODS:
            f = find_writer_method(prog, kind, name, pt)
            per = {}
            for c in cells(0, (1 << 64) - 1, consts):
                per[c] = [emitted(p) for p in run_writer(prog, f, kind, Iv(c[0], c[1]))]
            tabs[(name, pt)] = (f, fam, per)
        for name, pt, fam in [('WriteValue', 'std::nullptr_t', 'nil'), ('WriteValue', 'float', 'float'), ('WriteValue', 'double', 'double'),
                              ('WriteBinary', 'char', 'binbyte')]:
            f = find_writer_method(prog, kind, name, pt)
            arg = Iv(-128, 127) if fam == 'binbyte' else Sym('FLT')
            tabs[(name, pt)] = (f, fam, {(0, 0): [emitted(p) for p in run_writer(prog, f, kind, arg)]})
        f = find_writer_method(prog, kind, 'WriteValue', 'const BitSerializer::Detail::CBinTimestamp &')
        per = {}
        sec_cells = cells(-(1 << 63), (1 << 63) - 1, consts | {0, 1 << 32, 1 << 34})
        for sc in sec_cells:
            for nc in ((0, 0), (1, 999999999)):
                per[(sc, nc)] = [emitted(p) for p in run_writer(prog, f, kind, {'Seconds': sc, 'Nanoseconds': nc})]
        tabs[('WriteValue', 'const BitSerializer::Detail::CBinTimestamp &')] = (f, 'timestamp', per)
        f = find_writer_method(prog, kind, 'WriteValue', 'bool')
        tabs[('WriteValue', 'bool')] = (f, 'bool', {(v, v): [emitted(p) for p in run_writer(prog, f, kind, v)] for v in (0, 1)})
        out[kind] = tabs
    _cache[prog.key] = out
    return out


# ---------------------------------------------------------------------------------------- oracle
def int_seq(name, lo, hi):
    n = {'positive fixint': 0, 'negative fixint': 0, 'uint 8': 1, 'int 8': 1, 'uint 16': 2, 'int 16': 2, 'uint 32': 4, 'int 32': 4,
         'uint 64': 8, 'int 64': 8}[name]
    if n == 0:
        return (('EMIT1', 'iv', lo, hi, 'ARG'),)
    fb = SPEC.FIRST_BYTE[name]
    if n == 1:
        return (('EMIT1', 'const', fb), ('EMIT1', 'iv', lo, hi, 'ARG'))
    return (('EMIT1', 'const', fb), ('EMITBE', 'ARG', n, n))


def expected_int(fam, lo, hi):
    """set of acceptable emissions: every int format of minimal encoded size that can hold the whole cell"""
    names = SPEC.smallest_int_formats(lo, hi)
    if not names:
        raise AnalysisBroken('cell %d..%d straddles a spec threshold' % (lo, hi))
    return [int_seq(nm, lo, hi) for nm in names], ' or '.join(names)


def expected_len(fam, lo, hi):
    r = SPEC.compact_len(fam, lo, hi)
    if r == 'TOOBIG':
        return 'TOOBIG', 'too big'
    if r is None:
        raise AnalysisBroken('cell %d..%d straddles a spec threshold' % (lo, hi))
    name, fb, n = r
    if n == 0:
        mask = fb[1]
        seq = (('EMIT1', 'iv', lo + mask, hi + mask, 'OR%d(ARG)' % mask),)
    elif n == 1:
        seq = (('EMIT1', 'const', fb), ('EMIT1', 'iv', lo, hi, 'ARG'))
    else:
        seq = (('EMIT1', 'const', fb), ('EMITBE', 'ARG', n, n))
    return seq, name


def norm_seq(seq):
    """normalise equivalent spellings: a byte emitted from an interval through a value-preserving cast keeps tag ARG"""
    out = []
    for a in seq:
        if a[0] == 'EMIT1' and a[1] == 'iv':
            tag = a[4]
            lo, hi = a[2], a[3]
            # a single byte is emitted modulo 256: negative fixint -32..-1 is 0xe0..0xff
            out.append(('EMIT1', 'iv', lo & 0xff if lo < 0 else lo, hi & 0xff if hi < 0 else hi, tag))
        else:
            out.append(a)
    return tuple(out)
