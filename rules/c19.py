"""C19 - independent serializations on different threads do not interfere (shared-state audit)."""
import json
import os

from bsv.effects import classify_use, live_walk
from bsv.facts import REPO, VERIF, AnalysisBroken, strip, strip_targs
from rules.c20 import pattern_in_lib

PROP = 'C19'
LEVEL = 'proof'
EXPLANATION = ('Exhaustive audit of every object with static storage duration defined in library code, as seen in the analysed program '
               '(7 library TUs + witnesses): each is (a) constexpr/const with constant initialisation, (b) const with dynamic '
               'initialisation (namespace scope or thread-safe function-local static) and no mutable member, or (c) one of the tabled '
               'mutable objects whose complete writer set is re-derived on every run and whose writers are called only from '
               'namespace-scope initialisers. R19.2: in every save instantiation no mutating operation is applied to the value being '
               'saved. R19.3: no mutable data members / no const_cast other than the tabled save-path entry. Together: every access to '
               'memory shared between concurrent operations is a read, hence no data race in library code. libstdc++, RapidJSON and '
               'pugixml internals are trusted.')
ASSUMPTIONS = ['operations share only static-storage objects, const sources and input buffers (the property statement)',
               'no -fno-threadsafe-statics in the build flags (checked in CMakeLists.txt)',
               'templates are analysed in the instantiations of the witnesses; a static introduced in a never-instantiated template is seen only as an uninstantiated pattern']
TRUSTED = ['clang 14 AST/Sema', 'bsfacts', 'tables/statics.json', 'libstdc++ / RapidJSON / pugixml internals']

NONMUTATING_METHODS = {
    'begin', 'end', 'cbegin', 'cend', 'rbegin', 'rend', 'crbegin', 'crend', 'before_begin', 'operator[]', 'at', 'front', 'back', 'data', 'c_str',
    'operator*', 'operator->', 'get', 'value', 'size', 'empty', 'find', 'count', 'top', 'load', 'operator bool', 'has_value',
    'GetUnderlyingValue', 'GetValue', 'GetKey', 'lower_bound', 'upper_bound', 'equal_range', 'test', 'c', 'length', 'capacity', 'max_size',
    'Serialize', 'VisitArgs', 'native', 'time_since_epoch',
}


MUTATING_ALGOS = {
    'make_heap', 'push_heap', 'pop_heap', 'sort_heap', 'sort', 'stable_sort', 'partial_sort', 'nth_element', 'reverse', 'rotate', 'shuffle',
    'random_shuffle', 'swap', 'iter_swap', 'swap_ranges', 'fill', 'fill_n', 'generate', 'generate_n', 'iota', 'remove', 'remove_if', 'unique',
    'partition', 'stable_partition', 'replace', 'replace_if', 'transform', 'copy', 'copy_n', 'copy_backward', 'move', 'move_backward',
    'inplace_merge', 'next_permutation', 'prev_permutation', 'exchange', 'uninitialized_fill', 'for_each',
}
# 'move', 'copy', 'transform', 'for_each' are listed because with a range of the saved object as an argument they may write to it or leave it
# moved-from; std::move(x) of a single object is a cast and is recognised by having one argument
READONLY_STD = {'begin', 'end', 'cbegin', 'cend', 'rbegin', 'rend', 'apply', 'get', 'forward', 'addressof', 'as_const', 'size', 'data', 'empty',
                'distance', 'next', 'prev', 'visit', 'holds_alternative', 'get_if', 'ref', 'cref', 'tie', 'forward_as_tuple', 'invoke'}


def gname(g):
    qn = g.get('qn') or g['q']
    if g.get('local') and '|' in qn:
        qn = qn.split('|')[0] + '::' + g['n']
    return strip_targs(qn)


def run(prog, rep):
    with open(os.path.join(VERIF, 'tables', 'statics.json')) as fh:
        table = json.load(fh)
    mutable_ok = table['mutable']          # pattern name -> {'writers': [...], 'reason': ...}
    rep.rule('R19.1a', 'static-storage object in library code is immutable: const/constexpr (constant- or thread-safely dynamically '
                       'initialised), no mutable member', floor=60)
    rep.rule('R19.1b', 'tabled mutable static: every write / non-const escape comes from its enumerated writer functions', floor=4)
    rep.rule('R19.1c', 'writers of mutable statics are called only from namespace-scope initialisers (static-init time, single-threaded)', floor=3)
    rep.rule('R19.2', 'save instantiations apply no mutating operation to the object being saved', floor=100)
    rep.rule('R19.3', 'no mutable data members in library records; const_cast only at the tabled save-path entry points', floor=2)

    # ------------------------------------------------------------------ R19.4: hidden shared state inside the C library
    rep.rule('R19.4', 'library code calls no C / C++ library function that keeps hidden static state (POSIX list of functions that need not be '
                      'thread-safe: gmtime, localtime, asctime, ctime, strtok, rand, setlocale, strerror, tmpnam, ...); zero expected, a positive '
                      'example in the witness must match', floor=1)
    NON_REENTRANT = {
        'gmtime': 'returns a pointer to one static struct tm', 'localtime': 'returns a pointer to one static struct tm (and reads TZ state)',
        'asctime': 'static result buffer', 'ctime': 'static result buffer', 'strtok': 'static scan position', 'rand': 'hidden generator state',
        'srand': 'hidden generator state', 'setlocale': 'changes the process-wide locale', 'strerror': 'may return a static buffer',
        'tmpnam': 'static buffer when called with null', 'getlogin': 'static buffer', 'ttyname': 'static buffer', 'readdir': 'per-DIR static entry',
        'drand48': 'hidden generator state', 'lrand48': 'hidden generator state', 'mrand48': 'hidden generator state', 'basename': 'may use a static buffer',
        'dirname': 'may use a static buffer', 'getenv': None, 'putenv': 'modifies the process environment', 'setenv': 'modifies the process environment',
        'mblen': 'hidden conversion state', 'mbtowc': 'hidden conversion state', 'wctomb': 'hidden conversion state', 'global': None,
    }
    n_pos = 0
    for fn in sorted(prog.funcs.values(), key=lambda x: x.id):
        if fn.body is None or not fn.sym.get('repo'):
            continue
        is_witness = 'witness' in fn.relfile or fn.relfile.startswith('/verif') or 'positive_example' in fn.id
        if not is_witness and not pattern_in_lib(fn):
            continue
        for n in fn.walk():
            if n['k'] not in ('CallExpr', 'CXXMemberCallExpr'):
                continue
            s0 = fn.callee(n)
            if s0 is None or s0.get('repo'):
                continue
            q = s0['q']
            base = q[5:] if q.startswith('std::') else q
            why = None
            if '::' not in base and base in NON_REENTRANT and NON_REENTRANT[base]:
                why = NON_REENTRANT[base]
            elif q == 'std::locale::global':
                why = 'changes the process-wide C++ locale'
            if why is None:
                continue
            if is_witness:
                n_pos += 1
                rep.ok('R19.4', 'positive example matched|%s' % base, sample={'call': q, 'at': fn.loc(n)})
            else:
                rep.touch(fn)
                rep.finding('R19.4', '%s|calls %s' % (fn.pq if fn.cls else fn.name, base), fn.loc(n),
                            '%s calls %s(): %s - two independent operations on different threads interfere through it' % (fn.pq if fn.cls else fn.name, q, why), func=fn.id)
    if not n_pos:
        raise AnalysisBroken('R19.4: the positive example (a gmtime call in the witness) was not matched')

    # ------------------------------------------------------------------ R19.1a: classify every static object
    mutable_globals = {}   # decl-id per TU -> name
    seen_names = set()
    for key, glist in sorted(prog.globals.items(), key=lambda kv: (kv[0][0], kv[0][1], kv[0][2])):
        g = glist[0]
        tu = g['_tu']
        f = tu['files'][g['file']]
        pat = g.get('pat', '%s:%d' % (f, g['line']))
        rel = pat[len(REPO.rstrip('/')) + 1:] if pat.startswith(REPO.rstrip('/') + '/') else pat
        if not rel.startswith(('include/bitserializer/', 'src/')) or 'testing_tools' in rel:
            continue
        name = gname(g)
        site = '%s@%s' % (name, rel.rsplit(':', 1)[0])
        if g.get('tls'):
            rep.ok('R19.1a', site, nontrivial=False)
            continue
        if g.get('const') and not g.get('hasmutable'):
            if site not in seen_names:
                seen_names.add(site)
                rep.ok('R19.1a', site, sample={'object': name, 'at': rel, 'constinit': bool(g.get('constinit')),
                                               'type': tu['types'][g['t']]}, nontrivial=not g.get('constinit'))
            else:
                rep.ok('R19.1a', site, nontrivial=False)
            continue
        # mutable (or has mutable members)
        for gg in glist:
            mutable_globals[(id(gg['_tu']), gg['d'])] = (name, rel)
        if name in mutable_ok:
            continue
        rep.finding('R19.1a', name, rel,
                    'static-storage object %s of type %s is mutable and shared by all threads (not in tables/statics.json with a writer set)'
                    % (name, tu['types'][g['t']]), {'type': tu['types'][g['t']], 'hasmutable': bool(g.get('hasmutable'))})

    # ------------------------------------------------------------------ R19.1b: writers of mutable statics
    writers_found = {}
    for fn in prog.funcs.values():
        for n in live_walk(fn):
            if not n.get('g'):
                continue
            if n['k'] not in ('DeclRefExpr', 'MemberExpr'):
                continue
            ent = mutable_globals.get((id(fn.tu), n['d']))
            if ent is None:
                continue
            name, rel = ent
            kind, info = classify_use(fn, n)
            rep.touch(fn)
            if kind in ('read', 'discard'):
                rep.ok('R19.1b', '%s|%s|read' % (name, fn.pq), nontrivial=False)
                continue
            writers_found.setdefault(name, set()).add(fn.pq)
            allowed = mutable_ok.get(name, {}).get('writers', [])
            if fn.pq in allowed:
                rep.ok('R19.1b', '%s|%s|%s' % (name, fn.pq, kind), sample={'object': name, 'writer': fn.pq, 'access': kind, 'at': fn.loc(n)})
            else:
                rep.finding('R19.1b', '%s|%s' % (name, fn.pq), fn.loc(n),
                            'function %s performs a %s access to the shared static %s; only %s may write it' % (fn.pq, kind, name, allowed or 'nobody'),
                            func=fn.id)
    # a static declared in a namespace-scope initialiser context: DefaultOptions etc. have no writer at all
    for name, ent in mutable_ok.items():
        if not ent.get('writers') and name not in writers_found:
            rep.ok('R19.1b', '%s|<no writer>' % name, sample={'object': name, 'writers': []})

    # ------------------------------------------------------------------ R19.1c: who calls the writers
    writer_names = set()
    for ent in mutable_ok.values():
        writer_names.update(ent.get('writers', []))
    for fn in prog.funcs.values():
        for n in live_walk(fn):
            if n['k'] not in ('CallExpr', 'CXXMemberCallExpr'):
                continue
            s = fn.callee(n)
            if s is None:
                continue
            if strip_targs(s['q']) in writer_names:
                rep.touch(fn)
                rep.finding('R19.1c', '%s|calls %s' % (fn.pq, strip_targs(s['q'])), fn.loc(n),
                            '%s calls %s at run time: the shared registry would be written while other threads may read it'
                            % (fn.pq, strip_targs(s['q'])), func=fn.id)
    n_init_calls = 0
    for glist in prog.globals.values():
        for g in glist[:1]:
            init = g.get('init')
            if init is None:
                continue
            stack = [init]
            while stack:
                n = stack.pop()
                stack.extend(n.get('c', ()))
                if n['k'] in ('CallExpr', 'CXXMemberCallExpr') and n.get('fn', -1) >= 0:
                    s = g['_tu']['syms'][n['fn']]
                    if strip_targs(s['q']) in writer_names:
                        n_init_calls += 1
                        ok_ns = not g.get('local')
                        site = '%s|init of %s' % (strip_targs(s['q']), gname(g))
                        if ok_ns:
                            rep.ok('R19.1c', site, sample={'writer': s['q'], 'called_from_initialiser_of': gname(g)})
                        else:
                            rep.finding('R19.1c', site, '%s:%d' % (g['_tu']['files'][g['file']], g['line']),
                                        'writer %s is called from the initialiser of a function-local static (runs at first use, possibly concurrently with readers)' % s['q'])
    rep.extra['writer_calls_in_namespace_scope_initialisers'] = n_init_calls

    # ------------------------------------------------------------------ R19.2: save paths do not mutate the source
    for fn in prog.funcs.values():
        if not pattern_in_lib(fn):
            continue
        if not is_save_instantiation(fn):
            continue
        vparams = value_params(fn)
        if not vparams:
            continue
        rep.touch(fn)
        bad = False
        for n in live_walk(fn):
            if n['k'] != 'DeclRefExpr' or n.get('d') not in vparams:
                continue
            kind, info = classify_use(fn, n)
            if kind == 'write':
                bad = True
                rep.finding('R19.2', '%s|write %s' % (fn.pq, vparams[n['d']]), fn.loc(n),
                            'save instantiation %s writes to the object being saved (%s)' % (fn.pq, vparams[n['d']]), func=fn.id)
            elif kind == 'mutcall':
                call, callee = info
                mname = callee['n'] if callee else '?'
                if mname in NONMUTATING_METHODS:
                    continue
                bad = True
                rep.finding('R19.2', '%s|%s.%s' % (fn.pq, vparams[n['d']], mname), fn.loc(n),
                            'save instantiation %s calls non-const %s() on the object being saved (%s): concurrent saves of a shared '
                            'const source would race' % (fn.pq, mname, vparams[n['d']]), func=fn.id)
        # aliases of the saved object (auto& base = GetBaseContainer(cont)), then: writes through an accessor (cont[i] = x, *cont.begin() = x),
        # mutating standard algorithms over its range, and hand-over by non-const reference to a callee outside the repository
        al = dict(vparams)
        changed = True
        while changed:
            changed = False
            for n in live_walk(fn):
                if n['k'] != 'DeclStmt':
                    continue
                for d in n.get('decls', []):
                    if d.get('isref') and d['d'] not in al and not fn.tu['types'][d['t']].startswith('const '):
                        if any(x['k'] == 'DeclRefExpr' and x.get('d') in al for c in n.get('c', []) for x in fn.walk(c)):
                            al[d['d']] = '%s (alias of %s)' % (d['n'], sorted(vparams.values())[0])
                            changed = True

        def base_ref(e):
            while e is not None:
                if e['k'] == 'DeclRefExpr':
                    return e
                if e['k'] in ('ImplicitCastExpr', 'ParenExpr', 'MemberExpr', 'ArraySubscriptExpr', 'UnaryOperator', 'CXXMemberCallExpr',
                              'CXXOperatorCallExpr', 'MaterializeTemporaryExpr', 'CXXBindTemporaryExpr') and e.get('c'):
                    cs = e['c']
                    # operator calls carry the callee reference first
                    e = cs[1] if e['k'] == 'CXXOperatorCallExpr' and len(cs) > 1 else cs[0]
                    continue
                if e['k'] == 'CallExpr' and (fn.callee(e) or {}).get('repo') and len(e.get('c', [])) == 2 and e.get('lv'):
                    e = e['c'][1]       # a library accessor that hands out a reference into its argument (GetBaseContainer(cont))
                    continue
                return None
            return None

        for n in live_walk(fn):
            if n['k'] in ('BinaryOperator', 'CompoundAssignOperator') and (n.get('op') == '=' or n['k'] == 'CompoundAssignOperator') and n.get('c'):
                lhs = n['c'][0]
                b = base_ref(lhs)
                if b is not None and b.get('d') in al and strip(lhs) is not b:
                    bad = True
                    rep.finding('R19.2', '%s|write through %s' % (fn.pq, al[b['d']].split(' ')[0]), fn.loc(n),
                                'save instantiation %s assigns through an accessor of the object being saved (%s)' % (fn.pq, al[b['d']]), func=fn.id)
            elif n['k'] == 'CallExpr':
                cal = fn.callee(n)
                if cal is None or cal.get('repo'):
                    continue
                q = (cal.get('q') or '').split('<')[0]
                if not q.startswith('std::'):
                    continue
                touched = [x for a in n.get('c', [])[1:] for x in fn.walk(a) if x['k'] == 'DeclRefExpr' and x.get('d') in al]
                if not touched:
                    continue
                nm = cal.get('n')
                if nm in MUTATING_ALGOS:
                    bad = True
                    rep.finding('R19.2', '%s|std::%s over %s' % (fn.pq, nm, al[touched[0]['d']].split(' ')[0]), fn.loc(n),
                                'save instantiation %s runs std::%s over the object being saved (%s): the source of a save is const and may be '
                                'shared by several threads - even a rearrangement that ends in the same order writes to it meanwhile'
                                % (fn.pq, nm, al[touched[0]['d']]), func=fn.id)
                elif nm not in READONLY_STD:
                    for x in touched:
                        kind, info = classify_use(fn, x)
                        if kind in ('escape', 'alias', 'addr') and isinstance(info, tuple) and info[0] is n:
                            bad = True
                            rep.finding('R19.2', '%s|%s handed to std::%s' % (fn.pq, al[x['d']].split(' ')[0], nm), fn.loc(n),
                                        'save instantiation %s hands the object being saved (%s) by non-const reference to std::%s, which is not in the '
                                        'table of read-only helpers' % (fn.pq, al[x['d']], nm), func=fn.id)
                            break
        if not bad:
            rep.ok('R19.2', fn.pq + '|' + fn.sym.get('targs', '')[:80], sample={'function': fn.pq, 'at': fn.loc(), 'value_params': sorted(vparams.values())},
                   nontrivial=bool(fn.body and len(fn.body.get('c', ())) > 0))

    # ------------------------------------------------------------------ R19.3: mutable members / const_cast
    allowed_cc = set(table.get('const_cast_sites', []))
    for name, rec in prog.records.items():
        if not rec.get('repo'):
            continue
        tu = rec['_tu']
        f = tu['files'][rec['file']]
        rel = f[len(REPO.rstrip('/')) + 1:] if f.startswith(REPO.rstrip('/') + '/') else f
        if not rel.startswith(('include/bitserializer/', 'src/')) or 'testing_tools' in rel:
            continue
        muts = [fl['n'] for fl in rec['fields'] if fl.get('mutable')]
        if muts:
            rep.finding('R19.3', '%s|mutable %s' % (strip_targs(rec['q']), ','.join(muts)), '%s:%d' % (rel, rec['line']),
                        'record %s has mutable data member(s) %s: const objects shared between threads can be written' % (rec['q'], muts))
        else:
            rep.ok('R19.3', strip_targs(rec['q']), nontrivial=False)
    for fn in prog.funcs.values():
        if not pattern_in_lib(fn):
            continue
        for n in live_walk(fn):
            if n['k'] == 'CXXConstCastExpr':
                rep.touch(fn)
                if fn.pq in allowed_cc:
                    rep.ok('R19.3', 'const_cast|' + fn.pq, sample={'const_cast_in': fn.pq, 'at': fn.loc(n), 'reason': 'tabled'})
                else:
                    rep.finding('R19.3', 'const_cast|' + fn.pq, fn.loc(n),
                                'const_cast in %s is not one of the tabled save-path entry points' % fn.pq, func=fn.id)


def is_save_instantiation(fn):
    if not fn.params:
        return False
    names = ('Serialize', 'SerializeObject', 'SerializeArray', 'SerializeString', 'SerializeValue', 'SplitAndSerialize',
             'SerializeContainer', 'SerializeMapImpl', 'SerializeMultiMapImpl', 'SerializeSetImpl', 'SerializeFixedSizeArray',
             'operator<<', 'CountMapObjectFields', 'GetContainerSize')
    if fn.name not in names:
        return False
    t0 = fn.tu['types'][fn.params[0]['t']]
    cls = fn.cls
    s = t0 + ' ' + cls
    if 'SerializeMode::Save' in s or 'Write' in s.split('<')[0] or 'WriteRootScope' in s or 'WriteObjectScope' in s or 'WriteArrayScope' in s \
            or 'WriteBinaryScope' in s or 'FieldsCountVisitor' in s:
        return True
    return False


def value_params(fn):
    """Parameters that denote the value being saved: every parameter after the archive that is a reference to a
    non-archive object (keys are const or rvalue references and excluded by name)."""
    out = {}
    ps = fn.params
    start = 1 if not fn.sym.get('cls') or fn.name == 'operator<<' else 0
    for p in ps[start:]:
        t = fn.tu['types'][p['t']]
        if p['n'] in ('key', 'archive', 'scope', 'arrayScope', 'serializationContext', 'mapLoadMode'):
            continue
        if not t.endswith('&'):
            continue
        out[p['d']] = p['n']
    return out
