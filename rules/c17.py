"""C17 - validation reports exactly the failing fields and rules, after a full load (structural clauses)."""
from bsv.dtab import TOP, AnalysisBroken, Interp, Model, Sym
from bsv.effects import live_walk
from bsv.facts import child, strip, strip_targs
from bsv import interval as I
from bsv.interval import Iv
from rules.c20 import pattern_in_lib

PROP = 'C17'
LEVEL = 'other'
EXPLANATION = ('R17.1: KeyValue::VisitArgs applies the visitor to every validator exactly once, in declaration order (per instantiation), and the '
               'visitor forwards a returned message to AddValidationError(path, message), both built inside that visitor call (R17.5). R17.2: AddValidationError appends to the list of an '
               'existing path / creates a one-element list for a new path and triggers the early throw by comparing the number of failing fields '
               'with maxValidationErrors under "> 0". R17.3: OnFinishSerialization throws ValidationException(moved map) iff the map is not empty, '
               'and every LoadObject/SaveObject entry point reaches it after the serialization. R17.4: the built-in validators Required, Range, '
               'MinSize, MaxSize are interpreted abstractly over the finite set of orderings of the value (or size) relative to the bounds x '
               'loaded/not loaded: Required fails iff not loaded; Range/MinSize/MaxSize are inclusive and pass when not loaded. '
               'Not decided: path strings per archive, the Email/PhoneNumber grammars.')
ASSUMPTIONS = ['R17.2: an integer member of SerializationContext other than the map that takes part in the cap test is a counter of failing fields (equal to the map size on entry)',
               'values are touched by the built-in validators only through comparisons (finite orderings are exhaustive)']
TRUSTED = ['clang 14 AST', 'bsfacts', 'bsv/dtab.py']


class ValidatorModel(Model):
    def __init__(self, fields, size=None):
        self.fields = fields
        self.size = size

    def initial_store(self, it, key):
        if isinstance(key, str) and key.startswith('this.') and key[5:] in self.fields:
            return self.fields[key[5:]]
        return TOP

    def compare(self, it, fr, n, op, a, b):
        ia, ib = I.as_iv(a), I.as_iv(b)
        if ia is not None and ib is not None:
            r = I.compare(op, ia, ib)
            if r is not None:
                return r
        return Sym(('GUARD', 'CMP@%s' % fr.f.loc(n)))

    def construct(self, it, fr, n, depth):
        vals = [it.ev(fr, a, depth) for a in n.get('c', ())]
        t = fr.f.type(n)
        if len(vals) == 1 and isinstance(vals[0], Sym) and vals[0].tag in ('NONE', 'SOME'):
            return vals[0]
        if t.startswith('std::optional'):
            return Sym('SOME') if vals else Sym('NONE')
        if t.startswith('std::nullopt_t'):
            return Sym('NONE')
        return TOP

    def primitive(self, it, fr, n, callee, depth):
        obj, args = it.call_args(fr, n)
        name = callee['n']
        if name in ('size', 'length') and self.size is not None:
            return self.size
        if not callee.get('repo') or strip_targs(callee['q']).startswith('BitSerializer::Convert'):
            for a in args:
                it.ev(fr, a, depth)
            return TOP
        return NotImplemented


class CapModel(Model):
    """SerializationContext::AddValidationError over a map model: list of the reported path (None = absent), number of paths, the cap."""

    def __init__(self, mx, s0, present, msg_param):
        self.mx = mx
        self.size = s0
        self.list = ('old',) if present else None
        self.msg_param = msg_param
        self.finished = False
        self.bad = None
        self.s0 = s0

    def initial_store(self, it, key):
        # another integer member of the context used by the cap can only be a counter of the failing fields: it equals the map size on entry
        if isinstance(key, str) and key.startswith('this.') and key.count('.') == 1:
            return self.s0
        return TOP

    def member_value(self, it, fr, n, base):
        if n.get('m') == 'maxValidationErrors':
            return self.mx
        return NotImplemented

    def compare(self, it, fr, n, op, a, b):
        if isinstance(a, Sym) and isinstance(b, Sym) and a.tag in ('IT', 'END') and b.tag in ('IT', 'END') and op in ('==', '!='):
            return 1 if (a.tag == b.tag) == (op == '==') else 0
        raise AnalysisBroken('R17.2: comparison outside the map model at %s' % fr.f.loc(n))

    def construct(self, it, fr, n, depth):
        for a in n.get('c', ()):
            it.ev(fr, a, depth)
        return TOP

    def primitive(self, it, fr, n, callee, depth):
        name = callee['n']
        if name == 'OnFinishSerialization':
            self.finished = True
            return TOP
        if callee.get('repo'):
            return NotImplemented
        obj, args = it.call_args(fr, n)
        mentions_msg = any(r['k'] == 'DeclRefExpr' and r.get('d') == self.msg_param for a in args for r in fr.f.walk(a))
        if name in ('operator==', 'operator!='):
            vals = [it.ev(fr, a, depth) for a in ([obj] if obj is not None else []) + list(args)]
            if len(vals) == 2:
                return self.compare(it, fr, n, name[8:], vals[0], vals[1])
        if name == 'find':
            return Sym('IT') if self.list is not None else Sym('END')
        if name in ('end', 'cend'):
            return Sym('END')
        if name in ('size',):
            return self.size
        if name == 'empty':
            return 1 if self.size == 0 else 0
        if name in ('count', 'contains'):
            return 1 if self.list is not None else 0
        if name in ('try_emplace', 'emplace', 'insert') and len(args) >= 2 or name == 'insert' and obj is not None and 'map' in fr.f.type(obj):
            if self.list is None:
                self.list = ('msg',) if mentions_msg else ('?',)
                self.size += 1
            return TOP
        if name in ('insert_or_assign',):
            if self.list is None:
                self.size += 1
            self.list = ('msg',) if mentions_msg else ('?',)
            return TOP
        if name == 'operator[]' or name == 'at':
            if self.list is None:
                if name == 'at':
                    self.bad = 'at() on a path that is not in the map'
                self.list = ()
                self.size += 1
            return TOP
        if name in ('push_back', 'emplace_back'):
            if self.list is None:
                self.bad = 'appends through an iterator of a path that is not in the map'
                self.list = ()
            self.list = self.list + (('msg',) if mentions_msg else ('?',))
            return TOP
        if name in ('push_front', 'emplace_front', 'insert'):
            if self.list is None:
                self.list = ()
            self.list = (('msg',) if mentions_msg else ('?',)) + self.list
            return TOP
        if name in ('clear', 'erase', 'assign', 'operator=') and obj is not None:
            t = fr.f.type(obj)
            if 'map' in t or 'vector' in t or 'ValidationErrors' in t:
                self.bad = 'calls %s() on the collected errors' % name
            return TOP
        for a in args:
            it.ev(fr, a, depth)
        return TOP


class VInterp(Interp):
    def ev(self, fr, n, depth):
        if n is not None and n['k'] == 'DeclRefExpr' and n.get('n') == 'nullopt':
            return Sym('NONE')
        return Interp.ev(self, fr, n, depth)

    def cast_other(self, v, t):
        return v


def run_validator(prog, f, fields, value, loaded, size=None):
    model = ValidatorModel(fields, size)
    it = VInterp(prog, model, max_depth=2, max_paths=50)

    def init(it_, fr):
        for p in f.params:
            if p['n'] == 'isLoaded' or f.tu['types'][p['t']] == 'bool':
                fr.env[p['d']] = loaded
            else:
                fr.env[p['d']] = value
    outs = set()
    for p in it.run(f, init):
        if p.outcome[0] == 'RET':
            v = p.outcome[1]
            outs.add(v.tag if isinstance(v, Sym) and v.tag in ('NONE', 'SOME') else 'SOME?')
        else:
            outs.add('THROW')
    return outs


def run(prog, rep):
    from rules import c18 as _c18
    rep.rule('R17.7', 'the "loaded" flag that reaches the validators: optional / unique_ptr / shared_ptr loaders return false on every path that '
                      'leaves the wrapper empty (explicit null, failed load) - Required() fails for a field that holds nothing', floor=6)
    _c18.check_wrapper_results(prog, rep, 'R17.7')
    # "loaded" is true only for the field's own key: a key comparison that accepts a different key makes Required() pass for an absent field
    from rules import keycmp as _keycmp
    _keycmp.check_array_key(prog, rep, 'R17.11')
    rep.rule('R17.1', 'VisitArgs applies the visitor to every validator once, in declaration order; the visitor forwards a message to AddValidationError', floor=8)
    rep.rule('R17.2', 'AddValidationError: append for an existing path, one-element list for a new path; early throw when the number of failing '
                      'fields reaches maxValidationErrors (> 0)', floor=3)
    rep.rule('R17.3', 'OnFinishSerialization throws ValidationException(moved map) iff the map is not empty; every entry point calls it after serialization', floor=9)
    rep.rule('R17.4', 'built-in validators over the finite orderings: Required fails iff not loaded; Range / MinSize / MaxSize inclusive, pass when not loaded', floor=30)

    # ---------------------------------------------------------------- R17.1
    n = 0
    for f in sorted(prog.funcs.values(), key=lambda x: x.id):
        if f.sym['kind'] != 'lambda' or 'key_value.h' not in f.file:
            continue
        # the lambda given to std::apply inside VisitArgs: auto&&... args
        calls = [x for x in f.walk() if x['k'] == 'CXXOperatorCallExpr' and x.get('op') == '()']
        params = [p['d'] for p in f.params]
        rep.touch(f)
        n += 1
        order = []
        for c in calls:
            a = strip(c['c'][2]) if len(c['c']) > 2 else None
            order.append(a.get('d') if a is not None else None)
        site = 'VisitArgs fold|%d validators|%s' % (len(params), f.id[-50:])
        if order == params:
            rep.ok('R17.1', site, sample={'validators': len(params), 'visitor_calls_in_order': True} if len(params) >= 2 and n < 60 else None, nontrivial=len(params) > 0)
        else:
            rep.finding('R17.1', 'VisitArgs fold|order or count', f.loc(), 'VisitArgs visits the validators %s but they are declared in the order %s'
                        % (order, params), {'instantiation': f.id}, func=f.id)
    for f in sorted(prog.funcs.values(), key=lambda x: x.id):
        if f.sym['kind'] != 'lambda' or 'key_value_proxy.h' not in f.file:
            continue
        ok = False
        # locals that hold the result of the validator call
        held = set()
        for x in f.walk():
            if x['k'] == 'DeclStmt' and x.get('decls') and x.get('c') and any(y['k'] == 'CXXOperatorCallExpr' and y.get('op') == '()' for y in f.walk(x['c'][0])):
                held.add(x['decls'][0]['d'])
        for x in f.walk():
            if x['k'] == 'IfStmt':
                var = child(x, 'var')
                then = child(x, 'then')
                cond = child(x, 'cond')
                if then is None:
                    continue
                from_handler = (var is not None and any(y['k'] == 'CXXOperatorCallExpr' and y.get('op') == '()' for y in f.walk(var))) or \
                    (cond is not None and any(y['k'] == 'DeclRefExpr' and y.get('d') in held for y in f.walk(cond)))
                adds = [y for y in f.walk(then) if y['k'] == 'CXXMemberCallExpr' and (f.callee(y) or {}).get('n') == 'AddValidationError']
                if from_handler and adds:
                    ok = True
        if any(y['k'] == 'CXXOperatorCallExpr' and y.get('op') == '()' for y in f.walk()):
            rep.touch(f)
            if ok:
                rep.ok('R17.1', 'visitor forwards message|' + f.id[-60:], nontrivial=False)
            else:
                rep.finding('R17.1', 'visitor forwards message', f.loc(), 'the validation visitor does not pass a returned message to AddValidationError', func=f.id)

    # ---------------------------------------------------------------- R17.5 every report carries the field's own path and message
    rep.rule('R17.5', 'validation visitor: both arguments of AddValidationError are built inside the visitor call - every std::move there moves a '
                      'local of the visitor (not storage shared by the validators of the field), and the path comes from GetPath()', floor=4)
    for f in sorted(prog.funcs.values(), key=lambda x: x.id):
        if f.sym['kind'] != 'lambda' or 'key_value_proxy.h' not in f.file:
            continue
        adds = [y for y in f.walk() if y['k'] == 'CXXMemberCallExpr' and (f.callee(y) or {}).get('n') == 'AddValidationError']
        if not adds:
            continue
        rep.touch(f)
        local = set()
        inits = {}
        for x in f.walk():
            for dcl in x.get('decls', []) or []:
                local.add(dcl['d'])
                if x.get('c'):
                    inits[dcl['d']] = x['c'][0]
            if x['k'] == 'IfStmt':
                v = child(x, 'var')
                if v is not None:
                    for dcl in v.get('decls', []) or []:
                        local.add(dcl['d'])
        for call in adds:
            bad = None
            for a in call['c'][1:]:
                for m in f.walk(a):
                    if m['k'] == 'CallExpr' and (f.callee(m) or {}).get('q') == 'std::move':
                        refs = [r for r in f.walk(m['c'][1]) if r['k'] == 'DeclRefExpr' and r.get('dk') in ('Var', 'ParmVar', None)]
                        if refs and refs[0].get('d') not in local:
                            bad = 'moves from "%s", which lives outside the visitor call (shared by all validators of the field): the second failing ' \
                                  'validator reports a moved-from value' % refs[0].get('n')
            patharg = call['c'][1] if len(call['c']) > 1 else None
            fresh = False
            def builds_path(g, e, depth=0):
                for x in g.walk(e):
                    if x['k'] == 'CXXMemberCallExpr' and (g.callee(x) or {}).get('n') == 'GetPath':
                        return True
                    if x['k'] == 'CallExpr' and depth < 2:
                        c_ = g.callee(x) or {}
                        h = prog.funcs.get(c_.get('id'))
                        if h is not None and c_.get('repo') and 'KeyValueProxy' in c_.get('q', '') and builds_path(h, h.body, depth + 1):
                            return True
                return False
            if patharg is not None:
                if builds_path(f, patharg):
                    fresh = True
                for r in f.walk(patharg):
                    if r['k'] == 'DeclRefExpr' and r.get('d') in inits and builds_path(f, inits[r['d']]):
                        fresh = True
            if bad is None and not fresh:
                bad = 'the path argument is not built from GetPath() inside the visitor call'
            site = 'visitor|' + f.id[-50:]
            if bad:
                rep.finding('R17.5', 'visitor|report arguments', f.loc(call), 'validation visitor: AddValidationError %s' % bad, func=f.id)
            else:
                rep.ok('R17.5', site + '|' + f.loc(call), nontrivial=False)

    # ---------------------------------------------------------------- R17.6 all validators of a field are evaluated before the cap can end the load
    rep.rule('R17.6', 'the early throw of maxValidationErrors cannot happen from inside the fold over the validators of one field: the field that reaches '
                      'the cap is reported with the messages of all its failing validators ("number of errors for each particular field is unlimited")', floor=1)

    def can_end_load(g, depth=0, seen=None):
        """does g (transitively, library code only) throw or call OnFinishSerialization?"""
        seen = seen if seen is not None else set()
        if g is None or g.id in seen or depth > 3:
            return None
        seen.add(g.id)
        for y in g.walk():
            if y['k'] == 'CXXThrowExpr':
                return g.loc(y)
            if y['k'] in ('CallExpr', 'CXXMemberCallExpr'):
                c = g.callee(y) or {}
                if c.get('n') == 'OnFinishSerialization':
                    return g.loc(y)
                if c.get('repo') and c.get('cls', '').endswith('SerializationContext'):
                    r = can_end_load(prog.funcs.get(c.get('id')), depth + 1, seen)
                    if r:
                        return r
        return None
    n176 = 0
    for f in sorted(prog.funcs.values(), key=lambda x: x.id):
        if f.sym['kind'] != 'lambda' or 'key_value_proxy.h' not in f.file:
            continue
        if not any(y['k'] == 'CXXOperatorCallExpr' and y.get('op') == '()' for y in f.walk()):
            continue
        n176 += 1
        hit = None
        for y in f.walk():
            if y['k'] == 'CXXMemberCallExpr':
                c = f.callee(y) or {}
                if c.get('repo') and c.get('cls', '').endswith('SerializationContext'):
                    r = can_end_load(prog.funcs.get(c.get('id')))
                    if r:
                        hit = (f.loc(y), c.get('n'), r)
        rep.touch(f)
        if hit:
            rep.finding('R17.6', 'visitor|early throw inside the fold over the validators', hit[0],
                        'the visitor applied to each validator of a field calls %s(), which ends the load (%s) as soon as maxValidationErrors fields have failed: '
                        'the remaining validators of that field are not evaluated and their messages are missing from the exception' % (hit[1], hit[2]), func=f.id)
        else:
            rep.ok('R17.6', 'visitor|' + f.id[-50:], nontrivial=False)
    if n176 == 0:
        raise AnalysisBroken('R17.6: the validation visitor in key_value_proxy.h was not found')

    # ---------------------------------------------------------------- R17.2
    fs = [f for f in prog.funcs.values() if f.q == 'BitSerializer::SerializationContext::AddValidationError']
    if len(fs) != 1:
        raise AnalysisBroken('anchor vanished: SerializationContext::AddValidationError')
    f = fs[0]
    rep.touch(f)
    # abstract execution over a tiny map model: the list of the reported path is absent or holds one older message, the map has S0 paths,
    # maxValidationErrors is MAX. Helpers of the class are inlined, so it does not matter where the cap predicate is written.
    cells = []
    for mx in (0, 1, 2, 3):
        for s0 in (0, 1, 2, 3):
            for present in (False, True):
                final = s0 + (0 if present else 1)
                if present and s0 == 0:
                    continue
                if mx > 0 and (final > mx or (present and s0 >= mx)):
                    continue        # not reachable: the map is moved out when the cap is reached
                cells.append((mx, s0, present))
    bad_group, bad_cap = None, None
    for mx, s0, present in cells:
        model = CapModel(mx, s0, present, f.params[1]['d'] if len(f.params) > 1 else None)
        it = VInterp(prog, model, max_depth=3, max_paths=50)
        paths = it.run(f, lambda it_, fr: None)
        if len(paths) != 1:
            raise AnalysisBroken('R17.2: AddValidationError is not deterministic over the map model (%d paths; %s)' % (len(paths), [p.guards for p in paths]))
        finished = model.finished or paths[0].outcome[0] == 'THROW'
        want_list = (('old',) if present else ()) + ('msg',)
        if model.bad or model.list != want_list:
            bad_group = bad_group or 'path %s, map of %d paths: the list of the path becomes %s, expected %s%s' % (
                'already reported' if present else 'new', s0, list(model.list) if model.list is not None else None, list(want_list),
                ' (%s)' % model.bad if model.bad else '')
        final = s0 + (0 if present else 1)
        want_finish = mx > 0 and final == mx
        if finished != want_finish:
            bad_cap = bad_cap or 'maxValidationErrors=%d, %d failing fields after the report: %s, expected %s' % (
                mx, final, 'throws' if finished else 'does not throw', 'the early throw' if want_finish else 'to continue')
    if bad_group is None:
        rep.ok('R17.2', 'AddValidationError|grouping', sample={'cells': len(cells), 'new_path': '[msg]', 'existing_path': '[old, msg]'})
    else:
        rep.finding('R17.2', 'AddValidationError|grouping', f.loc(), 'AddValidationError must create a one-element list for a new path and append to an existing one: '
                    + bad_group, func=f.id)
    if bad_cap is None:
        rep.ok('R17.2', 'AddValidationError|cap', sample={'cells': len(cells), 'cap': 'throws iff maxValidationErrors > 0 and equals the number of failing fields'})
    else:
        rep.finding('R17.2', 'AddValidationError|cap', f.loc(), 'the early throw must happen exactly when the number of failing fields (mErrorsMap.size()) reaches '
                    'maxValidationErrors (> 0): ' + bad_cap, func=f.id)
    rep.ok('R17.2', 'AddValidationError|found', nontrivial=False)

    # ---------------------------------------------------------------- R17.3
    fs = [f for f in prog.funcs.values() if f.q == 'BitSerializer::SerializationContext::OnFinishSerialization']
    if len(fs) != 1:
        raise AnalysisBroken('anchor vanished: SerializationContext::OnFinishSerialization')
    f = fs[0]
    rep.touch(f)
    # executed for an empty and a non-empty map: throws ValidationException(std::move(map)) exactly in the second case
    class FinishModel(Model):
        def __init__(self, empty):
            self.empty = empty

        def initial_store(self, it, key):
            return TOP

        def compare(self, it, fr, n, op, a, b):
            if isinstance(a, int) and isinstance(b, int):
                return 1 if {'==': a == b, '!=': a != b, '<': a < b, '<=': a <= b, '>': a > b, '>=': a >= b}[op] else 0
            return Sym(('GUARD', 'CMP@%s' % fr.f.loc(n)))

        def construct(self, it, fr, n, depth):
            for a in n.get('c', ()):
                it.ev(fr, a, depth)
            return TOP

        def primitive(self, it, fr, n, callee, depth):
            if callee['n'] == 'empty':
                return 1 if self.empty else 0
            if callee['n'] == 'size':
                return 0 if self.empty else 2
            obj, args = it.call_args(fr, n)
            for a in args:
                it.ev(fr, a, depth)
            return TOP
    ok = True
    for empty in (True, False):
        it = VInterp(prog, FinishModel(empty), max_depth=1, max_paths=20)
        outs = [p_.outcome for p_ in it.run(f, lambda it_, fr: None)]
        if empty and any(o[0] == 'THROW' for o in outs):
            ok = False
        if not empty and not all(o[0] == 'THROW' and str(o[1]).endswith('ValidationException') for o in outs):
            ok = False
    moved = any(x['k'] == 'CXXThrowExpr' and any((f.callee(y) or {}).get('n') == 'move' for y in f.walk(x) if y['k'] == 'CallExpr') for x in f.walk())
    ok = ok and moved
    uncond_throw = False
    if ok and not uncond_throw:
        rep.ok('R17.3', 'OnFinishSerialization', sample={'throws': 'ValidationException(std::move(mErrorsMap)) iff !mErrorsMap.empty()'})
    else:
        rep.finding('R17.3', 'OnFinishSerialization', f.loc(), 'OnFinishSerialization must throw ValidationException(std::move(map)) exactly when the error map is not empty', func=f.id)
    for f in sorted(prog.funcs.values(), key=lambda x: x.id):
        if not pattern_in_lib(f) or not (f.pq in ('BitSerializer::LoadObject', 'BitSerializer::SaveObject') or (f.relfile.endswith('bitserializer/bit_serializer.h') and f.q.startswith('BitSerializer::'))):
            continue
        seq = []
        for x in live_walk(f):
            if x['k'] in ('CallExpr', 'CXXMemberCallExpr'):
                nm = (f.callee(x) or {}).get('n')
                if nm in ('SplitAndSerialize', 'Finalize', 'OnFinishSerialization', 'SaveObject', 'LoadObject'):
                    seq.append(nm)
        if not seq or 'SplitAndSerialize' not in seq and 'OnFinishSerialization' not in seq:
            continue      # forwarding overloads (to another overload or to the session helper)
        rep.touch(f)
        site = '%s|%s' % (f.pq, f.sym.get('targs', '')[:70])
        if seq == ['SplitAndSerialize', 'Finalize', 'OnFinishSerialization']:
            rep.ok('R17.3', site, sample={'entry_point': f.pq, 'protocol': seq} if 'Load' in f.pq and len(rep.samples) < 60 else None, nontrivial=False)
        else:
            rep.finding('R17.3', '%s|protocol' % f.pq, f.loc(), '%s does not run SplitAndSerialize -> Finalize -> OnFinishSerialization in this order (%s): '
                        'collected validation errors are lost or raised before the document is complete' % (f.pq, seq), {'instantiation': f.id}, func=f.id)

    # ---------------------------------------------------------------- R17.4
    def chk(site, f, fields, value, loaded, want, size=None, why=''):
        got = run_validator(prog, f, fields, value, loaded, size)
        ok = (got == {'NONE'}) if want == 'pass' else ('NONE' not in got and bool(got))
        if ok:
            rep.ok('R17.4', site, sample={'validator': site.split('|')[0], 'case': site.split('|', 1)[1], 'verdict': want} if 'max' in site and 'loaded' in site else None)
        else:
            rep.finding('R17.4', site.split('|')[0] + '|' + why, f.loc(), '%s must %s for %s but the abstract outcome is %s' % (site.split('|')[0], want, site.split('|', 1)[1], sorted(got)),
                        {'instantiation': f.id}, func=f.id)

    req = [f for f in prog.funcs.values() if f.q == 'BitSerializer::Required::operator()']
    rng = [f for f in prog.funcs.values() if f.pq == 'BitSerializer::Range::operator()']
    mins = [f for f in prog.funcs.values() if f.q == 'BitSerializer::MinSize::operator()']
    maxs = [f for f in prog.funcs.values() if f.q == 'BitSerializer::MaxSize::operator()']
    if not (req and rng and mins and maxs):
        raise AnalysisBroken('anchor: validator instantiations missing (Required %d, Range %d, MinSize %d, MaxSize %d)' % (len(req), len(rng), len(mins), len(maxs)))
    for f in sorted(req, key=lambda x: x.id)[:3]:
        rep.touch(f)
        chk('Required|not loaded', f, {}, TOP, 0, 'fail', why='fails iff not loaded')
        chk('Required|loaded', f, {}, TOP, 1, 'pass', why='fails iff not loaded')
    for f in sorted(rng, key=lambda x: x.id)[:3]:
        rep.touch(f)
        flds = {'mMin': 10, 'mMax': 20}
        for nm, v, want in (('value < min', Iv(-100, 9), 'fail'), ('value == min', Iv(10, 10), 'pass'), ('min < value < max', Iv(11, 19), 'pass'),
                            ('value == max', Iv(20, 20), 'pass'), ('value > max', Iv(21, 100), 'fail')):
            chk('Range|loaded, %s' % nm, f, flds, v, 1, want, why='inclusive bounds')
            chk('Range|not loaded, %s' % nm, f, flds, v, 0, 'pass', why='passes when not loaded')
    for fs, nm_, fld, cases in ((mins, 'MinSize', 'mMinSize', (('size < min', Iv(0, 4), 'fail'), ('size == min', Iv(5, 5), 'pass'), ('size > min', Iv(6, 50), 'pass'))),
                                (maxs, 'MaxSize', 'mMaxSize', (('size < max', Iv(0, 4), 'pass'), ('size == max', Iv(5, 5), 'pass'), ('size > max', Iv(6, 50), 'fail')))):
        for f in sorted(fs, key=lambda x: x.id)[:3]:
            rep.touch(f)
            for nm, sz, want in cases:
                chk('%s|loaded, %s' % (nm_, nm), f, {fld: 5}, Sym('VALUE'), 1, want, size=sz, why='inclusive bound')
                chk('%s|not loaded, %s' % (nm_, nm), f, {fld: 5}, Sym('VALUE'), 0, 'pass', size=sz, why='passes when not loaded')
