"""C13 - encoded text streams: encoding detection, BOM and chunked decoding (structural clauses)."""
import re

from bsv import interval
from bsv.interval import Iv
from bsv.dtab import TOP, AnalysisBroken, Interp, Model, Pos, Sym, base_type, INT_TYPES
from bsv.facts import child, strip, strip_targs
from rules import encoded_reader
from spec import unicode_spec as SPEC

PROP = 'C13'
LEVEL = 'other'
UNITS = ['w_convert.cpp', 'csv_readers.cpp', 'csv_writers.cpp', 'w_archives.cpp']
EXPLANATION = ('R13.1: the BOM constant of every UTF traits class is U+FEFF encoded in that encoding (computed from the Unicode tables). '
               'R13.2: DetectEncoding tests BOMs in an order in which no BOM is shadowed by a shorter BOM that is its prefix, and each branch '
               'reports the like-named encoding and that BOM\'s length as data offset; StartsWithBom<X> walks X::bom. R13.3: every '
               'switch over UtfType in the conversion layer covers all five encodings and each case only touches the like-named traits class. '
               'R13.4: the stream writer emits a BOM iff addBom, for the configured encoding, writes size()*sizeof(unit) bytes of the encoder '
               'output, and the CSV stream writer forwards StreamOptions.encoding / writeBom in those positions. R13.5: decision table of the '
               'BOM-less detection over byte classes (zero / ASCII / other) of texts that start with an ASCII character in each encoding '
               '(one unit and longer) and of BOM-prefixed texts: the detected encoding and data offset are the expected ones, every probe read '
               'stays inside the view. R13.6-R13.8: window arithmetic of CEncodedStreamReader over symbolic pointers (linear constraints): '
               'the window stays inside the buffer, the squeeze/refill requests fit, and at end of file a Success result of ReadChunk always '
               'leaves an empty window (otherwise IsEnd() can never become true and every caller loop spins). '
               'Not decided: equality of the decoded text with the written text (needs the transcoder semantics of C11/C12 composed over chunks).')
ASSUMPTIONS = ['little-endian host (NativeToLittleEndian is the identity in the analysed instantiation)',
               'TUtf::Decode contract: Iterator in [begin, end]; Success implies Iterator == end (C12 R12.3); UnexpectedEnd implies an incomplete tail',
               'std::istream::read stores gcount() <= requested bytes']
TRUSTED = ['clang 14 AST', 'bsfacts', 'spec/unicode_spec.py (Unicode 15 chapter 3 tables)', 'bsv/linear.py Fourier-Motzkin entailment']

NS = 'BitSerializer::Convert::Utf::'
TRAITS = {'Utf8': 'Utf8', 'Utf16Le': 'Utf16le', 'Utf16Be': 'Utf16be', 'Utf32Le': 'Utf32le', 'Utf32Be': 'Utf32be'}
ENUM = NS + 'UtfType'


def expected_bom(trait):
    if trait == 'Utf8':
        return [lo for lo, hi in SPEC.utf8_bytes_of(0xFEFF, 0xFEFF)]
    if trait.startswith('Utf16'):
        b = [0xFE, 0xFF]
    else:
        b = [0x00, 0x00, 0xFE, 0xFF]
    return b if trait.endswith('Be') else list(reversed(b))


def boms(prog):
    out = {}
    for key, gs in prog.globals.items():
        g = gs[0]
        q = g.get('q', '')
        if q.startswith(NS) and q.endswith('::bom') and g.get('val') is not None:
            out[q[len(NS):-5]] = [v & 0xff for v in g['val']]
    return out


def trait_mentions(f, nodes):
    """traits classes a statement touches: X::member references, first template argument of repo calls, pair<X,...> results of emplace"""
    found = set()
    for st in nodes:
        for n in f.walk(st):
            if n['k'] == 'DeclRefExpr' and n.get('q', '').startswith(NS):
                m = re.match(re.escape(NS) + r'(Utf\w+)::', n['q'])
                if m:
                    found.add(m.group(1))
            if n['k'] in ('CallExpr', 'CXXMemberCallExpr'):
                cal = f.callee(n)
                if cal is None:
                    continue
                if cal.get('repo'):
                    m = re.search(r'<' + re.escape(NS) + r'(Utf\w+)[,>]', cal['id'].split('|')[0])
                    if m:
                        found.add(m.group(1))
                elif cal.get('n') == 'emplace':
                    m = re.match(r'std::pair<' + re.escape(NS) + r'(Utf\w+),', f.type(n))
                    if m:
                        found.add(m.group(1))
    return found


def switch_cases(f, sw):
    """[(enumerator value, [statements of the case])] of a flat switch body"""
    body = child(sw, 'body')
    stmts = body['c'] if body['k'] == 'CompoundStmt' else [body]
    cases, cur = [], None
    for s in stmts:
        x = s
        opened = False
        while x is not None and x['k'] in ('CaseStmt', 'DefaultStmt'):
            lab = child(x, 'lhs').get('cv') if x['k'] == 'CaseStmt' else 'default'
            cur = (lab, [])
            cases.append(cur)
            opened = True
            x = child(x, 'sub')
        if cur is not None and x is not None:
            cur[1].append(x)
        if x is not None and x['k'] in ('BreakStmt', 'ReturnStmt') and not opened:
            pass
    return cases


def check_switches(prog, rep, rule, where=lambda f: f.relfile.endswith('conversion_detail/convert_utf.h')):
    enum = prog.enums.get(ENUM)
    if enum is None:
        raise AnalysisBroken('anchor vanished: enum UtfType')
    byval = dict((v, k) for k, v in enum['items'].items())
    want = dict((v, k) for k, v in TRAITS.items())     # enumerator -> trait
    if sorted(want) != sorted(enum['items']):
        rep.finding(rule, 'UtfType|enumerators', '%s:%s' % (enum['file'].replace('/repo/', ''), enum['line']),
                    'UtfType enumerators %s differ from the five traits classes %s' % (sorted(enum['items']), sorted(TRAITS)))
    for f in sorted(prog.funcs.values(), key=lambda g: g.id):
        if not f.sym.get('repo') or not where(f) or f.body is None:
            continue
        for sw in f.walk():
            if sw['k'] != 'SwitchStmt':
                continue
            cond = child(sw, 'cond')
            if base_type(f.type(cond)) != ENUM:
                continue
            rep.touch(f)
            cases = switch_cases(f, sw)
            labels = [c[0] for c in cases]
            site = '%s@%s' % (f.pq if f.cls else f.name, f.loc(sw))
            missing = [byval[v] for v in sorted(byval) if v not in labels]
            if missing and 'default' not in labels:
                rep.finding(rule, '%s|missing %s' % (f.pq if f.cls else f.name, ','.join(missing)), f.loc(sw),
                            '%s: switch over UtfType has no case for %s' % (site, ', '.join(missing)), func=f.id)
            for lab, stmts in cases:
                if lab == 'default':
                    continue
                name = byval.get(lab)
                m = trait_mentions(f, stmts)
                wrong = sorted(t for t in m if t in TRAITS and TRAITS[t] != name)
                if wrong:
                    rep.finding(rule, '%s|case %s uses %s' % (f.pq if f.cls else f.name, name, ','.join(wrong)), f.loc(stmts[0]) if stmts else f.loc(sw),
                                '%s: case UtfType::%s works with traits class %s' % (site, name, ', '.join(wrong)), func=f.id)
                else:
                    rep.ok(rule, '%s|%s' % (site, name), nontrivial=bool(m),
                           sample={'switch': site, 'case': name, 'traits': sorted(m)} if name == 'Utf16be' else None)


# ------------------------------------------------------------------------------------------------ detection table (R13.5)
BASE = {'Z': (0, 0), 'A': (1, 127), 'N': (128, 255)}


def rng(c):
    if isinstance(c, tuple):
        return c
    if isinstance(c, int):
        return (c, c)
    return BASE[c]


class Refine(Exception):
    """byte i of the text must be split at value t (ranges [lo, t-1] and [t, hi]) before the comparison can be decided"""

    def __init__(self, i, t):
        Exception.__init__(self)
        self.i, self.t = i, t


class Word(object):
    """little-endian word whose bytes are known by range only; .pos = offset of byte 0 in the text"""
    __slots__ = ('b', 'pos', 'order')

    def __init__(self, b, pos, order=None):
        self.b = [rng(x) for x in b]
        self.pos = pos
        self.order = order if order is not None else list(range(len(self.b)))   # text offset (relative) of each byte of the value

    def span(self):
        return (sum(lo << (8 * i) for i, (lo, hi) in enumerate(self.b)), sum(hi << (8 * i) for i, (lo, hi) in enumerate(self.b)))

    def __repr__(self):
        return 'Word(%s)' % ','.join('%02x-%02x' % x for x in self.b)


def byte_value(c):
    lo, hi = rng(c)
    if hi <= 127:
        return lo if lo == hi else Iv(lo, hi)
    if lo >= 128:
        return (lo - 256) if lo == hi else Iv(lo - 256, hi - 256)
    raise AnalysisBroken('detection table: byte class %r straddles the sign of char' % (c,))


class DetectModel(Model):
    unroll_loops = True

    def __init__(self, prog, cells, bom_table):
        self.prog = prog
        self.cells = [rng(c) for c in cells]
        self.L = len(cells)
        self.boms = bom_table

    def initial_store(self, it, key):
        return TOP

    def construct(self, it, fr, n, depth):
        vals = [it.ev(fr, a, depth) for a in n.get('c', ())]
        if len(vals) == 1 and isinstance(vals[0], Sym) and 'basic_string_view' in fr.f.type(n):
            return vals[0]          # the view handed on by value to a helper is the same view
        return self.construct_record(it, fr, n, depth, vals)

    def address_of(self, it, fr, sub, depth):
        s = strip(sub)
        if s is not None and s['k'] == 'CXXOperatorCallExpr':
            cal = fr.f.callee(s)
            if cal is not None and cal.get('n') == 'operator[]':
                obj, args = it.call_args(fr, s)
                if isinstance(it.ev(fr, obj, depth), Sym):
                    i = it.ev(fr, args[0], depth)
                    if isinstance(i, int):
                        return Pos(i)
        return TOP

    def deref(self, it, fr, n, v):
        if isinstance(v, Pos) and v.k is not None:
            info = INT_TYPES.get(base_type(fr.f.type(n)))
            w = info[0] // 8 if info else 1
            ok = 0 <= v.k and v.k + w <= self.L
            it.act('PROBE', w, v.k, ok, fr.f.loc(n))
            if not ok:
                return TOP
            if w == 1:
                return byte_value(self.cells[v.k])
            return Word(self.cells[v.k:v.k + w], v.k)
        return TOP

    def compare(self, it, fr, n, op, a, b):
        flip = {'<': '>', '>': '<', '<=': '>=', '>=': '<=', '==': '==', '!=': '!='}
        for x, y, o in ((a, b, op), (b, a, flip[op])):
            if isinstance(x, Word) and isinstance(y, int):
                lo, hi = x.span()
                r = interval.compare(o, Iv(lo, hi), Iv(y, y))
                if r is not None:
                    return r
                # undecided: refine the most significant byte whose range straddles the constant's byte
                for i in range(len(x.b) - 1, -1, -1):
                    blo, bhi = x.b[i]
                    c = (y >> (8 * i)) & 0xff
                    if blo == bhi:
                        continue
                    if blo <= c <= bhi:
                        for t in (c, c + 1):
                            if blo < t <= bhi:
                                raise Refine(x.pos + x.order[i], t)
                    # the constant's byte lies outside this byte's range: a more significant byte decides - keep looking
                raise AnalysisBroken('detection table: comparison %s 0x%x undecidable on byte ranges %r at %s' % (o, y, x, fr.f.loc(n)))
        ia, ib = interval.as_iv(a), interval.as_iv(b)
        if ia is not None and ib is not None:
            r = interval.compare(op, ia, ib)
            if r is not None:
                return r
            return Sym(('GUARD', 'BYTE@%s' % fr.f.loc(n)))
        return Sym(('GUARD', 'OPAQUE@%s' % fr.f.loc(n)))

    def arith(self, it, fr, n, op, a, b):
        if op == '&' and isinstance(a, Word) and isinstance(b, int):
            out = []
            for i, c in enumerate(a.b):
                m = (b >> (8 * i)) & 0xff
                if m == 0xff:
                    out.append(c)
                elif m == 0:
                    out.append((0, 0))
                else:
                    raise AnalysisBroken('detection table: mask 0x%x is not byte-aligned at %s' % (b, fr.f.loc(n)))
            return Word(out, a.pos, a.order)
        return TOP

    def primitive(self, it, fr, n, callee, depth):
        q = strip_targs(callee['q'])
        name = callee['n']
        obj, args = it.call_args(fr, n)
        if q == NS + 'StartsWithBom':
            m = re.search(r'StartsWithBom<' + re.escape(NS) + r'(\w+),', callee['id'])
            bom = self.boms.get(m.group(1)) if m else None
            if bom is None:
                raise AnalysisBroken('detection table: cannot resolve the BOM of %s' % callee['id'][:120])
            it.act('BOMTEST', m.group(1))
            for i, bb in enumerate(bom):
                if i >= self.L:
                    return 0
                lo, hi = self.cells[i]
                if bb < lo or bb > hi:
                    return 0
                if lo == hi:
                    continue
                raise Refine(i, bb if lo < bb else bb + 1)
            return 1
        if q.startswith('std::basic_string_view'):
            if name in ('size', 'length'):
                return self.L
            if name == 'empty':
                return 1 if self.L == 0 else 0
            if name == 'operator[]':
                i = it.ev(fr, args[0], depth)
                if isinstance(i, int) and 0 <= i < self.L:
                    return byte_value(self.cells[i])
                return TOP
            return TOP
        if name in ('memcpy', 'memmove') and len(args) == 3:
            # a probe taken by memcpy(&local, &text[i], n): the same read as *reinterpret_cast<const T*>(&text[i]), without the alignment demand
            src = it.ev(fr, args[1], depth)
            cnt = it.ev(fr, args[2], depth)
            d = strip(args[0])
            while d is not None and d['k'] in ('UnaryOperator',) and d.get('op') == '&':
                d = strip(d['c'][0])
            if isinstance(src, Pos) and src.k is not None and isinstance(cnt, int) and d is not None and d['k'] == 'DeclRefExpr':
                ok = 0 <= src.k and src.k + cnt <= self.L
                it.act('PROBE', cnt, src.k, ok, fr.f.loc(n))
                v = TOP
                if ok:
                    v = byte_value(self.cells[src.k]) if cnt == 1 else Word(self.cells[src.k:src.k + cnt], src.k)
                key = it.lvalue(fr, d, depth)
                if key is not None:
                    it.write_key(fr, key, v)
                return TOP
            raise AnalysisBroken('detection table: memcpy with operands outside the model at %s' % fr.f.loc(n))
        if name in ('NativeToLittleEndian', 'LittleEndianToNative'):
            return it.ev(fr, args[0], depth)
        if name == 'Reverse' and len(args) == 1:
            v = it.ev(fr, args[0], depth)
            if isinstance(v, Word):
                return Word(list(reversed(v.b)), v.pos, list(reversed(v.order)))
            return TOP
        if not callee.get('repo'):
            for a in args:
                it.ev(fr, a, depth)
            return TOP
        return NotImplemented


class DetectInterp(Interp):
    def cast_other(self, v, t):
        if isinstance(v, Iv):
            return interval.cast(v, t)
        return v

    def coerce(self, v, t):
        if isinstance(v, Iv):
            return interval.cast(v, t)
        return Interp.coerce(self, v, t)


def detect(prog, f, cells, bom_table):
    """[(sub-cell ranges, result, offset, probes)] - the cell is refined until every comparison is decided"""
    work = [[rng(c) for c in cells]]
    out = []
    n = 0
    while work:
        cur = work.pop()
        n += 1
        if n > 400:
            raise AnalysisBroken('detection table: cell %r keeps refining' % (cells,))
        it = DetectInterp(prog, DetectModel(prog, cur, bom_table), max_depth=2, max_paths=64)

        def init(it_, fr):
            fr.env[f.params[0]['d']] = Sym('VIEW')
            fr.alias[f.params[1]['d']] = 'out.offset'
        try:
            paths = it.run(f, init)
        except Refine as r:
            lo, hi = cur[r.i]
            if not (lo < r.t <= hi):
                raise AnalysisBroken('detection table: bad refinement of byte %d at %d in %r' % (r.i, r.t, cur))
            a, b = list(cur), list(cur)
            a[r.i] = (lo, r.t - 1)
            b[r.i] = (r.t, hi)
            work.append(a)
            work.append(b)
            continue
        for p in paths:
            probes = [a for a in p.actions if a[0] == 'PROBE']
            res = p.outcome[1] if p.outcome[0] == 'RET' else 'THROW'
            out.append((res, p.store.get('out.offset', TOP), probes, cur))
    return out


def detection_cells():
    """(encoding, description, byte classes) of BOM-less texts that start with an ASCII character other than NUL and contain no NUL"""
    cells = []
    for k in (0, 1, 2, 3, 4, 7, 8):
        cells.append(('Utf8', "'A' + %d non-ASCII/ASCII bytes" % k, ['A'] + ['N'] * k))
    cells.append(('Utf8', "'AAAA'", ['A'] * 4))
    cells.append(('Utf8', "'AAAAAAAAA'", ['A'] * 9))
    second16 = {'none': [], 'ASCII': ['A', 'Z'], 'Latin-1': ['N', 'Z'], 'U+xx00': ['Z', 'N'], 'BMP': ['N', 'N'], 'BMP low ASCII': ['A', 'N'],
                'surrogate pair': ['N', 'N', 'N', 'N']}
    for nm, le in second16.items():
        cells.append(('Utf16le', "'A' then %s" % nm, ['A', 'Z'] + le))
        be = []
        for i in range(0, len(le), 2):
            be += [le[i + 1], le[i]]
        cells.append(('Utf16be', "'A' then %s" % nm, ['Z', 'A'] + be))
    second32 = {'none': [], 'ASCII': ['A', 'Z', 'Z', 'Z'], 'BMP': ['N', 'N', 'Z', 'Z'], 'U+xx00': ['Z', 'N', 'Z', 'Z'], 'plane 1..16': ['N', 'N', 'A', 'Z'],
                'plane 1..16, low zero': ['Z', 'Z', 'A', 'Z']}
    for nm, le in second32.items():
        cells.append(('Utf32le', "'A' then %s" % nm, ['A', 'Z', 'Z', 'Z'] + le))
        cells.append(('Utf32be', "'A' then %s" % nm, ['Z', 'Z', 'Z', 'A'] + list(reversed(le))))
    return cells


def run(prog, rep):
    rep.rule('R13.1', 'BOM constants of the traits classes equal U+FEFF encoded per the Unicode encoding forms / schemes', floor=5)
    rep.rule('R13.2', 'DetectEncoding: BOM tests are ordered longest-prefix first; each branch reports the like-named encoding and sizeof that BOM; '
                      'StartsWithBom<X> iterates X::bom', floor=10)
    rep.rule('R13.3', 'switch(UtfType) in convert_utf.h: all five enumerators handled, each case touches only the like-named traits class', floor=25)
    rep.rule('R13.4', 'stream writer: BOM written iff addBom and for the configured encoding; byte count = units * sizeof(unit); CSV writer '
                      'forwards StreamOptions.encoding / writeBom', floor=8)
    rep.rule('R13.5', 'detection decision table over byte classes: BOM-less texts starting with an ASCII character (each encoding, one unit and '
                      'longer, no NUL) and BOM-prefixed texts give the expected encoding and offset; every probe read lies inside the view', floor=44)
    bt = boms(prog)
    enum = prog.enums.get(ENUM)
    if enum is None:
        raise AnalysisBroken('anchor vanished: enum UtfType')

    # ---------------------------------------------------------------- R13.1
    for t in sorted(TRAITS) + ['Utf16', 'Utf32']:
        if t not in bt:
            raise AnalysisBroken('anchor vanished: %s::bom' % t)
        exp = expected_bom(t if t in TRAITS else t + 'Le')
        if bt[t] == exp:
            rep.ok('R13.1', t + '::bom', sample={'traits': t, 'bom': ['%02X' % b for b in bt[t]]})
        else:
            rep.finding('R13.1', t + '::bom', NS + t + '::bom', '%s::bom is %s, U+FEFF in that encoding is %s'
                        % (t, ' '.join('%02X' % b for b in bt[t]), ' '.join('%02X' % b for b in exp)))

    # ---------------------------------------------------------------- R13.2
    det = [f for f in prog.funcs.values() if f.q == NS + 'DetectEncoding' and 'basic_string_view' in f.id]
    if len(det) != 1:
        raise AnalysisBroken('anchor vanished: DetectEncoding(string_view, size_t&)')
    det = det[0]
    rep.touch(det)
    chain = []
    byval = dict((v, k) for k, v in enum['items'].items())
    for n in det.walk():
        if n['k'] != 'IfStmt':
            continue
        c = strip(child(n, 'cond'))
        cal = det.callee(c) if c is not None and c['k'] == 'CallExpr' else None
        if cal is None or strip_targs(cal['q']) != NS + 'StartsWithBom':
            continue
        m = re.search(r'StartsWithBom<' + re.escape(NS) + r'(\w+),', cal['id'])
        trait = m.group(1)
        then = child(n, 'then')
        off = enc = None
        for a in det.walk(then):
            if a['k'] == 'BinaryOperator' and a.get('op') == '=':
                lhs, rhs = strip(a['c'][0]), strip(a['c'][1])
                if lhs.get('d') == det.params[1]['d']:                      # the data-offset out parameter
                    off = rhs.get('cv')
                    offm = trait_mentions(det, [a['c'][1]])
                elif lhs['k'] == 'DeclRefExpr' and base_type(det.type(lhs)) == ENUM:   # the detected-encoding local
                    enc = byval.get(rhs.get('cv'))
            elif a['k'] == 'ReturnStmt' and a.get('c') and enc is None:
                rv = strip(a['c'][0])
                if rv is not None and base_type(det.type(rv)) == ENUM:                    # ... or the branch returns it directly
                    enc = byval.get(rv.get('cv'))
        chain.append((trait, off, enc, det.loc(n), offm if off is not None else set()))
    if len(chain) < 5:
        raise AnalysisBroken('R13.2: BOM test chain of DetectEncoding not recognised (%d tests)' % len(chain))
    for i, (trait, off, enc, loc, offm) in enumerate(chain):
        if enc != TRAITS.get(trait):
            rep.finding('R13.2', 'branch %s|encoding' % trait, loc, 'DetectEncoding: the branch that matched the %s BOM reports UtfType::%s' % (trait, enc), func=det.id)
        else:
            rep.ok('R13.2', 'branch %s|encoding' % trait)
        if off != len(bt[trait]) :
            rep.finding('R13.2', 'branch %s|offset' % trait, loc, 'DetectEncoding: the branch that matched the %s BOM (%d bytes) reports data offset %s'
                        % (trait, len(bt[trait]), off), func=det.id)
        else:
            rep.ok('R13.2', 'branch %s|offset' % trait, sample={'bom': trait, 'offset': off, 'encoding': enc})
        for j in range(i):
            other = chain[j][0]
            if bt[trait][:len(bt[other])] == bt[other] and len(bt[other]) < len(bt[trait]):
                rep.finding('R13.2', 'order|%s shadows %s' % (other, trait), loc,
                            'DetectEncoding tests the %s BOM before the %s BOM, which starts with it: %s text with BOM is detected as %s'
                            % (other, trait, trait, other), func=det.id)
    for a in sorted(TRAITS):
        for b in sorted(TRAITS):
            if a != b and bt[b][:len(bt[a])] == bt[a]:
                ia = [i for i, c in enumerate(chain) if c[0] == a]
                ib = [i for i, c in enumerate(chain) if c[0] == b]
                if ia and ib and ib[0] < ia[0]:
                    rep.ok('R13.2', 'order|%s before its prefix %s' % (b, a))
    check_starts_with_bom(prog, rep, bt)

    # ---------------------------------------------------------------- R13.3
    check_switches(prog, rep, 'R13.3')

    # ---------------------------------------------------------------- R13.4
    ctor = [f for f in prog.funcs.values() if f.q == NS + 'CEncodedStreamWriter::CEncodedStreamWriter' and f.body is not None]
    if len(ctor) != 1:
        raise AnalysisBroken('anchor vanished: CEncodedStreamWriter constructor')
    ctor = ctor[0]
    rep.touch(ctor)
    pnames = [p['n'] for p in ctor.params]
    wb = [n for n in ctor.walk() if n['k'] == 'CallExpr' and (ctor.callee(n) or {}).get('q') == NS + 'WriteBom']
    outs = [n for n in ctor.walk() if n['k'] == 'CXXMemberCallExpr' and (ctor.callee(n) or {}).get('n') in ('write', 'put', 'operator<<')]
    if len(wb) != 1 or outs:
        rep.finding('R13.4', 'ctor|bom calls', ctor.loc(), 'CEncodedStreamWriter constructor: expected exactly one WriteBom call and no direct stream output '
                    '(found %d / %d)' % (len(wb), len(outs)), func=ctor.id)
    else:
        n = wb[0]
        # WriteBom is executed exactly on the paths where addBom is true: read off the CFG (nested if, guard clause `if (!addBom) return;`, ...)
        from bsv.cfg import CFG
        from bsv.expr import resolve
        g = CFG(ctor)
        addbom = [p_['d'] for p_ in ctor.params if p_.get('n') == 'addBom']
        verdict = True
        n_paths = 0
        for path, dec, kind in g.paths():
            if kind != 'return':
                continue
            n_paths += 1
            called = any(x is n for x in g.path_nodes(path))
            val = None
            for cid, idx, tk in dec:
                c = ctor.node(cid) if isinstance(cid, int) else None
                e, neg = (resolve(ctor, c) if c is not None else None), False
                while e is not None and e['k'] == 'UnaryOperator' and e.get('op') == '!':
                    neg, e = not neg, resolve(ctor, e['c'][0])
                if e is not None and e['k'] == 'DeclRefExpr' and e.get('d') in addbom:
                    val = (idx == 0) != neg
            if val is None or val != called:
                verdict = False
        arg = strip(n['c'][2])
        if addbom and n_paths and verdict:
            rep.ok('R13.4', 'ctor|WriteBom under if (addBom)')
        else:
            rep.finding('R13.4', 'ctor|bom guard', ctor.loc(n), 'CEncodedStreamWriter: WriteBom is not executed exactly when addBom is true', func=ctor.id)
        if arg.get('n') == 'targetUtfType':
            rep.ok('R13.4', 'ctor|WriteBom(targetUtfType)')
        else:
            rep.finding('R13.4', 'ctor|bom encoding', ctor.loc(n), 'CEncodedStreamWriter: WriteBom is called with %s, not with targetUtfType' % arg.get('n'), func=ctor.id)
        # the encoder / buffer pair is selected by a switch over targetUtfType - in the constructor or in a helper that receives it
        sel_ok = False
        sw = [x for x in ctor.walk() if x['k'] == 'SwitchStmt']
        if sw and (strip(child(sw[0], 'cond')) or {}).get('n') == 'targetUtfType':
            sel_ok = True
        if not sw:
            for x in ctor.walk():
                if x['k'] not in ('CallExpr', 'CXXMemberCallExpr'):
                    continue
                h = prog.funcs.get((ctor.callee(x) or {}).get('id'))
                if h is None or h.body is None or 'CEncodedStreamWriter' not in (h.q or ''):
                    continue
                hs = [y for y in h.walk() if y['k'] == 'SwitchStmt']
                if not hs:
                    continue
                cv_ = strip(child(hs[0], 'cond')) or {}
                args_ = x.get('c', [])[1:]
                for i_, p_ in enumerate(h.params):
                    if p_['d'] == cv_.get('d') and i_ < len(args_) and (strip(args_[i_]) or {}).get('n') == 'targetUtfType':
                        sel_ok = True
        if sel_ok:
            rep.ok('R13.4', 'ctor|toolset selected by targetUtfType')
        else:
            rep.finding('R13.4', 'ctor|toolset selector', ctor.loc(), 'CEncodedStreamWriter: the encoder is not selected by targetUtfType', func=ctor.id)
    # Write lambdas
    n_l = 0
    for f in sorted(prog.funcs.values(), key=lambda g: g.id):
        if not (f.id.startswith('(lambda at') and 'convert_utf.h' in f.id and f.name == 'operator()' and 'std::pair<' + NS in f.id) or f.body is None:
            continue
        m = re.search(r'std::pair<' + re.escape(NS) + r'(\w+), std::basic_string<(\w+)>', f.id)
        if not m:
            continue
        unit = {'char': 1, 'char16_t': 2, 'char32_t': 4}[m.group(2)]
        writes = [n for n in f.walk() if n['k'] == 'CXXMemberCallExpr' and (f.callee(n) or {}).get('n') == 'write']
        encs = [n for n in f.walk() if n['k'] in ('CallExpr', 'CXXMemberCallExpr') and (f.callee(n) or {}).get('n') == 'Encode']
        from bsv.expr import resolve
        via = None
        if not writes:
            # the stream write extracted into a helper of the writer, e.g. WriteRaw(const TUnit* units, size_t count): one call of it here
            hc = [n for n in f.walk() if n['k'] == 'CXXMemberCallExpr' and 'CEncodedStreamWriter' in ((f.callee(n) or {}).get('q') or '')
                  and prog.funcs.get((f.callee(n) or {}).get('id')) is not None]
            hc = [n for n in hc if any(x['k'] == 'CXXMemberCallExpr' and (prog.funcs[f.callee(n)['id']].callee(x) or {}).get('n') == 'write'
                                       for x in prog.funcs[f.callee(n)['id']].walk())]
            if len(hc) == 1:
                via = (hc[0], prog.funcs[f.callee(hc[0])['id']])
                writes = [x for x in via[1].walk() if x['k'] == 'CXXMemberCallExpr' and (via[1].callee(x) or {}).get('n') == 'write']
        if len(writes) != 1:
            continue
        n_l += 1
        rep.touch(f)
        wf = via[1] if via else f
        cnt = resolve(wf, writes[0]['c'][2])
        site = 'Write lambda %s<-%s@%s' % (m.group(1), f.id.split('|')[0][-1:], f.loc())
        if encs:
            if via:
                # count parameter of the helper times sizeof(its unit type); the argument passed for it here is a size()
                h = via[1]
                prm = [i for i, p_ in enumerate(h.params) if any(x['k'] == 'DeclRefExpr' and x.get('d') == p_['d'] for x in h.walk(cnt))]
                args = via[0].get('c', [])[1:]
                ok_mul = cnt['k'] == 'BinaryOperator' and cnt.get('op') == '*' and any((strip(c) or {}).get('cv') == unit for c in cnt['c']) and len(prm) == 1 \
                    and prm[0] < len(args) and any((f.callee(x) or {}).get('n') == 'size' for x in f.walk(resolve(f, args[prm[0]]) or args[prm[0]]) if x['k'] == 'CXXMemberCallExpr')
            else:
                ok_mul = cnt['k'] == 'BinaryOperator' and cnt.get('op') == '*' and any(strip(c).get('cv') == unit for c in cnt['c']) and \
                    any((f.callee(x) or {}).get('n') == 'size' for x in f.walk(cnt) if x['k'] == 'CXXMemberCallExpr')
            enc_tr = trait_mentions(f, encs)
            if not ok_mul:
                rep.finding('R13.4', 'Write|%s|byte count' % m.group(1), f.loc(writes[0]), 'CEncodedStreamWriter::Write (%s): the byte count is not size() * %d'
                            % (m.group(1), unit), func=f.id)
            else:
                rep.ok('R13.4', site + '|bytes', sample={'encoder': m.group(1), 'unit_bytes': unit})
        else:
            # pass-through of 8-bit text to an 8-bit encoding
            if unit != 1 or m.group(1) != 'Utf8':
                rep.finding('R13.4', 'Write|%s|pass-through' % m.group(1), f.loc(writes[0]), 'CEncodedStreamWriter::Write: text is written without encoding to %s'
                            % m.group(1), func=f.id)
            else:
                rep.ok('R13.4', site + '|pass-through utf-8')
    if n_l < 5:
        raise AnalysisBroken('R13.4: Write lambdas not found (%d)' % n_l)
    csvw = [f for f in prog.funcs.values() if f.q == 'BitSerializer::Csv::Detail::CCsvStreamWriter::CCsvStreamWriter']
    if len(csvw) != 1:
        raise AnalysisBroken('anchor vanished: CCsvStreamWriter constructor')
    csvw = csvw[0]
    rep.touch(csvw)
    ini = [i for i in csvw.raw.get('inits', []) if i.get('field') == 'mEncodedStream']
    if not ini:
        raise AnalysisBroken('anchor vanished: CCsvStreamWriter::mEncodedStream initialiser')
    e = strip(ini[0]['e'])
    args = [strip(a) for a in e.get('c', [])]
    got = [(a.get('m') or a.get('n')) for a in args]
    if len(got) >= 3 and got[1] == 'encoding' and got[2] == 'writeBom':
        rep.ok('R13.4', 'CCsvStreamWriter|forwards encoding, writeBom', sample={'arguments': got})
    else:
        rep.finding('R13.4', 'CCsvStreamWriter|options', csvw.loc(), 'CCsvStreamWriter constructs its CEncodedStreamWriter with %s instead of '
                    '(stream, streamOptions.encoding, streamOptions.writeBom, policy)' % got, func=csvw.id)

    # ---------------------------------------------------------------- R13.5
    cells = detection_cells()
    if getattr(rep, 'tier', 'quick') == 'thorough':
        # longer texts (three and four characters) and every combination of the second/third character classes
        third16 = {'ASCII': ['A', 'Z'], 'Latin-1': ['N', 'Z'], 'U+xx00': ['Z', 'N'], 'BMP': ['N', 'N']}
        for n2, c2 in third16.items():
            for n3, c3 in third16.items():
                cells.append(('Utf16le', "'A' then %s then %s" % (n2, n3), ['A', 'Z'] + c2 + c3))
                cells.append(('Utf16be', "'A' then %s then %s" % (n2, n3), ['Z', 'A'] + [c2[1], c2[0]] + [c3[1], c3[0]]))
        for k in range(9, 14):
            cells.append(('Utf8', "'A' + %d non-ASCII bytes" % k, ['A'] + ['N'] * k))
            cells.append(('Utf8', "%d ASCII characters" % (k + 1), ['A'] * (k + 1)))
        for tail in (['A', 'Z', 'Z', 'Z'], ['N', 'N', 'Z', 'Z'], ['N', 'N', 'A', 'Z']):
            cells.append(('Utf32le', "'A' then two more characters", ['A', 'Z', 'Z', 'Z'] + tail + tail))
            cells.append(('Utf32be', "'A' then two more characters", ['Z', 'Z', 'Z', 'A'] + list(reversed(tail)) + list(reversed(tail))))
    for enc, desc, cl in cells:
        res = detect(prog, det, cl, bt)
        site = '%s|no BOM|%s|%s' % (enc, desc, ''.join(str(c) for c in cl))
        check_detect(rep, det, site, enc, 0, res, 'BOM-less %s text %s (byte classes %s)' % (enc, desc, ' '.join(str(c) for c in cl)), enum)
    for trait in sorted(TRAITS):
        for tail_desc, tail in (('nothing', []), ("'A'", {'Utf8': ['A'], 'Utf16Le': ['A', 'Z'], 'Utf16Be': ['Z', 'A'], 'Utf32Le': ['A', 'Z', 'Z', 'Z'],
                                                           'Utf32Be': ['Z', 'Z', 'Z', 'A']}[trait])):
            cl = list(bt[trait]) + tail
            res = detect(prog, det, cl, bt)
            site = '%s|BOM|%s' % (TRAITS[trait], tail_desc)
            check_detect(rep, det, site, TRAITS[trait], len(bt[trait]), res, '%s BOM followed by %s' % (trait, tail_desc), enum)
    res = detect(prog, det, [], bt)
    check_detect(rep, det, 'empty input', 'Utf8', 0, res, 'empty input', enum)

    # ---------------------------------------------------------------- R13.6 .. R13.8
    encoded_reader.check(prog, rep, ids={'R13.6': 'R13.6', 'R13.7': 'R13.7', 'R13.8': 'R13.8', 'R13.12': 'R13.12'})
    rep.rule('R13.13', 'JSON saved to an encoded stream: every rapidjson Writer / PrettyWriter over the AutoUTF output stream is instantiated with the '
                       'run-time target encoding (AutoUTF), compact and formatted output alike - otherwise UTF-8 bytes are emitted as UTF-16/32 units', floor=4)
    from rules import json_render
    json_render.check(prog, rep, 'R13.13', want=('writers',))

    # ---------------------------------------------------------------- R13.9
    check_stream_reposition(prog, rep)

    # ---------------------------------------------------------------- R13.10 (CSV stream entry point: chunked text, no look-ahead past it)
    from rules import c09
    c09.check_scanner_reads(prog, rep, 'R13.10')
    c09.check_lookahead_fresh(prog, rep, 'R13.11')      # a stream that ends exactly at a chunk boundary is still recognised as ended


def check_detect(rep, det, site, enc, offset, res, what, enum):
    want = enum['items'][enc]
    bad = []
    for r, off, probes, _ in res:
        for p in probes:
            if not p[3]:
                bad.append(('probe', 'reads %d bytes at offset %d of a %s-byte view' % (p[1], p[2], 'shorter'), p[4]))
        if r != want:
            names = dict((v, k) for k, v in enum['items'].items())
            sub = ' '.join(('%02X' % lo) if lo == hi else ('%02X-%02X' % (lo, hi)) for lo, hi in _)
            bad.append(('result', 'detected as %s (bytes %s)' % (names.get(r, r), sub), det.loc()))
        elif off != offset:
            bad.append(('offset', 'data offset %s instead of %d' % (off, offset), det.loc()))
    if not res:
        bad.append(('result', 'no path', det.loc()))
    if bad:
        for kind, msg, loc in sorted(set(bad)):
            rep.finding('R13.5', '%s|%s|%s' % (site.split('|')[0], site.split('|', 1)[1] if '|' in site else '', kind), loc,
                        'DetectEncoding: %s: %s (expected %s, offset %d)' % (what, msg, enc, offset), func=det.id)
    else:
        rep.ok('R13.5', site, sample={'input': what, 'detected': enc, 'offset': offset, 'probes': sum(len(r[2]) for r in res)})


def check_starts_with_bom(prog, rep, bt):
    """StartsWithBom<Traits>(text), every instantiation, executed over texts built from the BOM of the traits class: the BOM itself, the BOM
    followed by a character, every proper prefix, and the BOM with one byte changed - true exactly when the text begins with the whole BOM."""
    from bsv.dtab import TOP, Interp, Model, _LoopExit
    from bsv.facts import child

    class It(object):
        __slots__ = ('i',)

        def __init__(self, i):
            self.i = i

    class M(Model):
        unroll_loops = True

        def __init__(self, data, arrays):
            self.data, self.arrays = data, arrays

        def initial_store(self, it, key):
            return TOP

        def global_value(self, it, q):
            return self.arrays.get(q, TOP)

        def compare(self, it, fr, n, op, a, b):
            if isinstance(a, It) and isinstance(b, It):
                return 1 if {'==': a.i == b.i, '!=': a.i != b.i, '<': a.i < b.i, '<=': a.i <= b.i, '>': a.i > b.i, '>=': a.i >= b.i}[op] else 0
            raise AnalysisBroken('R13.2: comparison outside the model in StartsWithBom at %s' % fr.f.loc(n))

        def deref(self, it, fr, n, v):
            if isinstance(v, It):
                if not 0 <= v.i < len(self.data):
                    it.act('OOB', v.i)
                    return 0
                return self.data[v.i]
            return TOP

        def arith(self, it, fr, n, op, a, b):
            if isinstance(a, It) and isinstance(b, int) and op in ('+', '-'):
                return It(a.i + b if op == '+' else a.i - b)
            if isinstance(a, It) and isinstance(b, It) and op == '-':
                return a.i - b.i
            return TOP

        def construct(self, it, fr, n, depth):
            vals = [it.ev(fr, a, depth) for a in n.get('c', ())]
            return vals[0] if len(vals) == 1 else TOP

        def primitive(self, it, fr, n, callee, depth):
            name = callee['n']
            obj, args = it.call_args(fr, n)
            ops = ([obj] if obj is not None else []) + list(args)
            vals = [it.ev(fr, a, depth) for a in ops]
            q = strip_targs(callee['q'])
            if q in ('std::cbegin', 'std::begin') or name in ('begin', 'cbegin', 'data'):
                if vals and isinstance(vals[0], list):
                    return vals[0]
                return It(0)
            if q in ('std::cend', 'std::end') or name in ('end', 'cend'):
                return It(len(self.data))
            if q in ('std::size',) and vals and isinstance(vals[0], list):
                return len(vals[0])
            if name in ('size', 'length'):
                return len(self.data)
            if name == 'empty':
                return 0 if self.data else 1
            if name in ('operator[]', 'at') and len(vals) == 2 and isinstance(vals[1], int):
                if not 0 <= vals[1] < len(self.data):
                    it.act('OOB', vals[1])
                    return 0
                return self.data[vals[1]]
            if name == 'operator*' and vals:
                return self.deref(it, fr, n, vals[0])
            if name in ('operator==', 'operator!=') and len(vals) == 2:
                return self.compare(it, fr, n, name[8:], vals[0], vals[1])
            if name == 'operator++' and ops:
                key = it.lvalue(fr, ops[0], depth)
                if isinstance(vals[0], It) and key is not None:
                    it.write_key(fr, key, It(vals[0].i + 1))
                    return vals[0] if len(ops) > 1 else It(vals[0].i + 1)
            if name in ('substr', 'compare', 'starts_with', 'memcmp', 'equal'):
                raise AnalysisBroken('R13.2: %s() in StartsWithBom is not in the model' % name)
            return TOP

    class BI(Interp):
        def cast_other(self, v, t):
            return v

        def coerce(self, v, t):
            if isinstance(v, (It, list)):
                return v
            return Interp.coerce(self, v, t)

        def add(self, v, delta, t):
            if isinstance(v, It):
                return It(v.i + delta)
            return Interp.add(self, v, delta, t)

        def exec_loop(self, fr, n, depth):
            if n['k'] == 'CXXForRangeStmt':
                rng = child(n, 'range')
                q = [x.get('q') for x in fr.f.walk(rng) if x['k'] == 'DeclRefExpr' and x.get('g')]
                arr = self.model.arrays.get(q[0]) if q else None
                lv = child(n, 'loopvar')
                if arr is not None and lv is not None and lv.get('decls'):
                    for v in arr:
                        fr.env[lv['decls'][0]['d']] = v
                        try:
                            self.exec(fr, child(n, 'body'), depth)
                        except _LoopExit as e:
                            if e.kind == 'BreakStmt':
                                break
                    return
            return Interp.exec_loop(self, fr, n, depth)

    arrays = {}
    for key, gl in prog.globals.items():
        g = gl[0]
        if g['q'].startswith(NS) and g['q'].endswith('::bom') and isinstance(g.get('val'), list):
            arrays[g['q']] = list(g['val'])
    k = 0
    for f in sorted(prog.funcs.values(), key=lambda g: g.id):
        if strip_targs(f.q) != NS + 'StartsWithBom' or f.body is None:
            continue
        m = re.search(r'StartsWithBom<' + re.escape(NS) + r'(\w+),', f.id)
        if not m or NS + m.group(1) + '::bom' not in arrays:
            raise AnalysisBroken('R13.2: traits class of %s not recognised' % f.id[:100])
        bom = arrays[NS + m.group(1) + '::bom']
        rep.touch(f)
        k += 1
        cells = [(list(bom), True), (bom + [65], True), ([], False)]
        cells += [(bom[:i], False) for i in range(1, len(bom))]
        cells += [(bom[:i] + [(bom[i] + 1 + 128) % 256 - 128] + bom[i + 1:], False) for i in range(len(bom))]
        bad = None
        for data, want in cells:
            model = M(data, arrays)
            it = BI(prog, model, max_depth=1, max_paths=20)

            def init(it_, fr):
                for p in f.params:
                    fr.env[p['d']] = TOP
            for p in it.run(f, init):
                got = p.outcome[1] if p.outcome[0] == 'RET' else 'throws'
                oob = any(a[0] == 'OOB' for a in p.actions)
                if oob:
                    bad = bad or 'reads behind the end of the text %s' % ([x & 0xff for x in data],)
                elif got not in (0, 1, True, False) or bool(got) != want:
                    bad = bad or 'text %s: returns %s, expected %s' % (['%02X' % (x & 0xff) for x in data], got, want)
        site = 'StartsWithBom<%s>' % f.id.split('StartsWithBom<')[1].split('|')[0][:80]
        if bad:
            rep.finding('R13.2', 'StartsWithBom<%s>|table' % m.group(1), f.loc(), 'StartsWithBom<%s> (BOM %s): %s' % (m.group(1), ['%02X' % (x & 0xff) for x in bom], bad), func=f.id)
        else:
            rep.ok('R13.2', site, sample={'traits': m.group(1), 'cells': len(cells)} if k <= 5 else None)
    if k == 0:
        raise AnalysisBroken('R13.2: no instantiation of StartsWithBom')


def check_stream_reposition(prog, rep):
    """DetectEncoding(std::istream&, ...) probes the first bytes and puts the stream back: the text need not start at offset 0 of the stream
    (an application header may precede it), so every seekg must be relative to the position the stream had on entry - its argument derives
    from the tellg() taken before the probe, or it is a relative seek (ios_base::cur)."""
    from bsv.expr import named_inits
    rep.rule('R13.9', 'DetectEncoding(istream&): every repositioning of the stream after the probe read is relative to the entry position '
                      '(derives from the tellg() result taken before the read, or seeks with ios_base::cur)', floor=2)
    fs = [f for f in prog.funcs.values() if f.q == NS + 'DetectEncoding' and f.body is not None and f.params and 'basic_istream' in f.type(f.params[0])]
    if not fs:
        raise AnalysisBroken('anchor vanished: DetectEncoding(std::istream&, bool)')
    f = sorted(fs, key=lambda g: g.id)[0]
    rep.touch(f)
    inits = named_inits(f)
    entry = set()
    first_read = min([n['l'] for n in f.walk() if n['k'] == 'CXXMemberCallExpr' and (f.callee(n) or {}).get('n') in ('read', 'get', 'readsome')] or [10 ** 9])
    for d, ini in inits.items():
        if any(x['k'] == 'CXXMemberCallExpr' and (f.callee(x) or {}).get('n') == 'tellg' and x['l'] <= first_read for x in f.walk(ini)):
            entry.add(d)
    changed = True
    while changed:
        changed = False
        for d, ini in inits.items():
            if d not in entry and any(x['k'] == 'DeclRefExpr' and x.get('d') in entry for x in f.walk(ini)):
                entry.add(d)
                changed = True
    if not entry:
        rep.finding('R13.9', 'entry position', f.loc(), 'DetectEncoding(istream&) does not record the stream position (tellg) before the probe read: '
                    'it cannot put a stream that does not start at offset 0 back', func=f.id)
        return
    seeks = [n for n in f.walk() if n['k'] == 'CXXMemberCallExpr' and (f.callee(n) or {}).get('n') == 'seekg']
    if not seeks:
        raise AnalysisBroken('R13.9: DetectEncoding(istream&) has no seekg')
    for i, sk in enumerate(seeks):
        args = [a for a in sk['c'][1:] if a['k'] != 'CXXDefaultArgExpr']
        rel = any(x['k'] == 'DeclRefExpr' and x.get('d') in entry for a in args[:1] for x in f.walk(a))
        cur = len(args) == 2 and any(x.get('n') == 'cur' or x.get('m') == 'cur' for x in f.walk(args[1]))
        site = 'seekg #%d' % (i + 1)
        if rel or cur:
            rep.ok('R13.9', site + '|' + f.loc(sk), sample={'seekg_at': f.loc(sk), 'relative_to': 'entry tellg()' if rel else 'current position'})
        else:
            rep.finding('R13.9', site, f.loc(sk), 'DetectEncoding(istream&) repositions the stream with a seekg that does not depend on the position the '
                        'stream had on entry: text that starts behind a preamble is re-read from the wrong place (absolute offset instead of entry '
                        'position + offset)', func=f.id)
