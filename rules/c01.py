"""C01 - save then load reproduces the value (structural clauses)."""
import re

from bsv.dtab import AnalysisBroken, base_type, INT_TYPES
from bsv.facts import child, strip, strip_targs
from rules import msgpack_tables as RT
from rules import msgpack_writer_tables as WT

PROP = 'C01'
LEVEL = 'other'
EXPLANATION = ('Round-trip equality quantifies over all values and is not decided. Decided are necessary structural clauses: '
               'R1.1 on every save path of every archive scope the saved value reaches the back end without a value-changing conversion '
               '(no narrowing, no sign change outside raw bytes, no int<->float that loses digits). '
               'R1.2 the eight LoadObject/SaveObject entry points run the same protocol: context(options), archive(data, context), '
               'SplitAndSerialize, Finalize, OnFinishSerialization, unconditionally and in that order. '
               'R1.3 XML: every node shape the save side can emit for a value kind (text, element children, no children) is accepted by the '
               'load side for that kind - an element without children is what the empty string / empty container is saved as. '
               'R1.4 MsgPack: for every write overload and every value cell the first byte the writer emits (decision tables of C06) has an '
               'accepting path in the reader method of the same type (decision tables of C07) in both reader implementations. '
               'R1.5 JSON: the result of every rapidjson Accept() (the rendering step) is consumed, and ParseStream over an AutoUTFInputStream '
               'names AutoUTF as source encoding. R1.6 CSV stream reader: IsEnd() polled between rows is fresh (see C09 R9.6).')
ASSUMPTIONS = ['pugixml: xml_text::set("") / an element with no appended child parses back as an element without children (pugixml 1.13 manual, parse_default)',
               'rapidjson: Accept() returns false when a handler call fails (Writer::Double for NaN/Inf, transcoding of invalid UTF)']
TRUSTED = ['clang 14 AST', 'bsfacts', 'tables of C06/C07 (checked against spec/msgpack_spec.py there)']

ARCHIVE_NS = ('BitSerializer::Json::', 'BitSerializer::Xml::', 'BitSerializer::Csv::', 'BitSerializer::MsgPack::')
VALUE_CASTS = ('IntegralCast', 'FloatingCast', 'IntegralToFloating', 'FloatingToIntegral', 'IntegralToBoolean', 'FloatingToBoolean')
BYTE_TYPES = ('char', 'signed char', 'unsigned char')
FLOAT_MANT = {'float': 24, 'double': 53, 'long double': 64}


def int_range(t):
    info = INT_TYPES.get(t)
    if not info:
        return None
    bits, signed = info
    if bits == 1:
        return (0, 1)
    return (-(1 << (bits - 1)), (1 << (bits - 1)) - 1) if signed else (0, (1 << bits) - 1)


def lossless(ck, src, dst):
    """None when every value of src is represented exactly in dst, else the reason"""
    if ck == 'IntegralCast':
        a, b = int_range(src), int_range(dst)
        if a is None or b is None:
            return None
        if b[0] <= a[0] and a[1] <= b[1]:
            return None
        if src in BYTE_TYPES and dst in BYTE_TYPES:
            return None       # raw byte re-interpretation inside binary scopes (bijective, reversed by the reader)
        if a[1] - a[0] == b[1] - b[0]:
            return 'changes the sign of large values (%s -> %s)' % (src, dst)
        return 'narrows %s to %s' % (src, dst)
    if ck == 'FloatingCast':
        if FLOAT_MANT.get(dst, 0) >= FLOAT_MANT.get(src, 0):
            return None
        return 'narrows %s to %s' % (src, dst)
    if ck == 'IntegralToFloating':
        a = int_range(src)
        if a is None:
            return None
        need = max(abs(a[0]), abs(a[1])).bit_length()
        if need <= FLOAT_MANT.get(dst, 0):
            return None
        return 'converts %s to %s, which cannot hold every %d-bit integer' % (src, dst, need)
    if ck == 'FloatingToIntegral':
        return 'converts %s to the integer %s' % (src, dst)
    if ck in ('IntegralToBoolean', 'FloatingToBoolean'):
        return None if src == 'bool' else 'collapses %s to bool' % src
    return None


def check_save_conversions(prog, rep, rule='R1.1', namespaces=ARCHIVE_NS):
    # ---------------------------------------------------------------- R1.1
    for f in sorted(prog.funcs.values(), key=lambda g: g.id):
        if f.name not in ('SerializeValue', 'SaveValue', 'SaveJsonValue') or not f.sym.get('repo') or f.body is None:
            continue
        if not f.q.startswith(namespaces):
            continue
        if not f.params or 't' not in f.params[-1]:
            continue
        d = f.params[-1]['d']          # the serialized value is the last parameter of every SerializeValue / SaveValue overload
        rep.touch(f)
        n_casts = 0
        for n in f.walk():
            if n.get('ck') not in VALUE_CASTS or not n.get('c'):
                continue
            inner = n['c'][0]
            while inner is not None and inner['k'] in ('ImplicitCastExpr', 'ParenExpr') and inner.get('ck') in ('LValueToRValue', 'NoOp', None):
                inner = inner['c'][0] if inner.get('c') else None
            if inner is None or inner['k'] != 'DeclRefExpr' or inner.get('d') != d:
                continue
            src, dst = base_type(f.type(inner)), base_type(f.type(n))
            n_casts += 1
            why = lossless(n['ck'], src, dst)
            scope = strip_targs(f.q).replace('BitSerializer::', '')
            if why:
                rep.finding(rule, '%s|%s->%s' % (scope, src, dst), f.loc(n),
                            '%s (save path): the value %s before it is handed to the back end - the document holds a different number'
                            % (scope, why), func=f.id)
            else:
                rep.ok(rule, '%s|%s->%s|%s' % (scope, src, dst, f.loc(n)),
                       sample={'scope': scope, 'conversion': '%s -> %s' % (src, dst), 'kind': n['ck']} if dst == 'double' else None)
        if not n_casts:
            rep.ok(rule, '%s|no conversion|%s' % (strip_targs(f.q).replace('BitSerializer::', ''), f.id.split('|')[-1][:60]), nontrivial=False)



def run(prog, rep):
    from rules import json_ownership
    json_ownership.check(prog, rep, 'R1.11')
    from rules import narrow_counters
    narrow_counters.check(prog, rep, 'R1.10')
    from rules import csv_options
    csv_options.check(prog, rep, 'R1.9')
    rep.rule('R1.1', 'save paths: the parameter "value" of every archive-scope SerializeValue / SaveValue reaches the back end through '
                     'value-preserving conversions only', floor=20)
    rep.rule('R1.2', 'LoadObject / SaveObject: context(options) -> archive(data, context) -> SplitAndSerialize -> Finalize -> OnFinishSerialization, '
                     'unconditional and in this order', floor=8)
    rep.rule('R1.3', 'XML adapter: the load side accepts an element without children as the empty value of the requested kind '
                     '(string, array, object) - the shape the save side emits for it', floor=5)
    rep.rule('R1.4', 'MsgPack: every first byte a write overload can emit has an accepting path in the read method of the same type, both readers', floor=150)
    rep.rule('R1.5', 'JSON adapter: Accept() results are consumed; ParseStream over AutoUTFInputStream names AutoUTF as source encoding; writers use the target encoding of their stream', floor=9)

    check_save_conversions(prog, rep)

    # ---------------------------------------------------------------- R1.2
    seen = 0
    for f in sorted(prog.funcs.values(), key=lambda g: g.id):
        # the session body: LoadObject / SaveObject themselves, or a helper of bit_serializer.h they forward to
        if f.body is None or not (f.q in ('BitSerializer::LoadObject', 'BitSerializer::SaveObject') or (f.relfile.endswith('bitserializer/bit_serializer.h') and f.q.startswith('BitSerializer::'))):
            continue
        calls = []
        for n in f.walk():
            if n['k'] in ('CallExpr', 'CXXMemberCallExpr'):
                c = f.callee(n)
                if c is not None and c.get('n') in ('SplitAndSerialize', 'Finalize', 'OnFinishSerialization'):
                    cond = False
                    p = f.parent(n)
                    while p is not None:
                        if p['k'] in ('ForStmt', 'WhileStmt', 'DoStmt', 'SwitchStmt', 'ConditionalOperator', 'CXXTryStmt', 'CXXForRangeStmt'):
                            cond = True
                        elif p['k'] == 'IfStmt':
                            c0 = child(p, 'cond')
                            if c0 is None or c0.get('cv') is None:
                                cond = True       # a run-time condition (if constexpr conditions are constant-evaluated)
                        p = f.parent(p)
                    calls.append((c['n'], n['i'], cond, n))
        names = [c[0] for c in calls]
        if 'SplitAndSerialize' not in names:
            continue        # forwarding overloads (preferred output, files) call one of the four primaries
        seen += 1
        rep.touch(f)
        site = f.id.split('|')[0].replace('BitSerializer::', '')[:70] + '|' + f.id.split('|')[-1][-60:]
        ok = names == ['SplitAndSerialize', 'Finalize', 'OnFinishSerialization'] and not any(c[2] for c in calls)
        ctx_ok = arch_ok = False
        first_call = min(c[1] for c in calls)
        for cn in f.walk():
            if cn['k'] != 'CXXConstructExpr' or cn['i'] > first_call:
                continue
            refs = [a for x in cn.get('c', []) if x for a in f.walk(x) if a['k'] == 'DeclRefExpr' and a.get('dk') in ('Var', 'ParmVar', None)]
            rtypes = [f.type(a) for a in refs]
            pds = set(p['d'] for p in f.params)
            if f.type(cn).endswith('SerializationContext'):
                ctx_ok = ctx_ok or any('SerializationOptions' in t for t in rtypes)
            elif any(t.endswith('SerializationContext') for t in rtypes) and any(a.get('d') in pds and 'SerializationOptions' not in f.type(a) for a in refs):
                arch_ok = True          # archive(<data parameter>, <context local>)
        if ok and ctx_ok and arch_ok:
            rep.ok('R1.2', site, sample={'entry': f.q, 'calls': names})
        else:
            rep.finding('R1.2', '%s|protocol' % f.q, f.loc(), '%s: entry point does not run context(options) -> archive(data, context) -> SplitAndSerialize -> '
                        'Finalize -> OnFinishSerialization unconditionally (calls %s, context from options %s, archive from data+context %s)'
                        % (f.q, names, ctx_ok, bool(arch_ok)), func=f.id)
    if seen < 4:
        raise AnalysisBroken('R1.2: fewer than 4 primary LoadObject/SaveObject instantiations in the witness units')

    # ---------------------------------------------------------------- R1.3
    xml_ns = 'BitSerializer::Xml::PugiXml::Detail::'
    n13 = 0
    for f in sorted(prog.funcs.values(), key=lambda g: g.id):
        if not f.q.startswith(xml_ns) or f.body is None:
            continue
        # (a) container scopes: Load branch guarded by first_child().type() == node_element with a mismatch else-branch
        if f.name in ('OpenArrayScope', 'OpenObjectScope') and 'SerializeMode)0' in f.id.replace(' ', '') or \
                (f.name in ('OpenArrayScope', 'OpenObjectScope') and 'SerializeMode::Load' in f.id):
            guards = []
            for n in f.walk():
                if n['k'] == 'BinaryOperator' and n.get('op') == '==':
                    callees = [(f.callee(x) or {}).get('n') for x in f.walk(n) if x['k'] == 'CXXMemberCallExpr']
                    consts = [x.get('n') for x in f.walk(n) if x['k'] == 'DeclRefExpr']
                    if 'first_child' in callees and 'type' in callees and 'node_element' in consts:
                        guards.append(n)
            kind = 'array' if f.name == 'OpenArrayScope' else 'object'
            scope = strip_targs(f.cls).replace(xml_ns, '')
            mism = [n for n in f.walk() if n['k'] == 'CallExpr' and (f.callee(n) or {}).get('n') == 'HandleMismatchedTypesPolicy']
            n13 += 1
            rep.touch(f)
            if guards and mism:
                rep.finding('R1.3', '%s::%s|childless element refused' % (scope, f.name), f.loc(guards[0]),
                            '%s::%s (load): the %s scope is opened only when the first child is an element, otherwise the mismatch policy runs; '
                            'the save side emits an element without children for an empty %s, so an empty container cannot be loaded back'
                            % (scope, f.name, kind, 'container' if kind == 'array' else 'map / class without fields'), func=f.id)
            else:
                rep.ok('R1.3', '%s::%s|%s' % (scope, f.name, f.id.split('|')[-1][-50:]))
        # (b) strings: as_string(nullptr) == null -> not loaded
        if f.name == 'LoadValue' and any('basic_string_view' in f.type(p) for p in f.params if 't' in p):
            n13 += 1
            rep.touch(f)
            nulls = []
            for n in f.walk():
                if n['k'] == 'CXXMemberCallExpr' and (f.callee(n) or {}).get('n') == 'as_string':
                    args = n['c'][1:]
                    if args and strip(args[0])['k'] in ('CXXNullPtrLiteralExpr', 'GNUNullExpr', 'ImplicitValueInitExpr') or \
                            (args and strip(args[0]).get('cv') == 0):
                        nulls.append(n)
            rets_false = [n for n in f.walk() if n['k'] == 'ReturnStmt' and n.get('c') and strip(n['c'][0]).get('cv') == 0]
            if nulls and rets_false:
                rep.finding('R1.3', 'LoadValue(string)|childless element not loaded', f.loc(nulls[0]),
                            'PugiXmlExtensions::LoadValue(string): an element without a text child is reported as not loaded (as_string(nullptr) == null); '
                            'the save side emits exactly that for the empty string (and pugixml drops whitespace-only text), so "" and " " '
                            'load as "absent" and the target keeps its previous content', func=f.id)
            else:
                rep.ok('R1.3', 'LoadValue(string)')
    if n13 < 3:
        raise AnalysisBroken('R1.3: XML load anchors not found (%d)' % n13)

    # ---------------------------------------------------------------- R1.4
    wt = WT.writer_tables(prog)
    rt = RT.tables(prog)
    pair = {'BeginArray': 'ReadArraySize', 'BeginMap': 'ReadMapSize', 'BeginBinary': 'ReadBinarySize', 'WriteBinary': 'ReadBinary', 'WriteValue': 'ReadValue'}
    for wkind in sorted(wt):
        for (name, pt), (wf, fam, per) in sorted(wt[wkind].items(), key=lambda kv: str(kv[0])):
            rname = pair[name]
            if rname == 'ReadBinary':
                rpt = None
            elif name == 'WriteValue':
                rpt = re.sub(r'^const ', '', pt).replace(' &', '') + ' &'
            else:
                rpt = 'unsigned long &'
            if fam == 'binbyte':
                continue       # raw payload byte inside a bin scope: no family byte to dispatch on
            for rkind in sorted(rt):
                if (rname, rpt) not in rt[rkind]:
                    raise AnalysisBroken('R1.4: no reader method %s(%s) in the %s reader tables' % (rname, rpt, rkind))
                rf, rfam, rper = rt[rkind][(rname, rpt)]
                rep.touch(wf)
                rep.touch(rf)
                for cell, seqs in sorted(per.items(), key=lambda kv: str(kv[0])):
                    firsts = set()
                    for seq in seqs:
                        for a in seq:
                            if a[0] == 'EMIT1':
                                if a[1] == 'const':
                                    firsts.add(a[2] & 0xff)
                                elif a[1] == 'iv':
                                    if a[3] - a[2] > 255:
                                        raise AnalysisBroken('R1.4: first byte of %s(%s) ranges over more than a byte' % (name, pt))
                                    for v in range(a[2], a[3] + 1):
                                        firsts.add(v & 0xff)
                                else:
                                    firsts.add(None)
                            elif a[0] == 'THROW':
                                firsts.add('throws')      # the save fails with an exception: allowed by the property
                            else:
                                firsts.add(None)
                            break
                    if firsts == {'throws'}:
                        rep.ok('R1.4', '%s writer %s(%s) cell %s refuses to save' % (wkind, name, pt, cell), nontrivial=False)
                        continue
                    firsts.discard('throws')
                    if None in firsts or not firsts:
                        raise AnalysisBroken('R1.4: cannot determine the first byte emitted by %s %s(%s) on cell %s' % (wkind, name, pt, cell))
                    refused = []
                    for b in sorted(firsts):
                        paths = [p for p in rper[b] if RT.sufficient(p)]
                        acc = [p for p in paths if p.outcome[0] == 'RET' and p.outcome[1] not in (0, False)
                               and not any(l.startswith('POLICY') for l, d in p.guards)]
                        if not acc:
                            refused.append(b)
                    site = '%s writer %s(%s) cell %s -> %s reader %s' % (wkind, name, pt, cell, rkind, rname)
                    if refused:
                        rep.finding('R1.4', '%s(%s)|%s reader|first bytes %s' % (name, pt, rkind, RT.fmt_bytes(refused)), rf.loc(),
                                    '%s writer %s(%s) emits first byte(s) %s for values in cell %s, which %s reader %s(%s) does not accept without a policy'
                                    % (wkind, name, pt, RT.fmt_bytes(refused), cell, rkind, rname, rpt), func=rf.id)
                    else:
                        rep.ok('R1.4', site, sample={'writer': '%s %s(%s)' % (wkind, name, pt), 'cell': str(cell), 'first_bytes': RT.fmt_bytes(sorted(firsts)),
                                                     'reader': '%s %s' % (rkind, rname)} if fam == 'uint' and cell[0] == 128 else None)

    # ---------------------------------------------------------------- R1.5
    from rules import json_render
    json_render.check(prog, rep, 'R1.5', want=('accept', 'parsestream', 'writers'))

    # ---------------------------------------------------------------- R1.6 (CSV stream: rows are neither lost nor invented at chunk boundaries)
    from rules import c09
    c09.check_lookahead_fresh(prog, rep, 'R1.6')

    # ---------------------------------------------------------------- R1.7 strings keep their length on the way through the library
    from rules import lengths
    lengths.check(prog, rep, 'R1.7')
    rep.rule('R1.12', 'MsgPack binary form of a chrono value, both writers: over the (seconds, nanoseconds) cells the layout chosen (timestamp 32 / 64 / 96) '
                      'holds the whole value - a layout whose seconds field is narrower than the value cannot load back equal', floor=20)
    from rules import c06 as _c06
    _c06.check_timestamp_writers(prog, rep, 'R1.12')
    rep.rule('R1.8', 'a value the stream reader delivers in several chunks is assembled in order: one generic iteration of every ReadByChunks loop - the '
                     'chunk is appended whole (or copied to a running offset that advances by its size), the byte counter drops by its size, nothing else '
                     'rewrites the buffer', floor=1)
    from rules import chunkasm
    chunkasm.check(prog, rep, 'R1.8')
