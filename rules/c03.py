"""C03 - named fields load correctly in any request order (structural clauses)."""
from bsv.cfg import CFG
from bsv.expr import resolve
from bsv.effects import live_walk
from bsv.facts import AnalysisBroken, child, strip, strip_targs
from rules.c20 import pattern_in_lib

PROP = 'C03'
LEVEL = 'other'
EXPLANATION = ('R3.1: results that are the only failure report of a positioning / refill / transcoding call are consumed at every site where '
               'they decide correctness (enumerated, reasoned exceptions only). R3.2: every seekg on the cached input stream is preceded by '
               'clearing the end-of-file state. R3.3: in every single-value wrapper overload of Serialize (byte, string, enum, EnumAsBin, atomic, '
               'chrono, CTimeRef, filesystem::path) a store into the user\'s target happens only on a path on which the inner load reported true, '
               'and that bool is returned - so an absent key reports not-loaded and leaves the target unchanged. R3.4: validators receive the '
               'real result of the load. R3.5: MsgPack object scope cursor: on every normal path of every method the number of values consumed '
               'from the reader equals the number of index increments plus child scopes handed over (wrap-around resets the index only together '
               'with a seek to the first member). R3.6 = stream window accounting (see C10 R10.5). Not decided: that each request returns the '
               'value stored under the key.')
ASSUMPTIONS = ['ReadKey consumes exactly one key (checked by the reader tables of C07)', 'paths enumerated on clang CFGs with loops taken zero/one time']
TRUSTED = ['clang 14 AST/CFG', 'bsfacts', 'tables in this rule file']

OBJ = 'BitSerializer::MsgPack::Detail::CMsgPackReadObjectScope'
VALUE_CONSUMERS = {'ReadValue', 'ReadArraySize', 'ReadMapSize', 'ReadBinarySize', 'SkipValue'}

# failure-reporting callees: (qualified name suffix, why) ; sites where the result may be discarded: function pq -> reason
RESULT_CALLEES = {
    'BitSerializer::Detail::CBinaryStreamReader::SetPosition': 'bool: false = the stream could not be repositioned',
    'BitSerializer::Convert::Utf::CEncodedStreamReader::ReadChunk': 'EncodedStreamReadResult: EndFile / DecodeError',
    'BitSerializer::Convert::Utf::CEncodedStreamWriter::Write': 'UtfEncodingErrorCode',
    'BitSerializer::Convert::Utf::Transcode': 'UtfEncodingResult',
}
DISCARD_OK = {
    ('BitSerializer::Detail::CBinaryStreamReader::SetPosition', 'ReadExtFamilyType'):
        'restores the position saved a few bytes earlier inside the cached chunk; a failure surfaces at the next read (replayed on a non-seekable stream: ParsingException)',
    ('BitSerializer::Detail::CBinaryStreamReader::SetPosition', 'BitSerializer::MsgPack::Detail::CMsgPackStreamReader::ReadValue'):
        'forward move by the ext header size; a failure surfaces at the following GetValue as ParsingException',
    ('BitSerializer::Detail::CBinaryStreamReader::SetPosition', 'BitSerializer::MsgPack::Detail::CMsgPackStreamReader::SetPosition'):
        'interface is void; a failed wrap-around seek surfaces at the next key read (replayed: ParsingException on a non-seekable stream)',
    ('BitSerializer::Convert::Utf::CEncodedStreamReader::ReadChunk', 'BitSerializer::Csv::Detail::CCsvStreamReader::ParseNextLine'):
        'trailing look-ahead only primes IsEnd(); the same condition is re-examined by the next ParseNextLine call',
}


def is_restore(prog, f, arg, depth=0):
    """is the position argument a value obtained from GetPosition() earlier (directly, through a named temporary, or through a parameter that
    every caller fills that way)?"""
    from bsv.expr import resolve
    if arg is None or depth > 2:
        return False
    e = resolve(f, arg)
    if e is None:
        return False
    if e['k'] == 'CXXMemberCallExpr' and (f.callee(e) or {}).get('n') == 'GetPosition':
        return True
    if e['k'] == 'DeclRefExpr' and e.get('dk') == 'ParmVar':
        idx = [i for i, p_ in enumerate(f.params) if p_['d'] == e.get('d')]
        if not idx:
            return False
        sites = []
        for g in prog.funcs.values():
            for x in g.walk():
                if x['k'] in ('CallExpr', 'CXXMemberCallExpr') and (g.callee(x) or {}).get('id') == f.id:
                    args = x['c'][1:]
                    sites.append((g, args[idx[0]] if idx[0] < len(args) else None))
        return bool(sites) and all(is_restore(prog, g, a, depth + 1) for g, a in sites)
    return False


def is_load_call(prog, f, e, depth=0):
    """is e a call of Serialize(...) - or of a helper of the proxy all of whose returns are such calls (the result of the load)?"""
    if e is None or e['k'] != 'CallExpr':
        return False
    c = f.callee(e) or {}
    if c.get('n') == 'Serialize':
        return True
    g = prog.funcs.get(c.get('id'))
    if g is None or depth > 1 or not c.get('repo') or 'KeyValueProxy' not in c.get('q', ''):
        return False
    rets = [x for x in g.walk() if x['k'] == 'ReturnStmt']
    vals = [strip(child(x, 'value')) for x in rets]
    def ok(v):
        if v is None:
            return False
        if is_load_call(prog, g, v, depth + 1):
            return True
        if v['k'] == 'DeclRefExpr':      # a local that is only ever assigned from load calls
            d = v.get('d')
            srcs = []
            for x in g.walk():
                if x['k'] == 'BinaryOperator' and x.get('op') == '=' and (strip(x['c'][0]) or {}).get('d') == d:
                    srcs.append(strip(x['c'][1]))
                if x['k'] == 'DeclStmt' and x.get('decls') and x['decls'][0]['d'] == d and x.get('c'):
                    srcs.append(strip(x['c'][0]))
            return bool(srcs) and all(is_load_call(prog, g, s_, depth + 1) for s_ in srcs)
        return False
    return bool(vals) and all(ok(v) for v in vals)


def check_seek_after_eof(prog, rep, rule):
    """seekg on the cached input stream happens with the error state fully cleared: a final short read sets eofbit AND failbit, and seekg
    fails while failbit is set, so the clear() before it must reset the whole state (no argument / goodbit), not only eofbit."""
    n_seek = 0
    for f in sorted(prog.funcs.values(), key=lambda x: x.id):
        if f.cls != 'BitSerializer::Detail::CBinaryStreamReader':
            continue
        seeks = [n for n in f.walk() if n['k'] == 'CXXMemberCallExpr' and (f.callee(n) or {}).get('n') == 'seekg']
        if not seeks:
            continue
        rep.touch(f)
        for sk in seeks:
            n_seek += 1
            clears = [n for n in f.walk() if n['k'] == 'CXXMemberCallExpr' and (f.callee(n) or {}).get('n') == 'clear' and n['l'] <= sk['l']
                      and strip_targs((f.callee(n) or {}).get('q', '')).startswith('std::basic_ios')]
            partial = None
            for c in clears:
                args = [a for a in c['c'][1:] if a['k'] != 'CXXDefaultArgExpr']
                if args and strip(args[0]).get('cv', args[0].get('cv')) != 0:
                    partial = c
            if clears and partial is None:
                rep.ok(rule, f.pq, sample={'function': f.pq, 'seekg_at': f.loc(sk), 'preceded_by': 'clear() of the whole error state'})
            elif partial is not None:
                rep.finding(rule, f.pq + '|partial clear', f.loc(partial), '%s clears the stream state with a computed mask before seekg: a final short read sets '
                            'failbit together with eofbit, seekg fails while failbit is set and the rewind (wrap-around key search, restore of a saved '
                            'position) silently does not happen' % f.pq, func=f.id)
            else:
                rep.finding(rule, f.pq, f.loc(sk), '%s seeks without clearing eofbit/failbit: after the final short read a backward seek fails '
                            '(wrap-around key search on streams larger than one chunk)' % f.pq, func=f.id)
    if not n_seek:
        raise AnalysisBroken('%s: no seekg found in CBinaryStreamReader' % rule)


def run(prog, rep):
    rep.rule('R3.1',
 'failure-reporting results (SetPosition, ReadChunk, Write, Transcode) are consumed; tabled look-ahead / restore sites aside', floor=8)
    rep.rule('R3.2', 'seekg on the cached input stream is preceded by clear() of the end-of-file state', floor=1)
    rep.rule('R3.3', 'single-value wrappers: the target is stored only on a path where the inner load returned true, and that result is returned', floor=60)
    rep.rule('R3.4', 'validators are called with (value, result-of-the-load)', floor=20)
    rep.rule('R3.5', 'MsgPack object scope: values consumed == index increments + child scopes handed over, on every normal path of every method; '
                     'mIndex is reset only together with SetPosition(mStartPos)', floor=20)

    # ---------------------------------------------------------------- R3.1
    for f in sorted(prog.funcs.values(), key=lambda x: x.id):
        if not pattern_in_lib(f):
            continue
        for n in live_walk(f):
            if n['k'] not in ('CXXMemberCallExpr', 'CallExpr'):
                continue
            s = f.callee(n)
            if s is None:
                continue
            q = strip_targs(s['q'])
            if q not in RESULT_CALLEES:
                continue
            rep.touch(f)
            p = f.parent(n)
            while p is not None and p['k'] in ('ExprWithCleanups', 'ParenExpr', 'MaterializeTemporaryExpr', 'CXXBindTemporaryExpr', 'ImplicitCastExpr'):
                if p['k'] == 'ImplicitCastExpr' and p.get('ck') != 'ToVoid' and p.get('ck') is not None and p.get('ck') not in ('NoOp',):
                    break
                p = f.parent(p)
            discarded = p is not None and p['k'] in ('CompoundStmt', 'IfStmt', 'ForStmt', 'WhileStmt', 'CaseStmt', 'DefaultStmt', 'DoStmt') and \
                not (p['k'] in ('IfStmt', 'WhileStmt', 'DoStmt', 'ForStmt') and child(p, 'cond') is not None and any(x is n for x in f.walk(child(p, 'cond'))))
            caller = f.pq if f.cls else f.name
            site = '%s|in %s' % (q.rsplit('::', 2)[-2] + '::' + q.rsplit('::', 1)[-1], caller)
            if not discarded:
                rep.ok('R3.1', site + '@%d' % n['l'], sample={'callee': q, 'caller': caller, 'result': 'consumed'} if 'SkipValueImpl' in caller else None)
            elif q.endswith('::SetPosition') and is_restore(prog, f, n['c'][1] if len(n['c']) > 1 else None):
                rep.ok('R3.1', site + '|restore', sample={'callee': q, 'caller': caller, 'result': 'discarded (restore of a position taken with GetPosition() earlier: '
                       'a move back inside the cached chunk; a failure surfaces at the next read)'}, nontrivial=False)
            elif (q, caller) in DISCARD_OK:
                rep.ok('R3.1', site + '|tabled', sample={'callee': q, 'caller': caller, 'result': 'discarded (tabled)', 'reason': DISCARD_OK[(q, caller)]}, nontrivial=False)
            else:
                rep.finding('R3.1', site, f.loc(n), '%s discards the result of %s (%s): the failure goes unnoticed and loading continues at a wrong position / with lost text'
                            % (caller, q, RESULT_CALLEES[q]), {'instantiation': f.id}, func=f.id)

    # ---------------------------------------------------------------- R3.2
    check_seek_after_eof(prog, rep, 'R3.2')

    # ---------------------------------------------------------------- R3.3
    check_wrappers(prog, rep)

    # ---------------------------------------------------------------- R3.4
    # the load-result variable of SplitAndSerialize(KeyValue): the bool local that is assigned from the Serialize(...) call
    result_names = set()
    for f in prog.funcs.values():
        if f.pq != 'BitSerializer::KeyValueProxy::SplitAndSerialize' or 'KeyValue<' not in f.id or f.body is None:
            continue
        for n in f.walk():
            if n['k'] == 'BinaryOperator' and n.get('op') == '=':
                lhs, rhs = strip(n['c'][0]), strip(n['c'][1])
                if lhs is not None and lhs['k'] == 'DeclRefExpr' and is_load_call(prog, f, rhs):
                    result_names.add(lhs.get('n'))
            if n['k'] == 'DeclStmt' and len(n.get('decls') or []) == 1 and n.get('c') and is_load_call(prog, f, strip(n['c'][0])):
                result_names.add(n['decls'][0]['n'])
    if not result_names:
        raise AnalysisBroken('R3.4: SplitAndSerialize(KeyValue) no longer assigns a local from the Serialize(...) call')
    n34 = 0
    for f in sorted(prog.funcs.values(), key=lambda x: x.id):
        if f.sym['kind'] != 'lambda' or 'key_value_proxy.h' not in f.file:
            continue
        calls = [n for n in f.walk() if n['k'] == 'CXXOperatorCallExpr' and n.get('op') == '()' and len(n['c']) == 4]
        if not calls:
            continue
        rep.touch(f)
        n34 += 1
        c = calls[0]
        second = strip(c['c'][3])
        ok = second is not None and second['k'] in ('MemberExpr', 'DeclRefExpr') and (second.get('m') or second.get('n')) in result_names
        site = 'validator call|' + f.id[-70:]
        if ok:
            rep.ok('R3.4', site, sample={'lambda': f.loc(), 'second_argument': 'result'} if n34 < 3 else None, nontrivial=n34 < 50)
        else:
            rep.finding('R3.4', 'validator call|second argument', f.loc(c), 'validators are not given the result of the load as "isLoaded" argument', func=f.id)
    for f in sorted(prog.funcs.values(), key=lambda x: x.id):
        if f.pq != 'BitSerializer::KeyValueProxy::SplitAndSerialize' or 'KeyValue<' not in f.id:
            continue
        # 'result' is assigned from the Serialize call
        has = False
        for n in live_walk(f):
            if n['k'] == 'BinaryOperator' and n.get('op') == '=' and (strip(n['c'][0]) or {}).get('n') in result_names:
                if is_load_call(prog, f, strip(n['c'][1])):
                    has = True
            if n['k'] == 'DeclStmt' and len(n.get('decls') or []) == 1 and n['decls'][0]['n'] in result_names and n.get('c') \
                    and is_load_call(prog, f, strip(n['c'][0])):
                has = True
        if any(d['n'] in result_names for n in f.walk() if n['k'] == 'DeclStmt' for d in n.get('decls', ())):
            rep.touch(f)
            if has:
                rep.ok('R3.4', 'result := Serialize(...)|' + f.sym.get('targs', '')[:60], nontrivial=False)
            else:
                rep.finding('R3.4', 'result assignment', f.loc(), 'SplitAndSerialize(KeyValue) does not take "result" from the Serialize call', func=f.id)

    # ---------------------------------------------------------------- R3.5
    check_object_scope(prog, rep)

    # ---------------------------------------------------------------- R3.6 stream window / SetPosition accounting
    from rules import keycmp, stream_window
    stream_window.check(prog, rep, 'R3.6', floor=9)
    keycmp.check(prog, rep)
    keycmp.check_array_key(prog, rep, 'R3.11')
    from rules import csv_header
    csv_header.check(prog, rep, 'R3.12')
    from rules import msgpack_tables as _mt
    rep.rule('R3.10', 'ReadExtSize (both reader copies): the length field of k = 1, 2, 4 bytes is read once, unsigned, and returned; unread values are skipped by their real length', floor=6)
    _mt.check_ext_size(prog, rep, 'R3.10')
    rep.rule('R3.9', 'CSV readers, ReadValue(key): executed over a header row holding every prefix relation to the key, for every cursor position - the '
                     'column read is the one whose header equals the key, an absent key is reported as not loaded', floor=2)
    from rules import csvkey
    csvkey.check(prog, rep, 'R3.9')

    # ---------------------------------------------------------------- R3.8 scopes with an item cursor consume what was left unread
    rep.rule('R3.8', 'MsgPack read scopes with an item cursor (array: 1 value per item, object: key + value per item): the destructor runs a loop '
                     'bounded by mIndex < mSize that skips exactly that many values per unread item and advances the cursor', floor=4)
    per_item = {'CMsgPackReadArrayScope': 1, 'CMsgPackReadObjectScope': 2}
    work = []
    for short in sorted(per_item):
        q = 'BitSerializer::MsgPack::Detail::' + short
        rec = prog.records.get(q) or next((r for r in prog.records.values() if r['q'] == q), None)
        if rec is None:
            raise AnalysisBroken('anchor vanished: ' + q)
        dts = [f for f in prog.funcs.values() if strip_targs(f.cls or '') == q and f.name.startswith('~') and '<' in (f.cls or '') and f.body is not None]
        if not rec.get('userdtor') or not dts:
            rep.finding('R3.8', '%s|no destructor' % short, '%s:%s' % (rec['_tu']['files'][rec['file']].replace('/repo/', ''), rec['line']),
                        '%s has no destructor: items of a partly read %s stay in the input and are parsed as members of the parent scope'
                        % (short, 'array' if per_item[short] == 1 else 'map'), count=2)
            continue
        for f in sorted(dts, key=lambda g: g.id):
            work.append((short, f.cls.replace('BitSerializer::MsgPack::Detail::', ''), f, rec))
    for short, site, f, rec in work:
        rep.touch(f)
        # the loop sits in the destructor or in a member function of the scope the destructor calls unconditionally
        bodies, todo = [f], [f]
        while todo and len(bodies) < 6:
            g0 = todo.pop()
            top = []
            for st in (g0.body or {}).get('c', []):
                top.append(st)
                if st['k'] == 'CXXTryStmt' and child(st, 'block') is not None:
                    top.extend(child(st, 'block').get('c', []))          # `try { SkipUnreadItems(); } catch (...) {}`
            for st in top:
                e = strip(st)
                if e is not None and e['k'] == 'CXXMemberCallExpr':
                    cal = g0.callee(e)
                    h = prog.funcs.get(cal['id']) if cal is not None and cal.get('repo') else None
                    if h is not None and h.body is not None and h.cls == f.cls and h not in bodies:
                        bodies.append(h)
                        todo.append(h)
        dtor = f
        good = None
        for f, lp in [(g0, n) for g0 in bodies for n in g0.walk() if n['k'] in ('ForStmt', 'WhileStmt')]:
            cond = child(lp, 'cond') if lp['k'] == 'ForStmt' else lp['c'][0]
            cs = strip(cond) if cond else None
            if cs is None or cs['k'] != 'BinaryOperator' or cs.get('op') not in ('<', '!='):
                continue
            lhs, rhs = strip(cs['c'][0]), strip(cs['c'][1])
            # "<cursor> < <size>": the bound is a data member of the scope, the cursor a member or a local initialised from one
            if rhs is None or rhs['k'] != 'MemberExpr' or lhs is None or lhs['k'] not in ('MemberExpr', 'DeclRefExpr'):
                continue
            cursor = lhs.get('m') or lhs.get('n')
            members = set(fl['n'] for fl in rec.get('fields', []))

            def effects(g0, node, depth=0):
                # SkipValue calls and cursor increments of the loop body, including those of loop-free member helpers it calls
                sk = inc = 0
                for m in g0.walk(node):
                    if m['k'] == 'CXXMemberCallExpr':
                        cal = g0.callee(m) or {}
                        if cal.get('n') == 'SkipValue':
                            sk += 1
                        elif cal.get('repo') and depth < 2:
                            h = prog.funcs.get(cal['id'])
                            if h is not None and h.body is not None and h.cls == g0.cls \
                                    and not any(x['k'] in ('ForStmt', 'WhileStmt', 'DoStmt') for x in h.walk()):
                                a, b = effects(h, h.body, depth + 1)
                                sk, inc = sk + a, inc + b
                    elif m['k'] == 'UnaryOperator' and m.get('op') == '++' and (strip(m['c'][0]) or {}).get('k') == 'MemberExpr' \
                            and (strip(m['c'][0]) or {}).get('m') in members:
                        inc += 1
                return sk, inc
            skips, incs = effects(f, lp)
            good = (skips, incs, f.loc(lp))
            break
        f = dtor
        if good is None:
            rep.finding('R3.8', '%s|no skip loop' % short, f.loc(), '%s: destructor has no loop bounded by mSize that skips unread items' % site, func=f.id, count=2)
        elif good[0] != per_item[short]:
            rep.finding('R3.8', '%s|skip count' % short, good[2], '%s: destructor skips %d value(s) per unread item, the scope holds %d per item'
                        % (site, good[0], per_item[short]), func=f.id, count=2)
        elif good[1] != 1:
            rep.finding('R3.8', '%s|cursor' % short, good[2], '%s: skip loop does not advance mIndex exactly once per item' % site, func=f.id, count=2)
        else:
            rep.ok('R3.8', site + '|skip loop', sample={'scope': site, 'loop': good[2], 'values_skipped_per_item': good[0]})
            rep.ok('R3.8', site + '|cursor advance')


WRAPPER_TYPES = (('std::byte', 'byte'), ('std::basic_string<', 'string'), ('EnumAsBin<', 'EnumAsBin'), ('std::atomic<', 'atomic'),
                 ('std::chrono::time_point<', 'time_point'), ('std::chrono::duration<', 'duration'), ('BitSerializer::CTimeRef', 'CTimeRef'),
                 ('std::filesystem::path', 'path'))


def is_load_archive(f):
    if not f.params:
        return False
    t = f.tu['types'][f.params[0]['t']]
    return 'SerializeMode::Load' in t or 'ReadRootScope' in t or 'ReadObjectScope' in t or 'ReadArrayScope' in t or 'ReadBinaryScope' in t


def check_wrappers(prog, rep):
    for f in sorted(prog.funcs.values(), key=lambda x: x.id):
        if f.pq != 'BitSerializer::Serialize' or not pattern_in_lib(f) or not is_load_archive(f) or len(f.params) < 2:
            continue
        lt = f.tu['types'][f.params[-1]['t']]
        kind = None
        for pref, k in WRAPPER_TYPES:
            if lt.startswith(pref) or ('enum' == k):
                kind = k
                break
        if kind is None:
            # enums: last parameter is a reference to an enum type
            continue
        tgt = f.params[-1]['d']
        rep.touch(f)
        g = CFG(f)
        bad = None
        for path, dec, knd in g.paths():
            if knd != 'return':
                continue
            stored = None
            inner_true = False
            inner_seen = False
            ret = None
            ret_is_inner = False
            for n in g.path_nodes(path):
                if is_store_to(f, n, tgt):
                    stored = n
                if n['k'] == 'ReturnStmt':
                    v = strip(child(n, 'value'), casts=False)
                    ret = v.get('cv') if v is not None else None
                    rv = resolve(f, v) if v is not None else None
                    if rv is not None and any(is_inner_load(f, x) for x in f.walk(rv)):
                        ret_is_inner = True
                if is_inner_load(f, n):
                    inner_seen = True
            for cond_id, idx, tk in dec:
                c = f.node(cond_id) if cond_id is not None else None
                if c is None:
                    continue
                # the condition is the inner load itself, its negation, or a named flag initialised with it (`const bool isLoaded = ...`)
                e, neg = strip(c), False
                while e is not None and e['k'] == 'UnaryOperator' and e.get('op') == '!':
                    neg = not neg
                    e = strip(e['c'][0])
                e = resolve(f, e) if e is not None else None
                if e is not None and any(is_inner_load(f, x) for x in f.walk(e)) and ((idx == 0) != neg):
                    inner_true = True
            if stored is not None and not inner_true and not ret_is_inner:
                bad = 'the target is written at line %d on a path where the inner load did not report true' % stored['l']
                break
            if ret == 1 and not inner_true:
                bad = 'returns true on a path where the inner load did not report true'
                break
        site = 'Serialize(%s)|%s' % (kind, 'keyed' if len(f.params) == 3 else 'unkeyed')
        if bad:
            rep.finding('R3.3', site, f.loc(), 'Serialize(%s): %s - an absent or skipped field overwrites the target / is reported as loaded' % (kind, bad),
                        {'instantiation': f.id}, func=f.id)
        else:
            rep.ok('R3.3', site + '|' + f.sym.get('targs', '')[:60], sample={'wrapper': kind, 'keyed': len(f.params) == 3} if kind in ('atomic', 'byte') else None)


def is_inner_load(f, n):
    if n['k'] in ('CXXMemberCallExpr', 'CallExpr'):
        s = f.callee(n)
        if s is not None and s['n'] in ('SerializeValue', 'Serialize', 'SerializeString', 'ConvertByPolicy', 'SafeConvertIsoDate'):
            return True
    return False


def is_store_to(f, n, tgt):
    if n['k'] in ('BinaryOperator', 'CompoundAssignOperator') and n.get('op') == '=':
        lhs = strip(n['c'][0])
        while lhs is not None and lhs['k'] == 'MemberExpr' and lhs.get('c'):
            lhs = strip(lhs['c'][0])
        return lhs is not None and lhs['k'] == 'DeclRefExpr' and lhs.get('d') == tgt
    if n['k'] == 'CXXOperatorCallExpr' and n.get('op') == '=' and len(n['c']) > 1:
        lhs = strip(n['c'][1])
        return lhs is not None and lhs['k'] == 'DeclRefExpr' and lhs.get('d') == tgt
    if n['k'] == 'CXXMemberCallExpr':
        s = f.callee(n)
        if s is not None and s['n'] in ('store', 'assign', 'operator=', 'exchange'):
            me = strip(n['c'][0], casts=False)
            base = strip(me['c'][0]) if me is not None and me.get('c') else None
            return base is not None and base['k'] == 'DeclRefExpr' and base.get('d') == tgt
    return False


def check_object_scope(prog, rep, rule='R3.5'):
    """Item accounting of the MsgPack object scope. Along every normal path:
         items consumed from the reader (keys + values) - 2 * (index increments + child scopes handed over) == pending_after - pending_before
       where 'pending' = a key has been read and its value not yet consumed (mCurrentKey set). The pending state is tracked along the path:
       tests of mCurrentKey constrain it, ReadKey sets it, Reset() clears it."""
    methods = [f for f in prog.funcs.values() if strip_targs(f.cls) == OBJ]
    if len(methods) < 10:
        raise AnalysisBroken('anchor: methods of CMsgPackReadObjectScope not found (%d)' % len(methods))
    memo = {}
    # key readers: the methods that obtain the key storage of the scope (CVariableKey::GetValueRef / Set) and read a key into it - ReadKey and
    # whatever helpers it is split into. A call of one consumes one item and leaves a key pending; they are not balanced themselves.
    key_readers = set()
    for m in methods:
        if m.body is not None and any(x['k'] == 'CXXMemberCallExpr' and (m.callee(x) or {}).get('n') in ('GetValueRef', 'Set')
                                      and 'CVariableKey' in (m.callee(x) or {}).get('clsq', (m.callee(x) or {}).get('q', '')) for x in m.walk()):
            key_readers.add(m.id)
    changed = True
    while changed:
        changed = False
        for m in methods:
            if m.id in key_readers or m.body is None or m.name in ('FindValueByKey', 'VisitKeys'):
                continue
            stm = [st for st in (m.body.get('c') or [])]
            calls = [x for x in m.walk() if x['k'] == 'CXXMemberCallExpr' and (m.callee(x) or {}).get('id') in key_readers]
            other = [x for x in m.walk() if x['k'] == 'CXXMemberCallExpr' and (m.callee(x) or {}).get('n') in VALUE_CONSUMERS]
            if calls and not other and all((m.callee(x) or {}).get('cls') == m.cls for x in calls) and m.name.startswith('ReadKey'):
                key_readers.add(m.id)
                changed = True
    if not key_readers:
        raise AnalysisBroken(rule + ': no method of the object scope reads a key into the scope\'s key storage')

    def is_key_test(f, cond):
        """condition that tests whether a key is pending: `mCurrentKey` converted to bool (not a comparison with a key)"""
        if cond is None:
            return None
        c = strip(cond)
        neg = False
        for _ in range(4):
            while c is not None and c['k'] == 'UnaryOperator' and c.get('op') == '!':
                neg = not neg
                c = strip(c['c'][0])
            r = resolve(f, c) if c is not None else None        # `const bool hasPendingKey = static_cast<bool>(mCurrentKey);`
            if r is None or r is c:
                break
            c = r
        if c is not None and c['k'] == 'CXXMemberCallExpr' and (f.callee(c) or {}).get('n') == 'operator bool':
            me = strip(c['c'][0], casts=False)
            base = strip(me['c'][0]) if me is not None and me.get('c') else None
            if base is not None and base['k'] == 'MemberExpr' and base.get('m') == 'mCurrentKey':
                return neg
        return None

    def summaries(f, depth=0):
        if f.id in memo:
            return memo[f.id]
        memo[f.id] = set()
        g = CFG(f)
        out = {}
        for path, dec, kind in g.paths(max_paths=20000):
            if kind != 'return':
                continue
            decided = {}
            for cond_id, idx, tk in dec:
                decided[cond_id] = idx
            # state: (T, I, R, pre, cur, trace); pre/cur in {None, 0, 1}
            states = [(0, 0, 0, None, None, [], None)]
            for bid in path:
                b = g.blocks[bid]
                for n in b.nodes:
                    new_states = []
                    for (T, I, R, pre, cur, tr, lr) in states:
                        k = n['k']
                        if k == 'CXXMemberCallExpr':
                            s = f.callee(n)
                            cq = s.get('clsq', '') if s else ''
                            nm = s['n'] if s else ''
                            if nm in VALUE_CONSUMERS and (cq.endswith('IMsgPackReader') or cq.endswith('Reader')):
                                new_states.append((T + 1, I, R, pre, cur, tr + ['%s@%d' % (nm, n['l'])], lr))
                                continue
                            if nm == 'SetPosition' and (cq.endswith('IMsgPackReader') or cq.endswith('Reader')):
                                new_states.append((T, I, R - 1, pre, cur, tr + ['SetPosition@%d' % n['l']], lr))
                                continue
                            if nm == 'ReadKey' or (s is not None and s.get('id') in key_readers):
                                new_states.append((T + 1, I, R, pre, 1, tr + ['%s@%d' % (nm, n['l'])], lr))
                                continue
                            if nm == 'Reset' and 'CVariableKey' in cq:
                                new_states.append((T, I, R, pre, 0, tr + ['key.Reset@%d' % n['l']], lr))
                                continue
                            if s is not None and s.get('cls') == f.cls and s['id'] in prog.funcs and s['id'] != f.id and depth < 4 and nm != 'GetPath':
                                subs = summaries(prog.funcs[s['id']], depth + 1)
                                if subs:
                                    for (dT, dI, dR, spre, spost, sret) in subs:
                                        p2, c2 = pre, cur
                                        if spre is not None:
                                            if c2 is None:
                                                p2, c2 = spre, spre
                                            elif c2 != spre:
                                                continue   # infeasible combination
                                        if spost is not None:
                                            c2 = spost
                                        new_states.append((T + dT, I + dI, R + dR, p2, c2, tr + ['%s{%d,%d}->%s' % (nm, dT, dI, sret)], (n['i'], sret)))
                                    continue
                        elif k == 'UnaryOperator' and n.get('op') == '++':
                            t = strip(n['c'][0])
                            if t is not None and t['k'] == 'MemberExpr' and t.get('m') == 'mIndex':
                                new_states.append((T, I + 1, R, pre, cur, tr + ['++mIndex@%d' % n['l']], lr))
                                continue
                        elif k == 'BinaryOperator' and n.get('op') == '=':
                            t = strip(n['c'][0])
                            if t is not None and t['k'] == 'MemberExpr' and t.get('m') == 'mIndex':
                                new_states.append((T, I, R + 1, pre, cur, tr + ['mIndex=..@%d' % n['l']], lr))
                                continue
                        elif k in ('CXXConstructExpr', 'CallExpr', 'CXXTemporaryObjectExpr'):
                            t = f.type(n)
                            if 'CMsgPackRead' in t and 'Scope' in t and any((strip(x) or {}).get('k') == 'CXXThisExpr' for x in n.get('c', ())):
                                # child scope with `this` as parent: its destructor performs the deferred OnFinishChildScope() (Reset + ++mIndex)
                                new_states.append((T, I + 1, R, pre, 0, tr + ['child-scope(this)@%d' % n['l']], lr))
                                continue
                        new_states.append((T, I, R, pre, cur, tr, lr))
                    states = new_states
                # branch decision taken at the end of this block
                tc = b.tc if b.tc is not None else b.term
                if tc is not None and tc in decided and len([x for x in b.succ if x is not None]) > 1:
                    cnode = f.node(tc)
                    neg = is_key_test(f, cnode)
                    if neg is not None:
                        val = 1 if ((decided[tc] == 0) != neg) else 0
                        new_states = []
                        for (T, I, R, pre, cur, tr, lr) in states:
                            if cur is None:
                                new_states.append((T, I, R, val, val, tr + ['[pending=%d]' % val], lr))
                            elif cur == val:
                                new_states.append((T, I, R, pre, cur, tr, lr))
                        states = new_states
                    else:
                        # condition that is (the negation of) a helper call whose return value the summaries know
                        c = strip(cnode) if cnode is not None else None
                        ng = False
                        while c is not None and c['k'] == 'UnaryOperator' and c.get('op') == '!':
                            ng = not ng
                            c = strip(c['c'][0])
                        if c is not None and c['k'] == 'CXXMemberCallExpr':
                            want = (decided[tc] == 0) != ng
                            states = [st for st in states if not (st[6] is not None and st[6][0] == c['i'] and st[6][1] is not None and st[6][1] != want)]
            # return value of this path (literal true/false only)
            ret = None
            for bid in reversed(path):
                rets = [n for n in g.blocks[bid].nodes if n['k'] == 'ReturnStmt']
                if rets:
                    v = strip(child(rets[-1], 'value')) if child(rets[-1], 'value') is not None else None
                    if v is not None and v['k'] == 'CXXBoolLiteralExpr':
                        ret = bool(v.get('cv'))
                    break
            for (T, I, R, pre, cur, tr, lr) in states:
                out.setdefault((T, I, R, pre, cur, ret), tr)
        memo[f.id] = out
        return out

    # bookkeeping helpers: a method other methods of the scope call, that itself calls nothing on the reader (`mCurrentKey.Reset(); ++mIndex;`
    # extracted from SerializeValue / OnFinishChildScope). Their effect is accounted in every caller through the summaries; taken alone
    # they are settlements, like OnFinishChildScope, and are not balanced by themselves.
    called = set()
    for m in methods:
        if m.body is None:
            continue
        for x in m.walk():
            if x['k'] == 'CXXMemberCallExpr':
                c = m.callee(x) or {}
                if c.get('cls') == m.cls and c.get('id') != m.id:
                    called.add(c.get('id'))
    API = ('SerializeValue', 'OpenObjectScope', 'OpenArrayScope', 'OpenBinaryScope', 'VisitKeys', 'FindValueByKey', 'ResetKey')
    bookkeeping = set()
    for m in methods:
        if m.body is None or m.id not in called or m.name in API or m.name.startswith('~'):
            continue
        if not any(x['k'] == 'CXXMemberCallExpr' and ((m.callee(x) or {}).get('clsq', '') or '').endswith(('IMsgPackReader', 'CMsgPackStringReader', 'CMsgPackStreamReader'))
                   for x in m.walk()) and not any(x['k'] == 'CXXMemberCallExpr' and (m.callee(x) or {}).get('cls') == m.cls for x in m.walk()):
            bookkeeping.add(m.id)
    for f in sorted(methods, key=lambda x: x.id):
        if f.sym['kind'] == 'ctor' or f.name in ('GetPath', 'GetEstimatedSize', 'ReadKey', 'OnFinishChildScope') or f.id in key_readers or f.id in bookkeeping:
            continue   # OnFinishChildScope is the deferred settlement of a child scope (accounted where the child is created)
        rep.touch(f)
        d = summaries(f)
        if not d:
            continue
        bad = {}
        for (T, I, R, pre, post, ret), tr in d.items():
            p0 = pre if pre is not None else 0
            p1 = post if post is not None else p0
            if T - 2 * I != p1 - p0 or R != 0:
                bad[(T, I, R, pre, post, ret)] = tr
        site = '%s|%s' % (f.pq, f.sym.get('targs', '')[:40])
        if not bad:
            rep.ok(rule, site, sample={'method': f.pq, 'path_summaries(items,increments,resets,pending_before,pending_after)': sorted(map(str, d))[:6]}
                   if f.name in ('FindValueByKey', 'VisitKeys') else None, nontrivial=any(k[:3] != (0, 0, 0) for k in d))
        else:
            (T, I, R, pre, post, ret), tr = sorted(bad.items(), key=str)[0]
            what = ('consumes %d item(s) (keys+values) but accounts for %d pair(s) with pending key %s -> %s' % (T, I, pre, post)) if R == 0 else \
                'resets mIndex without repositioning the reader to the first member (or vice versa)'
            rep.finding(rule, '%s|items=%d,pairs=%d,reset=%d' % (f.pq, T, I, R), f.loc(),
                        '%s: a normal path %s: the member cursor and the reader position get out of step, later keys are looked up at wrong offsets'
                        % (f.pq, what), {'path_events': tr, 'instantiation': f.id}, func=f.id)
