"""C10: sibling cross-checks of the CSV reader/writer copies (statement skeletons modulo a sink/source renaming)."""
from bsv.facts import AnalysisBroken, strip, strip_targs

NS = 'BitSerializer::Csv::Detail::'
RENAME = {'mSourceString': 'BUF', 'mDecodedBuffer': 'BUF', 'mOutputString': 'HDR', 'mCsvHeader': 'HDR'}


def skeleton(f, n, out, names=None):
    """token stream of a body; locals and parameters are alpha-renamed by order of first appearance"""
    if names is None:
        names = {}
    k = n['k']
    if k in ('ImplicitCastExpr', 'ParenExpr', 'ExprWithCleanups', 'MaterializeTemporaryExpr', 'CXXBindTemporaryExpr', 'CXXFunctionalCastExpr',
             'CXXStaticCastExpr', 'ConstantExpr'):
        for c in n.get('c', ()):
            skeleton(f, c, out, names)
        return
    tok = k
    if k == 'MemberExpr':
        tok += ':' + RENAME.get(n.get('m'), n.get('m', ''))
    elif k == 'DeclRefExpr':
        if n.get('dk') in ('Var', 'ParmVar') and not n.get('g'):
            tok += ':v%d' % names.setdefault(n.get('d'), len(names))
        else:
            tok += ':' + n.get('n', '')
    elif k in ('BinaryOperator', 'UnaryOperator', 'CompoundAssignOperator', 'CXXOperatorCallExpr'):
        tok += ':' + str(n.get('op'))
    elif k in ('IntegerLiteral', 'CharacterLiteral', 'CXXBoolLiteralExpr'):
        tok += ':' + str(n.get('cv'))
    elif k in ('CallExpr', 'CXXMemberCallExpr'):
        s = f.callee(n)
        tok += ':' + (s['n'] if s else '?')
    elif k == 'CXXThrowExpr':
        tok += ':' + str(n.get('tt'))
    elif k == 'StringLiteral':
        tok += ':' + n.get('s', '')
    out.append(tok)
    for c in n.get('c', ()):
        skeleton(f, c, out, names)


def effect_paths(prog, f, twin_cls=None):
    """set of (sorted calls to sibling members and row-level helpers, outcome) over all abstract paths of f; conditions are free choices"""
    from bsv.dtab import TOP, Interp, Model, Sym

    class M(Model):
        def initial_store(self, it, key):
            return TOP

        def compare(self, it, fr, n, op, a, b):
            return Sym(('GUARD', 'C@%s' % n.get('i')))

        def primitive(self, it, fr, n, callee, depth):
            obj, args = it.call_args(fr, n)
            for x in args:
                it.ev(fr, x, depth)
            if obj is not None:
                it.ev(fr, obj, depth)
            if callee.get('repo') and callee.get('cls') == f.cls and twin_cls is not None and callee['n'] not in twin_names \
                    and callee['id'] in it.prog.funcs and depth < it.max_depth:
                return NotImplemented       # a private helper only this copy has (extracted from the shared logic): part of the body
            if callee.get('repo') and callee['q'].startswith(NS):
                it.act('CALLS', callee['n'])
                g = it.prog.funcs.get(callee.get('id'))
                if g is not None and g.tu['types'][g.sym['ret']].strip() == 'bool':
                    # the result of a sibling member is a free choice, taken where the call is made (so that `if (F())` and
                    # `const bool r = F(); ... return r;` describe the same paths)
                    return 1 if it.choose('CALL:%s@%s' % (callee['n'], n.get('i'))) else 0
            elif callee['n'] in ('push_back', 'append', 'Write', 'write', 'clear'):
                it.act('CALLS', callee['n'])
            return TOP

    twin_names = set(g.name for g in prog.funcs.values() if g.cls == NS + twin_cls) if twin_cls else set()
    it = Interp(prog, M(), max_depth=2 if twin_cls else 0, max_paths=4000)

    def init(it_, fr):
        for p in f.params:
            fr.env[p['d']] = TOP
    out = set()
    for p in it.run(f, init):
        calls = tuple(sorted(set(a[1] for a in p.actions if a[0] == 'CALLS')))
        if p.outcome[0] == 'THROW':
            o = 'throw ' + str(p.outcome[1])
        else:
            v = p.outcome[1]
            o = 'return %s' % (int(v) if isinstance(v, (int, bool)) else ('void' if v is None else 'value'))
        out.add((calls, o))
    return out


def one(prog, q):
    fs = [f for f in prog.funcs.values() if f.q == q]
    return fs


def run(prog, rep):
    rep.rule('R10.3', 'CSV memory/stream twins with identical logic (ParseNextRow of the readers, WriteValue of the writers) have the same set of '
                      'abstract paths (member calls made, exception thrown, value returned)', floor=2)
    rep.rule('R10.4', 'both CSV writers terminate the header and every row with CR LF and apply the same row-width check', floor=2)
    for a, b, name in (('CCsvStringReader', 'CCsvStreamReader', 'ParseNextRow'), ('CCsvStringWriter', 'CCsvStreamWriter', 'WriteValue')):
        fa, fb = one(prog, NS + a + '::' + name), one(prog, NS + b + '::' + name)
        if len(fa) != 1 or len(fb) != 1:
            raise AnalysisBroken('anchor vanished: %s/%s::%s' % (a, b, name))
        sa, sb = [], []
        skeleton(fa[0], fa[0].body, sa)
        skeleton(fb[0], fb[0].body, sb)
        rep.touch(fa[0])
        rep.touch(fb[0])
        # Equal token skeletons are sufficient but not necessary (a one-sided refactoring keeps the behaviour and changes the tokens), so the
        # verdict is taken on the sets of abstract paths: which member functions are called, what is thrown, what is returned.
        pa, pb = effect_paths(prog, fa[0], b), effect_paths(prog, fb[0], a)
        # and, cell by cell over the concrete row states of R9.3, the same outcome, calls and effects on the counters (differential abstract execution)
        from rules import c09
        if name == 'ParseNextRow':
            ea, eb = c09.reader_row_effects(prog, a), c09.reader_row_effects(prog, b)
            legend = '(line parser result, header flag, line, header width, row width, previous width)'
        else:
            ea, eb = c09.writer_value_effects(prog, a), c09.writer_value_effects(prog, b)
            legend = '(row index, values already in the row, header flag)'
        diff = [c for c in sorted(ea) if ea[c] != eb.get(c)]
        if pa == pb and not diff:
            rep.ok('R10.3', name, sample={'twins': '%s / %s :: %s' % (a, b, name), 'abstract_paths': len(pa), 'state_cells_compared': len(ea), 'same_token_skeleton': sa == sb})
        elif diff:
            c = diff[0]
            rep.finding('R10.3', name, fb[0].loc(), '%s::%s and %s::%s have diverged: in state %s = %s the memory version does %s, the stream version does %s'
                        % (a, name, b, name, legend, c, sorted(ea[c]), sorted(eb.get(c, ()))), func=fb[0].id)
        else:
            only_a, only_b = sorted(pa - pb), sorted(pb - pa)
            rep.finding('R10.3', name, fb[0].loc(), '%s::%s and %s::%s have diverged: path(s) only in the memory version %s, only in the stream version %s'
                        % (a, name, b, name, only_a[:2], only_b[:2]), func=fb[0].id)
        if sa != sb:
            rep.note('%s / %s :: %s: token skeletons differ (same abstract paths) - informational' % (a, b, name))
    for cls in ('CCsvStringWriter', 'CCsvStreamWriter'):
        fs = one(prog, NS + cls + '::NextLine')
        if len(fs) != 1:
            raise AnalysisBroken('anchor vanished: %s::NextLine' % cls)
        f = fs[0]
        rep.touch(f)
        def pushed(g, depth=0):
            """character constants appended (push_back / append of a literal), in source order, following small repo helpers"""
            out = []
            for n in g.walk():
                if n['k'] == 'CXXMemberCallExpr' and (g.callee(n) or {}).get('n') == 'push_back' and len(n['c']) > 1:
                    v = strip(n['c'][1])
                    if v is not None and 'cv' in v:
                        out.append(v['cv'])
                elif n['k'] in ('CXXMemberCallExpr', 'CXXOperatorCallExpr') and (g.callee(n) or {}).get('n') in ('append', 'operator+=') and len(n['c']) > 1:
                    for x in g.walk(n['c'][-1]):
                        if x['k'] == 'StringLiteral' and x.get('s') is not None:
                            out.extend(ord(ch) for ch in x['s'])
                        elif x['k'] == 'CharacterLiteral' and 'cv' in x:
                            out.append(x['cv'])
                elif n['k'] == 'CallExpr' and depth < 2:
                    c = g.callee(n)
                    h = prog.funcs.get(c['id']) if c is not None and c.get('repo') else None
                    if h is not None and h.body is not None and h.relfile == g.relfile:
                        out.extend(pushed(h, depth + 1))
            return out
        pushes = pushed(f)
        if pushes == [13, 10, 13, 10]:
            rep.ok('R10.4', cls, sample={'writer': cls, 'terminators': 'CR LF (header), CR LF (row)'})
        else:
            rep.finding('R10.4', cls, f.loc(), '%s::NextLine does not terminate header and rows with CR LF (characters pushed: %s)' % (cls, pushes), func=f.id)
