"""Shared JSON-adapter rules (C01 R1.5, C08 R8.1/R8.2): rendering result consumed, stream source encoding named."""
import re

from bsv.dtab import AnalysisBroken
from bsv.facts import strip

JSON_FILE = 'include/bitserializer/rapidjson_archive.h'
PASS = ('ParenExpr', 'ExprWithCleanups', 'MaterializeTemporaryExpr', 'CXXBindTemporaryExpr')
STMT_POS = {'CompoundStmt': None, 'IfStmt': ('then', 'else'), 'ForStmt': ('body', 'inc', 'init'), 'WhileStmt': ('body',), 'DoStmt': ('body',),
            'CaseStmt': ('sub',), 'DefaultStmt': ('sub',), 'LabelStmt': None, 'CXXForRangeStmt': ('body',)}


def discarded(f, n):
    """True when the value of expression n is dropped (expression statement or cast to void)"""
    cur = n
    p = f.parent(cur)
    while p is not None and (p['k'] in PASS or (p['k'] in ('ImplicitCastExpr', 'CStyleCastExpr', 'CXXStaticCastExpr', 'CXXFunctionalCastExpr') and p.get('ck') == 'ToVoid')):
        if p.get('ck') == 'ToVoid':
            return True
        cur = p
        p = f.parent(cur)
    if p is None:
        return True
    if p['k'] not in STMT_POS:
        return False
    roles = STMT_POS[p['k']]
    if roles is None:
        return True
    r = p.get('r') or []
    for i, c in enumerate(p.get('c', [])):
        if c is cur:
            return i < len(r) and r[i] in roles
    return False


def in_json(f):
    return f.relfile == JSON_FILE or JSON_FILE in f.id


def check(prog, rep, rule, want=('accept', 'parsestream')):
    n_acc = n_ps = 0
    for f in sorted(prog.funcs.values(), key=lambda g: g.id):
        if f.body is None or not in_json(f):
            continue
        for n in f.walk():
            if n['k'] not in ('CXXMemberCallExpr', 'CallExpr'):
                continue
            c = f.callee(n)
            if c is None:
                continue
            if 'accept' in want and c.get('n') == 'Accept' and c['q'].startswith('rapidjson::'):
                n_acc += 1
                rep.touch(f)
                m = re.search(r'rapidjson::(PrettyWriter|Writer)<rapidjson::(\w+)', c['id'])
                wr = '%s -> %s' % (m.group(1), m.group(2)) if m else 'writer'
                if discarded(f, n):
                    rep.finding(rule, 'Accept|result discarded|%s' % wr, f.loc(n),
                                'rapidjson Accept() (%s) renders the document and returns false when the writer stops (NaN/Inf, invalid UTF); the result is '
                                'discarded, so a truncated document is returned as a successful save' % wr, func=f.id)
                else:
                    rep.ok(rule, 'Accept consumed|%s|%s' % (wr, f.loc(n)), sample={'call': 'Accept', 'writer': wr, 'at': f.loc(n)})
            if 'parsestream' in want and c.get('n') == 'ParseStream' and c['q'].startswith('rapidjson::'):
                sig = c['id']
                if 'AutoUTFInputStream' not in sig:
                    continue
                n_ps += 1
                rep.touch(f)
                targs = sig.split('|')[0]
                if re.search(r'ParseStream<[^|]*AutoUTF<', targs):
                    rep.ok(rule, 'ParseStream source encoding|%s' % f.loc(n), sample={'call': targs[-150:]})
                else:
                    rep.finding(rule, 'ParseStream|source encoding', f.loc(n),
                                'ParseStream over an AutoUTFInputStream is instantiated without AutoUTF as source encoding (%s): the detected UTF-16/32 code units '
                                'are parsed as UTF-8 bytes' % targs[-120:], func=f.id)
    if 'writers' in want:
        n_w = 0
        for f in sorted(prog.funcs.values(), key=lambda g: g.id):
            if f.body is None or not in_json(f):
                continue
            for n in f.walk():
                if n['k'] != 'CXXConstructExpr':
                    continue
                t = f.type(n)
                m = re.match(r'rapidjson::(PrettyWriter|Writer)<(.*)>$', t)
                if not m:
                    continue
                # template arguments: OutputStream, SourceEncoding, TargetEncoding, ...
                depth, cur, targs = 0, '', []
                for ch in m.group(2):
                    if ch == '<':
                        depth += 1
                    elif ch == '>':
                        depth -= 1
                    if ch == ',' and depth == 0:
                        targs.append(cur.strip())
                        cur = ''
                    else:
                        cur += ch
                targs.append(cur.strip())
                if len(targs) < 3:
                    continue
                n_w += 1
                rep.touch(f)
                os_t, tgt = targs[0], targs[2]
                if 'AutoUTFOutputStream' in os_t:
                    want_t, ok = 'rapidjson::AutoUTF<...>', tgt.startswith('rapidjson::AutoUTF<')
                else:
                    mm = re.search(r'GenericStringBuffer<(rapidjson::\w+<[^<>]*>)', os_t)
                    want_t = mm.group(1) if mm else None
                    ok = want_t is not None and tgt.replace(' ', '') == want_t.replace(' ', '')
                site = '%s -> %s|%s' % (m.group(1), os_t.split('<')[0].replace('rapidjson::', ''), f.loc(n))
                if ok:
                    rep.ok(rule, 'writer target encoding|' + site, sample={'writer': m.group(1), 'stream': os_t[:60], 'target_encoding': tgt[:40]})
                else:
                    rep.finding(rule, 'writer target encoding|%s -> %s' % (m.group(1), os_t.split('<')[0].replace('rapidjson::', '')), f.loc(n),
                                'rapidjson %s over %s is instantiated with target encoding %s (expected %s): the code units pushed into the stream are not '
                                'in the stream\'s encoding - non-ASCII text is written wrongly' % (m.group(1), os_t[:50], tgt[:40], want_t), func=f.id)
        if n_w < 4:
            raise AnalysisBroken('%s: fewer than 4 rapidjson writer constructions found (%d)' % (rule, n_w))
    if 'strings' in want:
        n_str = 0
        for f in sorted(prog.funcs.values(), key=lambda g: g.id):
            if f.body is None or not in_json(f):
                continue
            for n in f.walk():
                if n['k'] != 'CXXMemberCallExpr':
                    continue
                c = f.callee(n)
                if c is None or c.get('n') not in ('GetString', 'c_str') or not (c['q'].startswith('rapidjson::GenericValue') or c.get('n') == 'c_str'):
                    continue
                if c.get('n') == 'c_str':
                    # a key handed to a rapidjson lookup as C string loses everything after a null character
                    p = f.parent(n)
                    while p is not None and p['k'] in PASS + ('ImplicitCastExpr',):
                        p = f.parent(p)
                    pc = f.callee(p) if p is not None and p['k'] in ('CXXMemberCallExpr', 'CallExpr') else None
                    if pc is None or pc.get('n') not in ('FindMember', 'HasMember', 'operator[]') or not pc['q'].startswith('rapidjson::'):
                        continue
                    n_str += 1
                    rep.touch(f)
                    rep.finding(rule, 'key lookup by C string|%s' % (f.pq if f.cls else f.name).split('<')[0].split('::')[-1], f.loc(n),
                                'a member lookup passes key.c_str(): a key that contains U+0000 (legal in JSON) is searched under its prefix', func=f.id)
                    continue
                n_str += 1
                rep.touch(f)
                # the pointer must travel together with GetStringLength() of the same value into the constructed view / string
                p = f.parent(n)
                while p is not None and p['k'] in PASS + ('ImplicitCastExpr',):
                    p = f.parent(p)
                ok = False
                if p is not None and p['k'] in ('CXXConstructExpr', 'CXXTemporaryObjectExpr', 'CXXFunctionalCastExpr', 'CallExpr', 'CXXMemberCallExpr'):
                    ok = any(x['k'] == 'CXXMemberCallExpr' and (f.callee(x) or {}).get('n') in ('GetStringLength', 'GetSize', 'GetLength') for x in f.walk(p))
                if not ok and p is not None and p['k'] in ('DeclStmt', 'VarDecl'):
                    # the pointer is kept in a named temporary: it must reach a (pointer, length) construction together with a named temporary
                    # (or a direct call) holding GetStringLength() of the same function
                    ptr_decl = (p.get('decls') or [{}])[0].get('d')
                    len_decls = set()
                    for x in f.walk():
                        if x['k'] == 'DeclStmt' and x.get('decls') and x.get('c') and any(
                                y['k'] == 'CXXMemberCallExpr' and (f.callee(y) or {}).get('n') in ('GetStringLength', 'GetSize', 'GetLength') for y in f.walk(x['c'][0])):
                            len_decls.add(x['decls'][0]['d'])
                    for x in f.walk():
                        if x['k'] in ('CXXConstructExpr', 'CXXTemporaryObjectExpr', 'CXXFunctionalCastExpr') and len(x.get('c', ())) >= 2:
                            refs = [y.get('d') for y in f.walk(x) if y['k'] == 'DeclRefExpr']
                            has_len = any(d_ in len_decls for d_ in refs) or any(
                                y['k'] == 'CXXMemberCallExpr' and (f.callee(y) or {}).get('n') in ('GetStringLength', 'GetSize', 'GetLength') for y in f.walk(x))
                            if ptr_decl in refs and has_len:
                                ok = True
                who = 'rapidjson ' + ('string buffer' if 'StringBuffer' in c['q'] else 'value')
                if ok:
                    rep.ok(rule, 'GetString with its length|%s' % f.loc(n), sample={'at': f.loc(n)})
                elif 'GenericStringBuffer' in c['q']:
                    rep.ok(rule, 'rendered text taken as C string|%s' % f.loc(n), nontrivial=False)     # JSON text never contains a raw NUL (escaped as \\u0000)
                else:
                    rep.finding(rule, 'GetString without length|%s' % (f.pq if f.cls else f.name).split('<')[0].split('::')[-1], f.loc(n),
                                '%s GetString() is used without GetStringLength(): text after an embedded U+0000 (legal in JSON as \\u0000) is lost' % who, func=f.id)
        if n_str < 2:
            raise AnalysisBroken('%s: fewer than 2 GetString() uses found in the JSON adapter' % rule)
    if 'accept' in want and n_acc < 4:
        raise AnalysisBroken('%s: fewer than 4 rapidjson Accept() calls found in the JSON adapter (%d)' % (rule, n_acc))
    if 'parsestream' in want and n_ps < 1:
        raise AnalysisBroken('%s: no ParseStream call over AutoUTFInputStream found' % rule)
