"""CSV readers, ReadValue(key, out): the column that is read is the one whose header EQUALS the requested key (C03 R3.9, C10 R10.7).

ReadValue is executed abstractly over a header row chosen so that every relation between the key and a header occurs (equal, key is a
proper prefix of the header, header is a proper prefix of the key, unrelated) at the fast-path position and elsewhere, for every position of
the row cursor. The outcome only depends on the results of the string comparisons, which the model evaluates exactly."""
from bsv.dtab import TOP, Interp, Model, Struct, Sym
from bsv.facts import AnalysisBroken, strip, strip_targs

NS = 'BitSerializer::Csv::Detail::'
HEADERS = ['Ab', 'Abc', 'A', 'Abcd', 'Zz', 'Abcde']
KEYS = HEADERS + ['Abx', 'Q', 'Abcdef']


class VecIt(object):
    __slots__ = ('i',)

    def __init__(self, i):
        self.i = i


class KeyModel(Model):
    unroll_loops = True

    def __init__(self, cls, hdr_field, idx_field, flag_fields, idx0, headers):
        self.cls, self.hdr, self.idxf, self.flags, self.idx0, self.headers = cls, hdr_field, idx_field, flag_fields, idx0, headers
        self.column = None

    def initial_store(self, it, key):
        if key == 'this.' + self.idxf:
            return self.idx0
        if isinstance(key, str) and key.startswith('this.') and key[5:] in self.flags:
            return 1
        return TOP

    def field_of(self, fr, e):
        e = strip(e)
        if e is not None and e['k'] == 'MemberExpr' and e.get('dk') == 'Field' and e.get('c') and strip(e['c'][0])['k'] == 'CXXThisExpr':
            return e['m']
        return None

    def compare(self, it, fr, n, op, a, b):
        if isinstance(a, VecIt) and isinstance(b, VecIt):
            return 1 if (a.i == b.i) == (op == '==') else 0
        if isinstance(a, str) and isinstance(b, str):
            return 1 if {'==': a == b, '!=': a != b, '<': a < b, '>': a > b, '<=': a <= b, '>=': a >= b}[op] else 0
        raise AnalysisBroken('R3.9: comparison outside the model at %s' % fr.f.loc(n))

    def arith(self, it, fr, n, op, a, b):
        if isinstance(a, VecIt) and isinstance(b, VecIt) and op == '-':
            return a.i - b.i
        if isinstance(a, VecIt) and isinstance(b, int) and op in ('+', '-'):
            return VecIt(a.i + b if op == '+' else a.i - b)
        return TOP

    def construct(self, it, fr, n, depth):
        vals = [it.ev(fr, a, depth) for a in n.get('c', ())]
        if len(vals) == 1:
            return vals[0]
        return TOP

    def primitive(self, it, fr, n, callee, depth):
        name = callee['n']
        q = strip_targs(callee['q'])
        obj, args = it.call_args(fr, n)
        operands = ([obj] if obj is not None else []) + list(args)
        H = self.headers
        recv = self.field_of(fr, obj) if obj is not None else None
        if recv == self.hdr:
            if name == 'size':
                return len(H)
            if name == 'empty':
                return 0 if H else 1
            if name in ('operator[]', 'at'):
                i = it.ev(fr, args[0], depth)
                if not isinstance(i, int) or not 0 <= i < len(H):
                    it.act('HEADER-OOB', i)
                    return 'OOB'
                return H[i]
            if name in ('begin', 'cbegin'):
                return VecIt(0)
            if name in ('end', 'cend'):
                return VecIt(len(H))
        if q in ('std::begin', 'std::cbegin', 'std::end', 'std::cend') and args and self.field_of(fr, args[0]) == self.hdr:
            return VecIt(0 if 'begin' in q else len(H))
        if q in ('std::find',) and len(args) == 3:
            a, b, k = [it.ev(fr, x, depth) for x in args]
            if isinstance(a, VecIt) and isinstance(b, VecIt) and isinstance(k, str):
                for i in range(a.i, b.i):
                    if H[i] == k:
                        return VecIt(i)
                return VecIt(b.i)
        if q in ('std::distance',) and len(args) == 2:
            a, b = [it.ev(fr, x, depth) for x in args]
            if isinstance(a, VecIt) and isinstance(b, VecIt):
                return b.i - a.i
        if name in ('operator==', 'operator!=') and len(operands) == 2:
            a, b = [it.ev(fr, x, depth) for x in operands]
            return self.compare(it, fr, n, name[8:], a, b)
        if name == 'operator-' and len(operands) == 2:
            a, b = [it.ev(fr, x, depth) for x in operands]
            return self.arith(it, fr, n, '-', a, b)
        if name == 'operator basic_string_view' and operands:
            return it.ev(fr, operands[0], depth)
        if q.startswith(('std::basic_string', 'std::basic_string_view')) and obj is not None:
            s = it.ev(fr, obj, depth)
            if isinstance(s, str):
                vals = [it.ev(fr, x, depth) for x in args]
                if name in ('size', 'length'):
                    return len(s)
                if name == 'empty':
                    return 0 if s else 1
                if name == 'compare':
                    if len(vals) == 1 and isinstance(vals[0], str):
                        o = vals[0]
                        return (s > o) - (s < o)
                    if len(vals) == 3 and isinstance(vals[0], int) and isinstance(vals[1], int) and isinstance(vals[2], str):
                        sub, o = s[vals[0]:vals[0] + vals[1]], vals[2]
                        return (sub > o) - (sub < o)
                if name in ('substr',) and vals and all(isinstance(v, int) for v in vals):
                    return s[vals[0]:] if len(vals) == 1 else s[vals[0]:vals[0] + vals[1]]
                if name in ('find', 'rfind') and vals and isinstance(vals[0], str):
                    r = s.find(vals[0]) if name == 'find' else s.rfind(vals[0])
                    return r if r >= 0 else (1 << 64) - 1
                if name == 'starts_with' and vals and isinstance(vals[0], str):
                    return 1 if s.startswith(vals[0]) else 0
                if name in ('data', 'c_str'):
                    return s
                raise AnalysisBroken('R3.9: string operation %s() on a header/key is not in the model (%s)' % (name, fr.f.loc(n)))
        if name == 'at' and recv is not None and recv != self.hdr and args:
            i = it.ev(fr, args[0], depth)
            self.column = i
            it.act('COLUMN', i)
            st = Struct()
            st.fields.update({'HasEscapedChars': 0, 'Offset': TOP, 'Size': TOP})
            return st
        if name == 'operator[]' and recv is not None and recv != self.hdr and args:
            i = it.ev(fr, args[0], depth)
            self.column = i
            it.act('COLUMN', i)
            st = Struct()
            st.fields.update({'HasEscapedChars': 0, 'Offset': TOP, 'Size': TOP})
            return st
        for a in args:
            it.ev(fr, a, depth)
        return TOP


class KeyInterp(Interp):
    def cast_other(self, v, t):
        return v

    def coerce(self, v, t):
        if isinstance(v, (str, VecIt)):
            return v
        return Interp.coerce(self, v, t)


def roles(prog, cls):
    r = prog.records.get(NS + cls)
    if r is None:
        raise AnalysisBroken('anchor vanished: class %s' % cls)
    tu = r['_tu']
    fields = [(fl['n'], tu['types'][fl['t']]) for fl in r['fields']]
    hdr = [n for n, t in fields if t.startswith('std::vector<std::basic_string<')]
    flags = [n for n, t in fields if t in ('const bool', 'bool')]
    if len(hdr) != 1:
        raise AnalysisBroken('R3.9: header storage of %s not recognised (%s)' % (cls, hdr))
    return hdr[0], flags


def keyed_reader(prog, cls):
    fs = [g for g in prog.funcs.values() if g.q == NS + cls + '::ReadValue' and len(g.params) == 2 and g.body is not None]
    if len(fs) != 1:
        raise AnalysisBroken('anchor vanished: %s::ReadValue(key, out)' % cls)
    return fs[0]


def outcomes(prog, cls):
    """{(cursor, key): ('column', i) | ('absent',) | other} for the keyed ReadValue of one reader"""
    f = keyed_reader(prog, cls)
    hdr, flags = roles(prog, cls)
    # the row cursor: the integral member incremented in this function
    inc = set()
    for x in f.walk():
        if x['k'] == 'UnaryOperator' and x.get('op') == '++':
            t = strip(x['c'][0])
            if t is not None and t['k'] == 'MemberExpr':
                inc.add(t['m'])
    if len(inc) != 1:
        raise AnalysisBroken('R3.9: the row cursor of %s::ReadValue(key) not recognised (%s)' % (cls, sorted(inc)))
    idxf = list(inc)[0]
    res = {}
    for idx0 in range(0, len(HEADERS)):
        for key in KEYS:
            model = KeyModel(cls, hdr, idxf, flags, idx0, HEADERS)
            it = KeyInterp(prog, model, max_depth=1, max_paths=20)

            def init(it_, fr):
                fr.env[f.params[0]['d']] = key
                fr.env[f.params[1]['d']] = TOP
            paths = it.run(f, init)
            out = set()
            for p in paths:
                if p.outcome[0] == 'THROW':
                    out.add(('throws', str(p.outcome[1])))
                elif any(a[0] == 'HEADER-OOB' for a in p.actions):
                    out.add(('reads a header outside the row',))
                elif p.outcome[1] in (1, True):
                    cols = [a[1] for a in p.actions if a[0] == 'COLUMN']
                    out.add(('column', cols[-1] if cols else None))
                elif p.outcome[1] in (0, False):
                    out.add(('absent',))
                else:
                    out.add(('returns', str(p.outcome[1])))
            res[(idx0, key)] = out
    return f, res


def check(prog, rep, rule):
    for cls in ('CCsvStringReader', 'CCsvStreamReader'):
        f, res = outcomes(prog, cls)
        rep.touch(f)
        bad = []
        for (idx0, key), out in sorted(res.items()):
            want = {('column', HEADERS.index(key))} if key in HEADERS else {('absent',)}
            if out != want:
                bad.append((idx0, key, sorted(out), sorted(want)))
        site = '%s::ReadValue(key)' % cls
        if bad:
            idx0, key, out, want = bad[0]
            rep.finding(rule, site, f.loc(), '%s with the columns %s, cursor after column %d, key "%s": %s, expected %s - the value of another column is reported as '
                        'the requested one' % (site, HEADERS, idx0, key, out, want), {'cases': [str(b) for b in bad[:10]]}, func=f.id, count=len(bad))
        else:
            rep.ok(rule, site, sample={'reader': cls, 'cells': len(res), 'headers': HEADERS})


# ------------------------------------------------------------------------------------------------ reading a cell does not change the row
def writes_through(g, param_decl):
    """does g store through a pointer derived from its parameter? (flow-insensitive derivation closure over locals)"""
    derived = {param_decl}
    changed = True
    while changed:
        changed = False
        for x in g.walk():
            tgt = None
            src = None
            if x['k'] == 'DeclStmt' and x.get('decls') and x.get('c'):
                tgt, src = x['decls'][0]['d'], x['c'][0]
            elif x['k'] == 'BinaryOperator' and x.get('op') == '=':
                l = strip(x['c'][0])
                if l is not None and l['k'] == 'DeclRefExpr':
                    tgt, src = l.get('d'), x['c'][1]
            if tgt is not None and tgt not in derived and src is not None:
                if any(y['k'] == 'DeclRefExpr' and y.get('d') in derived for y in g.walk(src)) and '*' in g.type(src):
                    derived.add(tgt)
                    changed = True
    for x in g.walk():
        if x['k'] in ('BinaryOperator', 'CompoundAssignOperator') and x.get('op', '').endswith('=') and x.get('op') not in ('==', '!=', '<=', '>='):
            l = strip(x['c'][0])
            if l is None:
                continue
            if l['k'] == 'UnaryOperator' and l.get('op') == '*' or l['k'] == 'ArraySubscriptExpr':
                if any(y['k'] == 'DeclRefExpr' and y.get('d') in derived for y in g.walk(l)):
                    return g.loc(x)
    return None


def check_idempotent(prog, rep, rule):
    """ReadValue (both overloads, both readers): the row storage is not written - the same cell can be requested again (same key twice,
    a class reading one column into two members) and gives the same value; the memory reader reads from the caller's constant text."""
    n = 0
    for cls in ('CCsvStringReader', 'CCsvStreamReader'):
        fs = [g for g in prog.funcs.values() if g.q == NS + cls + '::ReadValue' and g.body is not None]
        if len(fs) != 2:
            raise AnalysisBroken('anchor: expected 2 overloads of %s::ReadValue' % cls)
        for f in sorted(fs, key=lambda g: g.id):
            rep.touch(f)
            bad = None
            for x in f.walk():
                if x['k'] != 'CXXMemberCallExpr':
                    continue
                c = f.callee(x) or {}
                g = prog.funcs.get(c.get('id'))
                if not c.get('repo') or g is None or c.get('cls') != NS + cls:
                    continue
                for i, a in enumerate(x['c'][1:]):
                    if i >= len(g.params):
                        break
                    pt = g.tu['types'][g.params[i]['t']]
                    from_member = any(y['k'] == 'MemberExpr' and y.get('dk') == 'Field' for y in f.walk(a))
                    if not from_member or not pt.rstrip().endswith(('*', '&')) or pt.replace(' ', '').startswith('const'):
                        continue
                    w = writes_through(g, g.params[i]['d'])
                    if w:
                        bad = (f.loc(x), '%s is handed a writable pointer into the row storage and stores through it at %s' % (c['n'], w))
            site = '%s::ReadValue(%s)' % (cls, 'key' if len(f.params) == 2 else 'next')
            n += 1
            if bad:
                rep.finding(rule, site + '|row storage written', bad[0], '%s: %s - the cell is decoded in place, a second request for the same cell '
                            '(same key read twice) finds the text already changed; the other reader decodes into a scratch buffer' % (site, bad[1]), func=f.id)
            else:
                rep.ok(rule, site)
    return n
